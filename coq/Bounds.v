(* Bounds.v -- the hand-written identity of `TraitBound` (lib.rs:95-272, after fixes F13
   and F20): Eq / Hash input / ToTokens, all ignoring `A = X` bindings and nothing else.
   A trait bound is a Path term.  No proofs here. *)
From Coq Require Import List String Ascii Bool.
Import ListNotations.
From DI Require Import Syntax Tokens.

Definition is_binding (t : term) : bool := is_kind "GAssocType" (tlabel t).

(* arguments of a path segment that take part in the identity: everything but bindings;
   `Tr`, `Tr<>` and `Tr<A = X>` all have none *)
Definition seg_key_args (seg : term) : list term :=
  match seg with
  | Node _ [Node la args] => if is_kind "AAngle" la then filter (fun a => negb (is_binding a)) args else []
  | _ => []
  end.

Fixpoint split_last {A} (l : list A) : option (list A * A) :=
  match l with
  | [] => None
  | [x] => Some ([], x)
  | x :: r => match split_last r with Some (i, z) => Some (x :: i, z) | None => None end
  end.

(* The dispatch-key identity of a trait path: (leading colon, token strings of the leading
   segments, identifier of the last segment, token strings of its non-binding arguments).
   This is simultaneously what `eq` compares and the sequence of strings `hash` feeds to the
   hasher (lib.rs:225-244): Hash input = identity. *)
Definition tb_key (p : term) : option (bool * list (list string) * string * list (list string)) :=
  match p with
  | Node lp segs =>
      match split_last segs with
      | Some (init, last) =>
          Some (negb (String.eqb (ld lp) ""), map tokens init, ld (tlabel last),
                map tokens (seg_key_args last))
      | None => None        (* `unwrap()` on an empty path: never parsed *)
      end
  end.

Definition toks_list_eqb (a b : list (list string)) : bool := all2_with toks_eqb a b.

Definition tb_eqb (p q : term) : bool :=
  match tb_key p, tb_key q with
  | Some (c1, i1, n1, a1), Some (c2, i2, n2, a2) =>
      Bool.eqb c1 c2 && toks_list_eqb i1 i2 && String.eqb n1 n2 && toks_list_eqb a1 a2
  | _, _ => false
  end.

(* the byte stream fed to the hasher, as the list of hashed strings *)
Definition tb_hash_input (p : term) : list string :=
  match tb_key p with
  | Some (c, i, n, a) =>
      (if c then "u8:1"%string else "u8:0"%string) ::
      map (String.concat " ") i ++ n :: map (String.concat " ") a
  | None => []
  end.

(* what is printed in generated where-clauses and projections: the path with exactly the
   bindings removed (`Tr<A = X>` prints `Tr<>`) *)
Definition strip_bindings (p : term) : term :=
  match p with
  | Node lp segs =>
      match split_last segs with
      | Some (init, Node ls [Node la args]) =>
          if is_kind "AAngle" la
          then Node lp (init ++ [Node ls [Node la (filter (fun a => negb (is_binding a)) args)]])
          else p
      | _ => p
      end
  end.

Definition tb_tokens (p : term) : list string := tokens (strip_bindings p).

(* a dispatch key: (bounded type, trait path); `Bounded` derives Eq/Hash structurally *)
Definition key_eqb (k1 k2 : term * term) : bool :=
  term_eqb (fst k1) (fst k2) && tb_eqb (snd k1) (snd k2).
