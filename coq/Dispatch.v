(* Dispatch.v -- the meaning of the generated program, abstractly.
   For one family the expansion consists of a helper trait with one extra parameter per
   dispatch key, one helper impl per member (the user's block with its row of payloads as
   the extra trait arguments) and one main impl
       impl<..> Trait for Header where B_k: Tr_k .., Self: Helper<<B_k as Tr_k>::A_k ..>.
   Queries Q are ground (trait arguments, self type); V are tuples of key values.
   No proofs here. *)
From Coq Require Import List Bool.
Import ListNotations.

Section Family.
  Variables Q V : Type.

  (* the values of the key projections at q; None when the family header does not match q
     or a key bound does not hold (the main impl's where-clause fails) *)
  Variable keyvals : Q -> option V.

  Record member := {
    m_applies : Q -> bool;        (* the user-written block applies to q (header + where-clauses) *)
    m_row : Q -> V -> bool        (* the helper impl's extra trait arguments equal v at q *)
  }.

  Variable members : list member.

  (* the helper impl is the user's block verbatim plus the row *)
  Definition helper_applies (m : member) (q : Q) (v : V) : bool := m_applies m q && m_row m q v.

  (* `Trait` is implemented for q through this family *)
  Definition main_applies (q : Q) : bool :=
    match keyvals q with
    | Some v => existsb (fun m => helper_applies m q v) members
    | None => false
    end.

  (* the members whose helper impl the delegation `<Self as Helper<..>>::item` can reach *)
  Definition selected (q : Q) : list member :=
    match keyvals q with
    | Some v => filter (fun m => helper_applies m q v) members
    | None => []
    end.

  (* Grouping invariant (semantic reading of C11: instance, shared keys, exact rows):
     whenever a member's block applies to q, the family header matches q, every key bound
     holds (keyvals is defined) and the member's row agrees with the key values. *)
  Definition grouping_invariant : Prop :=
    forall m q, In m members -> m_applies m q = true ->
      exists v, keyvals q = Some v /\ m_row m q v = true.

  (* coherence of the helper impls, as rustc checks it: no helper trait reference
     (q, v) has two distinct applicable helper impls *)
  Definition helpers_coherent : Prop :=
    forall q v m1 m2, In m1 members -> In m2 members ->
      helper_applies m1 q v = true -> helper_applies m2 q v = true -> m1 = m2.
End Family.
