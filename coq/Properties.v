(* Properties.v -- the pinned property theorems and nothing else.  Each is closed by
   `exact <lemma>` and followed by Print Assumptions; the checks read this file's compile
   log.  Statements are never weakened: a statement that cannot be proved stays visible
   under a `_partial` twin (see DESIGN.md section 9). *)
From Coq Require Import List String Ascii Bool Permutation Lia.
Import ListNotations.
From DI Require Import Syntax Tokens Bounds Param Subs Superset Substitute Spec RustSem Group Search Gen GenMain Validate IMap Hygiene Dispatch Examples ExamplesGroup ExamplesF16.
From DI.proofs Require Import Basics SupersetSound SupersetExact SupersetIdentity SupersetComplete SupersetWf SubstituteProofs SubstituteSpec SubstituteNoDup BoundsProofs DispatchProofs GroupProofs SearchProofs SearchFlat SearchNested SearchRows FlatSemantics FlatConcrete GenProofs GenMainProofs GenMainArgs GenMainKeys ParamProofs ParamNames ParamAlpha ParamCanon ParamOrder ParamIdem RustSemProofs ValidateProofs IMapProofs HygieneProofs.

(* ===================================================================================== *)
(* C09 -- header generalisation is exact first-order matching                             *)
(* ===================================================================================== *)

(* Whenever the matcher answers Some s, applying s to the pattern reproduces the instance
   up to the documented congruence [equivb] -- for every pair of terms, no size bound. *)
Theorem C09_sound : forall a b s, sup a b = Some s -> equivb (apply s a) b = true.
Proof. exact sup_sound. Qed.
Print Assumptions C09_sound.

(* ... and the same for every extension of s (bindings added by sibling sub-terms never
   disturb a match: each parameter has one value at all of its occurrences). *)
Theorem C09_sound_stable : forall a b s, sup a b = Some s ->
  forall s', ext s s' -> equivb (apply s' a) b = true.
Proof. exact sup_good. Qed.
Print Assumptions C09_sound_stable.

(* On terms that use none of the congruence's features the congruence is equality:
   the substitution makes the pattern SYNTACTICALLY equal to the instance. *)
Theorem C09_sound_exact : forall a b s, sup a b = Some s ->
  plain (apply s a) = true -> plain b = true -> apply s a = b.
Proof.
  intros a b s H P1 P2. exact (equivb_plain_eq _ _ P1 P2 (sup_sound a b s H)).
Qed.
Print Assumptions C09_sound_exact.

(* A parameter matched against itself is reported as unchanged. *)
Theorem C09_identity_at : forall a b p,
  ty_param a = Some p -> ty_param b = Some p -> sup a b = Some [(p, VIdentity)].
Proof. exact sup_identity_at. Qed.
Print Assumptions C09_identity_at.

Theorem C09_identity_at_expr : forall a b p,
  ex_param a = Some p -> ex_param b = Some p -> sup a b = Some [(p, VIdentity)].
Proof. exact sup_identity_at_expr. Qed.
Print Assumptions C09_identity_at_expr.

(* Known finding F5c (the code matches operands of commutative operators crosswise): the
   strict statement "apply s a = b" is FALSE of the faithful model; witness
   [u8; 1 + _ŠČ0] vs [u8; N + 1]. *)
Theorem C09_F5c_refuted : exists a b s,
  sup a b = Some s /\ has_comm_binary a = true /\
  equivb (apply s a) b = true /\ term_eqb (apply s a) b = false.
Proof.
  exists f5c_pat, f5c_inst, [(pid "0", VExpr (eC "N"))]. vm_compute. repeat split.
Qed.
Print Assumptions C09_F5c_refuted.

(* non-vacuity: a non-trivial pair satisfies the hypotheses of C09_sound_exact *)
Example C09_nonvacuous :
  sup ex_pat ex_inst = Some ex_subs /\ plain (apply ex_subs ex_pat) = true /\ plain ex_inst = true
  /\ apply ex_subs ex_pat = ex_inst.
Proof. vm_compute. repeat split. Qed.
Print Assumptions C09_nonvacuous.

(* completeness (the converse direction): if the second term IS the first with its parameters
   substituted by theta (values are not wrappers, not the parameter itself, of the parameter's
   sort; no parameter under a qualified self type is moved; the conditions are the decidable
   predicate [cwf]), the matcher finds a substitution, every entry of it is theta's value for
   that parameter (Identity where theta leaves it alone), and it binds only parameters of
   the pattern. *)
Theorem C09_complete : forall theta a, cwf theta a = true ->
  exists s, sup a (apply theta a) = Some s
            /\ (forall p v, In (p, v) s -> v = value_of theta p)
            /\ (forall p v, In (p, v) s -> In p (params a)).
Proof. exact sup_complete. Qed.
Print Assumptions C09_complete.

Example C09_complete_nonvacuous :
  cwf ex_subs ex_pat = true /\ apply ex_subs ex_pat = ex_inst /\ ex_subs <> [].
Proof. vm_compute. repeat split. discriminate. Qed.
Print Assumptions C09_complete_nonvacuous.

(* every substitution the matcher reports is well-formed: one entry per parameter, keys are
   parameter identifiers, Expr values are expressions (closure principle [sup_closure]) *)
Theorem C09_reported_wf : forall a b s, sup a b = Some s -> wf_subs s.
Proof. exact sup_wf. Qed.
Print Assumptions C09_reported_wf.

(* reflexivity: every header generalises itself, and the reported substitution leaves every
   parameter alone (this is what puts blocks with one and the same header into one family) *)
Theorem C09_reflexive : forall a, cwf [] a = true ->
  exists s, sup a a = Some s /\ (forall p v, In (p, v) s -> v = VIdentity).
Proof. exact sup_refl_identity. Qed.
Print Assumptions C09_reflexive.

Example C09_reflexive_nonvacuous :
  cwf [] ex_pat = true /\ params ex_pat <> [] /\
  exists s, sup ex_pat ex_pat = Some s /\ s <> [].
Proof.
  split; [vm_compute; reflexivity|]. split; [vm_compute; discriminate|].
  eexists. split; [vm_compute; reflexivity|discriminate].
Qed.
Print Assumptions C09_reflexive_nonvacuous.

(* the converse of reflexivity: a match that instantiates no parameter is an equality -- the
   two headers are the same up to the congruence, and syntactically equal when plain.  With
   C09_reflexive: "generalises with the all-identity substitution" IS "same header". *)
Theorem C09_identity_match_is_equality : forall a b s, sup a b = Some s ->
  (forall p v, In (p, v) s -> v = VIdentity) ->
  equivb a b = true /\ (plain a = true -> plain b = true -> a = b).
Proof.
  intros a b s H Hid. split; [exact (sup_identity_equiv a b s H Hid)|exact (sup_identity_eq a b s H Hid)].
Qed.
Print Assumptions C09_identity_match_is_equality.

(* ===================================================================================== *)
(* C10 -- bound re-expression over a more general header is exact                         *)
(* ===================================================================================== *)

(* the result is never empty, for every substitution and every key *)
Theorem C10_nonempty : forall s bounded trait_, subst_key s bounded trait_ <> [].
Proof. exact subst_key_nonempty. Qed.
Print Assumptions C10_nonempty.

(* under the identity substitution the bound is returned unchanged (and only it) *)
Theorem C10_identity : forall s bounded trait_,
  (forall p v, In (p, v) s -> v = VIdentity) -> subst_key s bounded trait_ = [(bounded, trait_)].
Proof. exact subst_key_identity. Qed.
Print Assumptions C10_identity.

(* substituting the parameters back yields exactly the original bound, for every
   well-formed substitution and every key that is re-expressible over the general header
   ([stable_key] = the crate's `is_expressible`, fix F1; outside it the key is never used) *)
Theorem C10_roundtrip : forall s bounded trait_,
  wf_subsb s = true -> stable_key s bounded trait_ = true ->
  forall rb rt, In (rb, rt) (subst_key s bounded trait_) ->
  apply s rb = bounded /\ apply s rt = trait_.
Proof.
  intros s b t W. exact (subst_key_roundtrip s b t (wf_subsb_sound s W)).
Qed.
Print Assumptions C10_roundtrip.

(* C09 composed with C10: the round trip needs no side condition on substitutions that the
   matcher itself reported *)
Theorem C10_roundtrip_of_reported : forall a b s bounded trait_,
  sup a b = Some s -> stable_key s bounded trait_ = true ->
  forall rb rt, In (rb, rt) (subst_key s bounded trait_) ->
  apply s rb = bounded /\ apply s rt = trait_.
Proof. exact sup_then_roundtrip. Qed.
Print Assumptions C10_roundtrip_of_reported.

(* the reverse-map implementation computes exactly the specified enumeration: at every node
   that is a parameter's value one result per parameter bound to it (plus the identity-mapped
   parameter the node spells, fix F25), products over children, nothing else *)
Theorem C10_exact_enumeration : forall s bounded trait_,
  subst_key s bounded trait_ = spec_key s bounded trait_.
Proof. exact subst_key_is_spec. Qed.
Print Assumptions C10_exact_enumeration.

(* C09 reflexivity composed with C10: a block whose header IS the family's header has every
   one of its bounds re-expressed as itself, and only as itself, with no side condition on
   the bound -- the flat families of the documentation never rewrite a bound *)
Theorem C10_same_header_unchanged : forall a, cwf [] a = true ->
  exists s, sup a a = Some s /\
    forall bounded trait_, stable_key s bounded trait_ = true /\
                           subst_key s bounded trait_ = [(bounded, trait_)].
Proof.
  intros a Hc. destruct (sup_refl_identity a Hc) as (s & Hs & Hid).
  exists s. split; [exact Hs|]. intros b t. split.
  - exact (stable_key_identity s b t Hid).
  - exact (subst_key_identity s b t Hid).
Qed.
Print Assumptions C10_same_header_unchanged.

(* "exactly one re-expression per way of choosing": no re-expression is listed twice, for
   every substitution with one entry per parameter and every bound (together with
   C10_exact_enumeration: the results are in bijection with the choices) *)
Theorem C10_no_duplicate_reexpression : forall s bounded trait_,
  NoDup (map fst s) -> NoDup (subst_key s bounded trait_).
Proof. intros s b t. exact (subst_key_nodup s b t). Qed.
Print Assumptions C10_no_duplicate_reexpression.

(* ... in particular for every substitution the matcher reports *)
Theorem C10_no_duplicate_of_reported : forall a b s bounded trait_,
  sup a b = Some s -> NoDup (subst_key s bounded trait_).
Proof.
  intros a b s bd t H. apply subst_key_nodup. exact (proj1 (sup_wf a b s H)).
Qed.
Print Assumptions C10_no_duplicate_of_reported.

(* F25: for (T => T, U => T) the bound `T: D` is re-expressed both as `T: D` and as `U: D` *)
Example C10_identity_param_is_a_value :
  subst_key [(pid "0", VIdentity); (pid "1", VType (tP "0"))] (tP "0") (path1 "D" anone)
  = [(tP "1", path1 "D" anone); (tP "0", path1 "D" anone)].
Proof. vm_compute. reflexivity. Qed.
Print Assumptions C10_identity_param_is_a_value.

(* non-vacuity: (_ŠČ0, _ŠČ1) over (Vec<_ŠČ0>, Vec<_ŠČ0>), key Option<Vec<_ŠČ0>>: D<Vec<_ŠČ0>> *)
Example C10_nonvacuous :
  let s := [(pid "0", VType (tC "Vec" [gty (tP "0")])); (pid "1", VType (tC "Vec" [gty (tP "0")]))] in
  let b := tC "Option" [gty (tC "Vec" [gty (tP "0")])] in
  let t := path1 "D" (aangle [gty (tC "Vec" [gty (tP "0")])]) in
  wf_subsb s = true /\ stable_key s b t = true /\ List.length (subst_key s b t) = 4.
Proof. vm_compute. repeat split. Qed.
Print Assumptions C10_nonvacuous.

(* non-vacuity of C10_no_duplicate_reexpression: the same substitution has one entry per
   parameter and four re-expressions of the key, pairwise different *)
Example C10_no_duplicate_nonvacuous :
  let s := [(pid "0", VType (tC "Vec" [gty (tP "0")])); (pid "1", VType (tC "Vec" [gty (tP "0")]))] in
  let b := tC "Option" [gty (tC "Vec" [gty (tP "0")])] in
  let t := path1 "D" (aangle [gty (tC "Vec" [gty (tP "0")])]) in
  NoDup (map fst s) /\ List.length (subst_key s b t) = 4 /\ NoDup (subst_key s b t).
Proof.
  cbv zeta. split; [|split].
  - repeat constructor; simpl; intuition discriminate.
  - vm_compute. reflexivity.
  - apply C10_no_duplicate_reexpression. repeat constructor; simpl; intuition discriminate.
Qed.
Print Assumptions C10_no_duplicate_nonvacuous.

(* ===================================================================================== *)
(* C12 -- dispatch-key identity ignores associated-type bindings and nothing else         *)
(* ===================================================================================== *)

(* two bounds are the same key exactly when their identities -- leading colon, tokens of the
   leading segments, last identifier, tokens of the non-binding arguments -- coincide *)
Theorem C12_iff_identity : forall p q,
  tb_eqb p q = true <-> (tb_key p = tb_key q /\ tb_key p <> None).
Proof. exact tb_eqb_iff. Qed.
Print Assumptions C12_iff_identity.

Theorem C12_refl : forall p, tb_key p <> None -> tb_eqb p p = true.
Proof. exact tb_eqb_refl. Qed.
Print Assumptions C12_refl.

Theorem C12_sym : forall p q, tb_eqb p q = true -> tb_eqb q p = true.
Proof. exact tb_eqb_sym. Qed.
Print Assumptions C12_sym.

Theorem C12_trans : forall p q r, tb_eqb p q = true -> tb_eqb q r = true -> tb_eqb p r = true.
Proof. exact tb_eqb_trans. Qed.
Print Assumptions C12_trans.

(* equal keys feed the same strings to the hasher: equal hashes for every hasher state *)
Theorem C12_hash_agrees : forall p q, tb_eqb p q = true -> tb_hash_input p = tb_hash_input q.
Proof. exact tb_hash_agrees. Qed.
Print Assumptions C12_hash_agrees.

(* bindings are ignored: the bound with its bindings removed (what is emitted) is the same
   key as the user's bound -- Tr, Tr<> and Tr<A = X> alike *)
Theorem C12_bindings_ignored : forall p, tb_key p <> None -> tb_eqb p (strip_bindings p) = true.
Proof. exact tb_eqb_strip. Qed.
Print Assumptions C12_bindings_ignored.

Example C12_nonvacuous :
  let p := Node (K "Path" "") [seg "m" anone; seg "D" (aangle [gty (tC0 "u8"); gassoc "G" (tC0 "A")])] in
  let q := Node (K "Path" "") [seg "m" anone; seg "D" (aangle [gty (tC0 "u8")])] in
  let r := Node (K "Path" "::") [seg "m" anone; seg "D" (aangle [gty (tC0 "u8")])] in
  tb_eqb p q = true /\ tb_eqb q r = false /\
  tb_tokens p = ["m"; "::"; "D"; "<"; "u8"; ">"]%string.
Proof. vm_compute. repeat split. Qed.
Print Assumptions C12_nonvacuous.

(* ===================================================================================== *)
(* C01 / C02 / C04 -- meaning of the generated program (Dispatch.v), for every family,     *)
(* every world and every ground query, from the grouping invariant that C11 checks         *)
(* ===================================================================================== *)

(* C02: the trait is implemented (through a family) iff some member block applies; in
   particular no block is narrowed by bounds only other blocks mention *)
Theorem C02_exact_coverage : forall (Q V : Type) keyvals (members : list (member Q V)),
  grouping_invariant Q V keyvals members ->
  forall q, main_applies Q V keyvals members q = true <->
            exists m, In m members /\ m_applies Q V m q = true.
Proof. exact exact_coverage. Qed.
Print Assumptions C02_exact_coverage.

Theorem C02_no_narrowing : forall (Q V : Type) keyvals (members : list (member Q V)),
  grouping_invariant Q V keyvals members ->
  forall m q, In m members -> m_applies Q V m q = true -> In m (selected Q V keyvals members q).
Proof. exact no_narrowing. Qed.
Print Assumptions C02_no_narrowing.

(* the link from the syntactic side to the semantic grouping invariant, for a flat family (n
   blocks with one header whose only bound is the key bound B: Tr<A = p_i>): with the key value
   <B as Tr>::A at the query and "p_i instantiated at the query generalises that value" as the
   row test, the invariant holds for RustSem.applies, hence coverage is exact *)
Theorem C02_flat_grouping_invariant : forall W Hd B TR a n blk T p,
  (forall i, i < n -> block_header (blk i) = Hd) ->
  (forall i, i < n -> block_bounds (blk i) = [{| b_ty := B; b_maybe := false; b_path := T i |}]) ->
  (forall i, i < n -> trait_ref (T i) = TR) ->
  (forall i, i < n -> path_bindings (T i) = [(a, p i)]) ->
  (forall rho, is_sized_path (apply rho TR) = false) ->
  grouping_invariant term term (keyvals W Hd B TR a) (map (member_of W Hd blk p) (seq 0 n)).
Proof. exact flat_grouping_invariant. Qed.
Print Assumptions C02_flat_grouping_invariant.

Theorem C02_flat_exact_coverage : forall W Hd B TR a n blk T p,
  (forall i, i < n -> block_header (blk i) = Hd) ->
  (forall i, i < n -> block_bounds (blk i) = [{| b_ty := B; b_maybe := false; b_path := T i |}]) ->
  (forall i, i < n -> trait_ref (T i) = TR) ->
  (forall i, i < n -> path_bindings (T i) = [(a, p i)]) ->
  (forall rho, is_sized_path (apply rho TR) = false) ->
  forall q, main_applies term term (keyvals W Hd B TR a) (map (member_of W Hd blk p) (seq 0 n)) q = true <->
            exists i, i < n /\ applies W (blk i) q = true.
Proof. exact flat_exact_coverage. Qed.
Print Assumptions C02_flat_exact_coverage.

(* the hypotheses are met by the two (T, U) blocks of the example invocation *)
Example C02_flat_nonvacuous :
  let b0 := nth 0 ex_blocks (Node (K "" "") []) in
  let b2 := nth 2 ex_blocks (Node (K "" "") []) in
  block_header b0 = block_header b2 /\
  match block_bounds b0, block_bounds b2 with
  | [x0], [x2] => term_eqb (b_ty x0) (b_ty x2) && negb (b_maybe x0) && negb (b_maybe x2) &&
                  term_eqb (trait_ref (b_path x0)) (trait_ref (b_path x2)) &&
                  negb (is_sized_path (trait_ref (b_path x0))) &&
                  Nat.eqb (List.length (path_bindings (b_path x0))) 1 && Nat.eqb (List.length (path_bindings (b_path x2))) 1
  | _, _ => false
  end = true.
Proof. vm_compute. split; reflexivity. Qed.
Print Assumptions C02_flat_nonvacuous.

(* C04: a query satisfying two different members makes the helper impls incoherent *)
Theorem C04_overlap_incoherent : forall (Q V : Type) keyvals (members : list (member Q V)),
  grouping_invariant Q V keyvals members ->
  forall m1 m2 q, In m1 members -> In m2 members -> m1 <> m2 ->
  m_applies Q V m1 q = true -> m_applies Q V m2 q = true -> ~ helpers_coherent Q V members.
Proof. exact overlap_incoherent. Qed.
Print Assumptions C04_overlap_incoherent.

(* C01: in a coherent expansion the member reached by the delegation is the unique block
   that applies to the query *)
Theorem C01_dispatch_sound : forall (Q V : Type) keyvals (members : list (member Q V)),
  grouping_invariant Q V keyvals members ->
  forall q m, helpers_coherent Q V members -> In m (selected Q V keyvals members q) ->
  In m members /\ m_applies Q V m q = true /\
  forall m', In m' members -> m_applies Q V m' q = true -> m' = m.
Proof. exact dispatch_sound. Qed.
Print Assumptions C01_dispatch_sound.

(* the generated helper impl is the user's block verbatim -- generics, self type, where-clause
   and items (visibilities dropped in inherent mode) -- with only the trait path replaced by the
   helper trait applied to the row: the assumption `helper_applies m q v = m_applies m q &&
   m_row m q v` of Dispatch.v, for the function Gen.gen_helper_impl that `check C01` compares
   with the macro's own helper impls *)
Theorem C01_helper_impl_verbatim : forall idx first keys row lb gen tr self wh li items h,
  gen_helper_impl idx first keys row (Node lb [gen; tr; self; wh; Node li items]) = Some h ->
  exists lo' p items',
    h = Node lb [gen; Node lo' [p]; self; wh; Node li items'] /\ is_kind "OSome" lo' = true /\
    (items' = items \/ (tr = Node (tlabel tr) [] /\ items' = map strip_vis items)).
Proof. exact gen_helper_verbatim. Qed.
Print Assumptions C01_helper_impl_verbatim.

(* the items of the generated main impl (trait mode): one item per item of the trait definition,
   in its order, with its name and no visibility, and the value of each is the helper trait's
   item of the same name, `<Self as Helper<..>>::name` (a const's expression, an associated
   type's type, the single call in a function's body).  With C01_helper_impl_verbatim (the
   helper impl of a block is the block) and C01_dispatch_sound (the helper impl selected is the
   applicable block's) the items obtained are the applicable block's, by name. *)
Theorem C01_main_items_forward : forall tdef titems idx fb g items p,
  (match fb with Node _ [_; tr; _; _; _] => opt_kid tr = Some p | _ => False end) ->
  gen_main_items tdef titems idx fb g = Some (Node (K "Items" "") items) ->
  exists hb, helper_bound idx fb (abg_idents g) = Some hb /\
    Forall2 (fun ti it =>
               ld (tlabel it) = String ";"%char (ld (tlabel ti)) /\
               exists v, item_value it = Some v /\ is_forwarder hb (ld (tlabel ti)) v)
            (tkids titems) items.
Proof. exact main_items_trait_mode. Qed.
Print Assumptions C01_main_items_forward.

(* the where-clause of the generated main impl names every dispatch key of the family: for each
   key there is a predicate on exactly its bounded type listing a trait that is the key's trait
   as far as dispatch-key identity goes (same path and generic arguments, C12_iff_identity), so
   two keys of one parameter that differ only in the trait's arguments or qualifying segments
   are both named (seed C12h: a main impl that drops one of them, E0277) *)
Theorem C01_main_impl_names_every_key : forall idx first_blk g preds b tr a,
  key_preds idx first_blk g = Some preds ->
  In ((b, tr), a) (abg_idents g) -> tb_eqb tr tr = true ->
  exists trs t,
    In (Node (K "PredType" "")
             (b :: (if existsb (term_eqb b) (ab_unsized g) then [maybe_sized] else []) ++ map plain_bound trs)) preds /\
    In t trs /\ tb_eqb t tr = true.
Proof. exact key_preds_name_every_key. Qed.
Print Assumptions C01_main_impl_names_every_key.

(* non-vacuity: the first family of the example invocation has keys, each reflexive for tb_eqb,
   and its key predicates are generated *)
Example C01_keys_nonvacuous :
  match search 20 ex_blocks with
  | Some (e :: _) =>
      let g := fst (snd e) in
      match snd (snd e) with
      | m0 :: _ =>
          match nth_error ex_blocks m0 with
          | Some fb =>
              (key_preds 0 fb g <> None) /\ (abg_idents g <> []) /\
              (forallb (fun id : tbid * string => tb_eqb (snd (fst id)) (snd (fst id))) (abg_idents g) = true)
          | None => False
          end
      | [] => False
      end
  | _ => False
  end.
Proof. vm_compute. repeat split; discriminate. Qed.
Print Assumptions C01_keys_nonvacuous.

(* position i means key i on both sides: the dispatch arguments of the main impl's helper bound
   are the projections of the family's keys in key order (after the hoisted lifetimes, before
   the trait's other arguments), and the i-th dispatch argument of a member's helper impl is
   its row's i-th cell: the payload, or the projection of key i over the member's own header *)
Theorem C01_main_helper_arguments_in_key_order : forall idx first_blk ids p,
  helper_bound idx first_blk ids = Some p ->
  exists name lts others,
    p = Node (K "Path" "") [Node (K "Seg" name) [Node (K "AAngle" "") (lts ++ map key_projection ids ++ others)]] /\
    forallb (fun x => is_kind "Lifetime" (tlabel x)) lts = true /\
    forallb (fun x => negb (is_kind "Lifetime" (tlabel x))) others = true.
Proof. exact helper_bound_positions. Qed.
Print Assumptions C01_main_helper_arguments_in_key_order.

Theorem C01_member_helper_arguments_in_key_order : forall s keys row i k c,
  nth_error keys i = Some k -> nth_error row i = Some c ->
  nth_error (row_args s keys row) i =
  Some (match c with
        | Some payload => Node (K "GType" "") [payload]
        | None => let '((bounded, tr), a) := k in projection_arg (fwd s bounded) (fwd s (strip_bindings tr)) a
        end).
Proof. exact row_args_positions. Qed.
Print Assumptions C01_member_helper_arguments_in_key_order.

(* ===================================================================================== *)
(* C11 -- family formation.  The search is validated per grouping by the checker gi_check   *)
(* (run by the check on every grouping the macro reports); the checker is sound:           *)
(* ===================================================================================== *)

(* gi_check = true implies: the members of all families partition the (distinct) blocks;
   every member's header is an instance of its family's header (through the matcher, whose
   soundness gives `equivb (apply theta family) member`); every key is the re-expression
   of a bound of every member; every row cell is the member's own binding or a wildcard;
   no row generalises another *)
Theorem C11_grouping_invariants : forall blocks gs, gi_check blocks gs = true ->
  NoDup (flat_map g_members gs) /\
  (forall b, In b blocks -> In (first_index blocks b) (flat_map g_members gs)) /\
  (forall m, In m (flat_map g_members gs) -> m < List.length blocks) /\
  Forall (group_inv blocks) gs.
Proof. exact gi_check_sound. Qed.
Print Assumptions C11_grouping_invariants.

Example C11_nonvacuous :
  match parse_groups ex_grouping with
  | Some gs => gi_check ex_blocks gs = true /\ List.length gs = 2 /\
               map g_members gs = [[0; 2]; [1]]
  | None => False
  end.
Proof. vm_compute. repeat split. Qed.
Print Assumptions C11_nonvacuous.

(* the family search itself is modelled (Search.v, compared for equality with the grouping
   the macro reports on every generated invocation); whatever it returns, every family has a
   dispatch key and no row of payloads generalises another row of the same family *)
Theorem C11_search_families_ok : forall fuel blocks gm,
  search fuel blocks = Some gm ->
  Forall (fun e => abg_is_empty (fst (snd e)) = false /\ abg_is_overlapping (fst (snd e)) = false) gm.
Proof. exact search_families_ok. Qed.
Print Assumptions C11_search_families_ok.

(* the model reproduces the macro's own grouping of the example invocation (three blocks, a
   nested member, two families) and that grouping passes the invariant checker *)
Example C11_search_nonvacuous :
  search_render ex_blocks = Some ex_grouping.
Proof. vm_compute. reflexivity. Qed.
Print Assumptions C11_search_nonvacuous.

(* every family the search returns carries, under every one of its keys, exactly one row of
   payloads per member (the invariant of AssocBoundsGroup through new / intersection / prune and
   the whole backtracking search), for every input and every fuel *)
Theorem C11_one_row_per_member : forall fuel blocks gm,
  search fuel blocks = Some gm -> Forall rows_ok gm.
Proof. exact search_rows. Qed.
Print Assumptions C11_one_row_per_member.

(* hence the generator emits exactly one helper impl per member of every family: a block that
   was placed in a family appears once in the expansion, never zero times and never twice *)
Theorem C11_one_helper_impl_per_member : forall fuel blocks gm out,
  search fuel blocks = Some gm -> gen_helper_impls blocks gm = Some out ->
  Forall2 (fun fam e => List.length fam = List.length (snd (snd e))) out gm.
Proof. exact one_helper_impl_per_member. Qed.
Print Assumptions C11_one_helper_impl_per_member.

(* non-vacuity: on the example invocation the search succeeds, the generator succeeds, and the
   families have members *)
Example C11_rows_nonvacuous :
  match search 20 ex_blocks with
  | Some gm =>
      match gen_helper_impls ex_blocks gm with
      | Some out => map (@List.length term) out = map (fun e => List.length (snd (snd e))) gm /\
                    existsb (fun e => Nat.ltb 1 (List.length (snd (snd e)))) gm = true
      | None => False
      end
  | None => False
  end.
Proof. vm_compute. split; reflexivity. Qed.
Print Assumptions C11_rows_nonvacuous.


(* ===================================================================================== *)
(* C05 -- block order independence (meaning of the expansion)                              *)
(* ===================================================================================== *)

(* permuting the members of a family changes neither whether the trait is implemented for a
   query nor which members the delegation can reach *)
Theorem C05_coverage_perm : forall (Q V : Type) keyvals (ms ms' : list (member Q V)) q,
  Permutation ms ms' -> main_applies Q V keyvals ms q = main_applies Q V keyvals ms' q.
Proof. exact coverage_perm. Qed.
Print Assumptions C05_coverage_perm.

Theorem C05_selected_perm : forall (Q V : Type) keyvals (ms ms' : list (member Q V)) q,
  Permutation ms ms' ->
  Permutation (selected Q V keyvals ms q) (selected Q V keyvals ms' q).
Proof. exact selected_perm. Qed.
Print Assumptions C05_selected_perm.

(* for FLAT families (n blocks with one header, one key bound, pairwise non-unifiable
   payloads) the order is immaterial at full strength, on the concrete block terms: written
   in any other order (sigma, with inverse tau) the blocks are accepted as one family as well,
   and the generated main impl covers exactly the same queries, in every world *)
Theorem C05_flat_family_order_independent :
  forall (W : world) (tr self B TR : term) (a : string) (n : nat) (names : nat -> list string)
         (T p items : nat -> term) (sigma tau : nat -> nat),
  let blk := fun i => flat_block (names i) tr self B (T i) (items i) in
  let blk' := fun i => blk (sigma i) in
  let Hd := Node (K "GroupId" "") [tr; self] in
  0 < n -> NoDup (map blk (seq 0 n)) -> cwf [] Hd = true ->
  (forall i, i < n -> path_bindings (T i) = [(a, p i)]) ->
  (forall i j, i < n -> j < n -> tb_eqb (T i) (T j) = true) ->
  (forall i, i < n -> trait_ref (T i) = TR) ->
  (forall rho, is_sized_path (apply rho TR) = false) ->
  (forall i j, i < n -> j < n -> i <> j -> sup (p i) (p j) = None) ->
  (forall i, i < n -> sigma i < n) ->
  (forall j, j < n -> tau j < n /\ sigma (tau j) = j) ->
  (forall i j, i < n -> j < n -> sigma i = sigma j -> i = j) ->
  forall fuel, n < fuel ->
    (exists g, search fuel (map blk (seq 0 n)) = Some [(Hd, (g, seq 0 n))]) /\
    (exists g', search fuel (map blk' (seq 0 n)) = Some [(Hd, (g', seq 0 n))]) /\
    forall q,
      main_applies term term (keyvals W Hd B TR a) (map (member_of W Hd blk p) (seq 0 n)) q = true <->
      main_applies term term (keyvals W Hd B TR a)
                   (map (member_of W Hd blk' (fun i => p (sigma i))) (seq 0 n)) q = true.
Proof. intros. apply (flat_family_order_independent W tr self B TR a n names T p items sigma tau); assumption. Qed.
Print Assumptions C05_flat_family_order_independent.

(* non-vacuity: the two blocks of C03_flat_blocks_nonvacuous (whose hypotheses are shown there)
   under the swap of 0 and 1: the swap meets the hypotheses on sigma/tau, and the swapped order
   is accepted as one family too *)
Example C05_flat_order_nonvacuous :
  let tr := osome (path1 "K" anone) in
  let T := fun i => path1 "D" (aangle [gassoc "G" (tC0 (match i with O => "GA" | _ => "GB" end))]) in
  let blk := fun i => flat_block [pid "0"] tr (tP "0") (tP "0") (T i) (Node (K "Items" "") []) in
  let sigma := fun i => match i with O => 1 | _ => 0 end in
  (forall i, i < 2 -> sigma i < 2) /\ (forall j, j < 2 -> sigma j < 2 /\ sigma (sigma j) = j) /\
  (forall i j, i < 2 -> j < 2 -> sigma i = sigma j -> i = j) /\
  option_map (map (fun e => snd (snd e))) (search 9 [blk (sigma 0); blk (sigma 1)]) = Some [[0; 1]].
Proof.
  cbv zeta. repeat split.
  - intros [|[|i]] H; cbn; lia.
  - destruct j as [|[|j]]; cbn; lia.
  - destruct j as [|[|j]]; cbn; try reflexivity; lia.
  - intros [|[|i]] [|[|j]] Hi Hj; cbn; lia.
Qed.
Print Assumptions C05_flat_order_nonvacuous.

(* the search itself is NOT independent of the block order (known finding F16): for the same
   three blocks the families it forms are {B0, B2}, {B1} in one order and {B0, B1}, {B2} in
   another (one of the two nested members is split off; rustc then rejects one of the orders).
   The witness is the one `check C05` reports as KNOWN-FINDING. *)
Definition families_of (blocks : list term) : option (list (list term)) :=
  option_map (map (fun e => map (fun i => nth i blocks (Node (K "" "") [])) (snd (snd e))))
             (search (4 * List.length blocks + 8) blocks).

Theorem C05_search_order_independence_refuted :
  exists a b, Permutation a b /\
    families_of a = Some [[f16_b0; f16_b2]; [f16_b1]] /\
    families_of b = Some [[f16_b0; f16_b1]; [f16_b2]].
Proof.
  exists [f16_b0; f16_b1; f16_b2], [f16_b0; f16_b2; f16_b1]. split.
  - apply perm_skip. apply perm_swap.
  - split; vm_compute; reflexivity.
Qed.
Print Assumptions C05_search_order_independence_refuted.

(* ===================================================================================== *)
(* C13 -- parameter canonicalisation                                                       *)
(* ===================================================================================== *)

(* distinct parameters get distinct canonical numbers: the indexer hands out strictly
   increasing numbers, for every block (any size, any nesting of bounds) *)
Theorem C13_injective_numbering : forall b, NoDup (map snd (indexed (index_block b))).
Proof. exact index_block_injective. Qed.
Print Assumptions C13_injective_numbering.

(* ... and therefore distinct canonical NAMES: the identifier `_ŠČ<k>` determines k (the decimal
   printer is injective), for every block *)
Theorem C13_distinct_names : forall b,
  NoDup (map (fun e => canon_name (snd e)) (indexed (index_block b))).
Proof. exact canonical_names_distinct. Qed.
Print Assumptions C13_distinct_names.

Theorem C13_canonical_name_determines_number : forall a b, canon_name a = canon_name b -> a = b.
Proof. exact canon_name_inj. Qed.
Print Assumptions C13_canonical_name_determines_number.

(* non-vacuity: the first block of ExamplesGroup is canonical already: canonicalising it
   again changes nothing, and its two parameters are numbered 0 and 1 *)
Example C13_nonvacuous :
  match ex_blocks with
  | b :: _ => canon b = b /\ map snd (indexed (index_block b)) = [0; 1]
  | [] => False
  end.
Proof. vm_compute. split; reflexivity. Qed.
Print Assumptions C13_nonvacuous.

(* blocks equal up to a renaming of their parameters receive the SAME canonical block
   (generics list, header, where-clause, items): for injective renamings rl (lifetimes) and rt
   (type and const names) that leave alone every name canonicalisation leaves as written
   (`kept_block`: names that are not parameters, and parameters that are never indexed).
   A renaming of finitely many parameters to fresh or permuted names extends to such a pair by
   swapping old and new names, as in the example below. *)
Theorem C13_canonical_block_alpha : forall (rl rt : string -> string),
  (forall a b, rl a = rl b -> a = b) -> (forall a b, rt a = rt b -> a = b) ->
  forall b, where_ok b ->
  (forall k n, In (k, n) (kept_block b) -> rk rl rt k n = n) ->
  canon (alpha_block rl rt b) = canon b.
Proof. exact canon_alpha. Qed.
Print Assumptions C13_canonical_block_alpha.

(* the same for one term under a given numbering: every occurrence of a parameter is
   rewritten, and nothing that is not an occurrence of one (`untouched` = the renaming fixes
   every name the resolver keeps) *)
Theorem C13_resolver_alpha : forall (rl rt : string -> string),
  (forall a b, rl a = rl b -> a = b) -> (forall a b, rt a = rt b -> a = b) ->
  forall ix t, untouched rl rt ix t ->
  ren (map (fun e : pkind * string * nat => (fst (fst e), rk rl rt (fst (fst e)) (snd (fst e)), snd e)) ix)
      (alpha rl rt t) = ren ix t.
Proof. exact ren_alpha. Qed.
Print Assumptions C13_resolver_alpha.

(* ... and up to DECLARATION ORDER: a block whose generics list is permuted (parameters with
   distinct names) receives the same numbering, hence the same canonical trait path, self type,
   where-clause and items; its canonical generics list is the permuted list, renamed alike *)
Theorem C13_declaration_order : forall gps gps', Permutation gps gps' -> NoDup (Param.declared gps) ->
  forall lb lg tr self lw preds items,
  let b := Node lb [Node lg gps; tr; self; Node lw preds; items] in
  let b' := Node lb [Node lg gps'; tr; self; Node lw preds; items] in
  let ix := indexed (index_block b) in
  canon b = Node lb [Node lg (map (ren_gp ix) gps); ren ix tr; ren ix self; ren ix (Node lw preds); ren ix items] /\
  canon b' = Node lb [Node lg (map (ren_gp ix) gps'); ren ix tr; ren ix self; ren ix (Node lw preds); ren ix items].
Proof. exact canon_decl_order. Qed.
Print Assumptions C13_declaration_order.

Example C13_declaration_order_nonvacuous :
  match ex_blocks with
  | Node lb [Node lg [g0; g1]; tr; self; Node lw preds; items] :: _ =>
      NoDup (Param.declared [g0; g1]) /\ g0 <> g1 /\
      indexed (index_block (Node lb [Node lg [g1; g0]; tr; self; Node lw preds; items])) =
      indexed (index_block (Node lb [Node lg [g0; g1]; tr; self; Node lw preds; items]))
  | _ => False
  end.
Proof.
  cbv iota beta delta [ex_blocks]. split; [|split].
  - vm_compute. repeat constructor; cbn; intuition discriminate.
  - discriminate.
  - vm_compute. reflexivity.
Qed.
Print Assumptions C13_declaration_order_nonvacuous.

Definition swap_names (a b s : string) : string :=
  if String.eqb s a then b else if String.eqb s b then a else s.

Lemma swap_names_inj a b x y : swap_names a b x = swap_names a b y -> x = y.
Proof.
  unfold swap_names.
  destruct (String.eqb_spec x a), (String.eqb_spec y a), (String.eqb_spec x b), (String.eqb_spec y b);
    intros; subst; congruence.
Qed.

(* non-vacuity: the first example block with its two parameters swapped (`_ŠČ0` <-> `_ŠČ1`:
   the reserved names in permuted order) is a different block, satisfies the hypotheses, and
   canonicalises to the same block *)
Example C13_canonical_block_alpha_nonvacuous :
  match ex_blocks with
  | b :: _ =>
      let rt := swap_names (canon_name 0) (canon_name 1) in
      let rl := fun s : string => s in
      where_ok b /\
      (forall k n, In (k, n) (kept_block b) -> rk rl rt k n = n) /\
      term_eqb (alpha_block rl rt b) b = false /\
      canon (alpha_block rl rt b) = canon b
  | [] => False
  end.
Proof.
  cbv zeta iota beta delta [ex_blocks].
  split; [reflexivity|]. split.
  - intros k n Hin. vm_compute in Hin.
    repeat (destruct Hin as [Hin|Hin]; [inversion Hin; subst; reflexivity|]). destruct Hin.
  - split; vm_compute; reflexivity.
Qed.
Print Assumptions C13_canonical_block_alpha_nonvacuous.

(* "canonicalising twice changes nothing", the resolver's half, for every block: the resolver
   run on the canonical block with the canonical index list [cix ix] (the parameter numbered i
   is now called `_ŠČi` and keeps number i) changes nothing, provided no name the first pass
   left as written is spelled like one of the block's own canonical names (a user type called
   `_ŠČ0`: the reserved prefix).  The corollary is idempotence itself under the hypothesis that
   the indexer numbers the canonical block as it numbered the original: an equation between
   two computed lists, evaluated on every generated block by `check C13` (DESIGN 0.14). *)
Theorem C13_resolver_idempotent : forall b,
  fresh_block b ->
  resolve_with (cix (indexed (index_block b))) (canon b) = canon b.
Proof. exact resolver_idempotent. Qed.
Print Assumptions C13_resolver_idempotent.

Theorem C13_idempotent_if_numbering_stable : forall b,
  fresh_block b ->
  indexed (index_block (canon b)) = cix (indexed (index_block b)) ->
  canon (canon b) = canon b.
Proof. exact canon_idempotent_if_numbering_stable. Qed.
Print Assumptions C13_idempotent_if_numbering_stable.

(* the same with both hypotheses as booleans: `check C13` evaluates them (extracted) on every
   generated block, so on each of them idempotence of the model's canonicalisation is a theorem,
   and the model's canonical block is compared with the implementation's *)
Theorem C13_idempotent_checked : forall b,
  fresh_blockb b = true -> numbering_stableb b = true -> canon (canon b) = canon b.
Proof. exact canon_idempotent_checked. Qed.
Print Assumptions C13_idempotent_checked.

Definition user_names (s : string) : string :=
  if String.eqb s (canon_name 0) then "T"%string
  else if String.eqb s (canon_name 1) then "U"%string else s.

(* non-vacuity: the first example block written with the user's names `T`, `U` is not
   canonical, satisfies both hypotheses, and its canonical block is a fixed point *)
Example C13_idempotent_nonvacuous :
  match ex_blocks with
  | b :: _ =>
      let ub := alpha_block (fun s : string => s) user_names b in
      fresh_block ub /\
      (indexed (index_block (canon ub)) = cix (indexed (index_block ub))) /\
      (term_eqb (canon ub) ub = false) /\
      (canon (canon ub) = canon ub)
  | [] => False
  end.
Proof.
  cbv zeta iota beta delta [ex_blocks].
  split.
  - intros k n Hin e He. vm_compute in Hin. vm_compute in He.
    repeat (destruct He as [He|He]; [subst e|]); try destruct He;
      repeat (destruct Hin as [Hin|Hin]; [inversion Hin; subst; vm_compute; discriminate|]);
      destruct Hin.
  - split; [|split]; vm_compute; reflexivity.
Qed.
Print Assumptions C13_idempotent_nonvacuous.

(* ===================================================================================== *)
(* C15 -- ?Sized relaxation is exact.  Coverage of unsized queries is C02_exact_coverage    *)
(* (queries are arbitrary ground types); what "applies" means for sizedness:                *)
(* ===================================================================================== *)

(* blocks that did not relax Sized on a parameter never apply to unsized instantiations *)
Theorem C15_unrelaxed_requires_sized : forall W blk q s p v,
  applies W blk q = true -> sup (block_header blk) q = Some s ->
  In p (block_type_params blk) -> relaxed (block_bounds blk) p = false ->
  lookup (ground_subs s) p = Some (VType v) -> unsized_ty v = false.
Proof. exact unrelaxed_requires_sized. Qed.
Print Assumptions C15_unrelaxed_requires_sized.

(* the implementation for an unsized query exists exactly when a member applies to it *)
Theorem C15_unsized_exact : forall (Q V : Type) keyvals (members : list (member Q V)),
  grouping_invariant Q V keyvals members ->
  forall q, main_applies Q V keyvals members q = true <->
            exists m, In m members /\ m_applies Q V m q = true.
Proof. exact exact_coverage. Qed.
Print Assumptions C15_unsized_exact.

(* the generated main impl (GenMain.v, compared with the macro's main impls on every generated
   invocation): its dispatch-key predicates relax `Sized` only on types of the family's unsized
   set, and the duplicate-?Sized pass only removes bounds (never adds or moves one) *)
Theorem C15_main_impl_relaxes_only_unsized : forall idx fb g kp,
  key_preds idx fb g = Some kp ->
  forall l bt bs b, In (Node l (bt :: bs)) kp -> In b bs -> is_maybe b = true ->
    existsb (term_eqb bt) (ab_unsized g) = true.
Proof. exact key_preds_relax_only_unsized. Qed.
Print Assumptions C15_main_impl_relaxes_only_unsized.

Theorem C15_dedup_only_removes : forall preds pr,
  In pr (dedup_maybe preds) -> exists q, In q preds /\ pred_sub pr q.
Proof. exact dedup_only_removes. Qed.
Print Assumptions C15_dedup_only_removes.

(* ===================================================================================== *)
(* C16 -- trait-argument fidelity                                                          *)
(* ===================================================================================== *)

(* a block written for one instantiation serves exactly that instantiation: whenever it
   applies to a query, the query's (trait arguments, self type) is an instance of the block's
   header under the matcher's substitution *)
Theorem C16_serves_only_its_instantiation : forall W blk q,
  applies W blk q = true ->
  exists s, sup (block_header blk) q = Some s /\ equivb (apply s (block_header blk)) q = true.
Proof. exact applies_only_instances. Qed.
Print Assumptions C16_serves_only_its_instantiation.

(* per instantiation, the trait is implemented exactly when a member applies (queries carry
   the trait arguments) *)
Theorem C16_exact_per_instantiation : forall (Q V : Type) keyvals (members : list (member Q V)),
  grouping_invariant Q V keyvals members ->
  forall q, main_applies Q V keyvals members q = true <->
            exists m, In m members /\ m_applies Q V m q = true.
Proof. exact exact_coverage. Qed.
Print Assumptions C16_exact_per_instantiation.

(* the replacement of the main trait's parameters inside the generated main impl (the model
   `zip_params` of `resolve_main_trait_params`, compared with the macro's main impls on every
   program-level case): a type parameter of the trait stands for the argument the block wrote AT
   ITS POSITION, whatever lifetimes, types and consts surround it; likewise a const parameter;
   an omitted parameter stands for its declared default.  Any list of parameters with distinct
   names, any argument list, any starting maps. *)
Theorem C16_type_argument_positional : forall tps args m m' i tp ty la,
  NoDup (map pname tps) -> zip_params tps args m = Some m' ->
  nth_error tps i = Some tp -> nth_error args i = Some (Node la [ty]) ->
  is_kind "GPTypeD" (tlabel tp) = true -> is_kind "GType" la = true ->
  sget (ty_map m') (pname tp) = Some ty.
Proof. intros; eapply zip_type_at; eassumption. Qed.
Print Assumptions C16_type_argument_positional.

Theorem C16_const_argument_positional : forall tps args m m' i tp e la,
  NoDup (map pname tps) -> zip_params tps args m = Some m' ->
  nth_error tps i = Some tp -> nth_error args i = Some (Node la [e]) ->
  is_kind "GPConstD" (tlabel tp) = true -> is_kind "GConst" la = true ->
  sget (ct_map m') (pname tp) = Some e.
Proof. intros; eapply zip_const_at; eassumption. Qed.
Print Assumptions C16_const_argument_positional.

Theorem C16_omitted_default : forall tps args m' tp d rest ty,
  NoDup (map pname tps) ->
  zip_params tps args (default_maps (skipn (List.length args) tps)) = Some m' ->
  In tp (skipn (List.length args) tps) ->
  is_kind "GPTypeD" (tlabel tp) = true -> tkids tp = d :: rest -> opt_kid d = Some ty ->
  sget (ty_map m') (pname tp) = Some ty.
Proof. exact zip_default_type. Qed.
Print Assumptions C16_omitted_default.

(* non-vacuity: trait K<'a, P, const N: usize, Q = u8> instantiated as K<'x, X, 3> *)
Example C16_arguments_nonvacuous :
  let usize := tC0 "usize" in
  let tps := [Node (K "GPLifetime" "a") [];
              Node (K "GPTypeD" "P") [Node (K "ONone" "") []];
              Node (K "GPConstD" "N") [usize; Node (K "ONone" "") []];
              Node (K "GPTypeD" "Q") [osome (tC0 "u8")]] in
  let args := [Node (K "Lifetime" "x") []; Node (K "GType" "") [tC0 "X"];
               Node (K "GConst" "") [Node (K "ELit" "3") []]] in
  NoDup (map pname tps) /\
  match zip_params tps args (default_maps (skipn (List.length args) tps)) with
  | Some m => sget (lt_map m) "a" = Some "x"%string /\ sget (ty_map m) "P" = Some (tC0 "X") /\
              sget (ct_map m) "N" = Some (Node (K "ELit" "3") []) /\ sget (ty_map m) "Q" = Some (tC0 "u8")
  | None => False
  end.
Proof.
  cbv zeta. split.
  - repeat constructor; cbn; intuition discriminate.
  - vm_compute. repeat split; reflexivity.
Qed.
Print Assumptions C16_arguments_nonvacuous.

(* ===================================================================================== *)
(* C17 -- inherent mode fidelity                                                           *)
(* ===================================================================================== *)

(* the items exist for a type exactly when a block applies to it (queries with no trait) *)
Theorem C17_exact_coverage : forall (Q V : Type) keyvals (members : list (member Q V)),
  grouping_invariant Q V keyvals members ->
  forall q, main_applies Q V keyvals members q = true <->
            exists m, In m members /\ m_applies Q V m q = true.
Proof. exact exact_coverage. Qed.
Print Assumptions C17_exact_coverage.

(* the generated inherent impl takes every item's visibility from the first member; once
   validation accepts the family (fix F7) that is the visibility EVERY member wrote *)
Theorem C17_visibility_uniform : forall f others,
  validate_inherent (f :: others) = None ->
  forall o, In o others ->
  Forall (fun fi => exists s, In s (v_items o) /\ ikind_eqb (i_kind s) (i_kind fi) = true /\
                              String.eqb (i_name s) (i_name fi) = true /\ i_vis s = i_vis fi) (v_items f).
Proof. exact inherent_visibility_uniform. Qed.
Print Assumptions C17_visibility_uniform.

(* the items of the generated inherent impl are the first member's items with their labels
   (visibility and name) exactly as written, each given the helper trait's item of that name *)
Theorem C17_inherent_items_forward : forall tdef titems idx fb g items,
  (match fb with Node _ [_; tr; _; _; _] => opt_kid tr = None | _ => False end) ->
  gen_main_items tdef titems idx fb g = Some (Node (K "Items" "") items) ->
  exists hb its, helper_bound idx fb (abg_idents g) = Some hb /\
    (match fb with Node _ [_; _; _; _; Node _ its'] => its' = its | _ => False end) /\
    Forall2 (fun it0 it =>
               tlabel it = tlabel it0 /\
               exists v, item_value it = Some v /\ is_forwarder hb (item_name (ld (tlabel it0))) v)
            its items.
Proof. exact main_items_inherent_mode. Qed.
Print Assumptions C17_inherent_items_forward.

(* ===================================================================================== *)
(* C14 -- malformed invocations are rejected with the specific diagnostic                  *)
(* ===================================================================================== *)

Theorem C14_other_trait : forall t pre i post n,
  Forall (header_ok t) pre -> v_trait i = Some n -> n <> t_name t ->
  validate_trait t (pre ++ i :: post) = Some DoesntMatchTrait.
Proof. exact other_trait_diagnosed. Qed.
Print Assumptions C14_other_trait.

Theorem C14_inherent_in_trait_mode : forall t pre i post,
  Forall (header_ok t) pre -> v_trait i = None ->
  validate_trait t (pre ++ i :: post) = Some ExpectedTraitImpl.
Proof. exact inherent_in_trait_mode_diagnosed. Qed.
Print Assumptions C14_inherent_in_trait_mode.

Theorem C14_unsafety_mismatch : forall t pre i post,
  Forall (header_ok t) pre -> v_trait i = Some (t_name t) -> v_unsafe i <> t_unsafe t ->
  validate_trait t (pre ++ i :: post) = Some DoesntMatchTrait.
Proof. exact unsafety_mismatch_diagnosed. Qed.
Print Assumptions C14_unsafety_mismatch.

Theorem C14_trait_in_inherent_mode : forall pre i post n,
  Forall (fun a => v_trait a = None) pre -> v_trait i = Some n ->
  validate_inherent (pre ++ i :: post) = Some ExpectedInherent.
Proof. exact trait_in_inherent_mode_diagnosed. Qed.
Print Assumptions C14_trait_in_inherent_mode.

(* item level: acceptance in trait mode means every block is an impl of the trait with the
   trait's unsafety that defines only items of the trait and every required one ... *)
Theorem C14_accepted_wellformed : forall t impls,
  validate_trait t impls = None ->
  forall i, In i impls ->
    header_ok t i /\
    (forall s, In s (v_items i) -> exists ti, In ti (t_items t) /\ same_item s ti) /\
    (forall ti, In ti (t_items t) -> i_default ti = false -> exists s, In s (v_items i) /\ same_item s ti).
Proof. exact trait_accepted_wellformed. Qed.
Print Assumptions C14_accepted_wellformed.

(* ... so a stray item and a missing required item are diagnosed wherever the block stands *)
Theorem C14_stray_item_rejected : forall t impls i s,
  In i impls -> In s (v_items i) -> (forall ti, In ti (t_items t) -> ~ same_item s ti) ->
  validate_trait t impls <> None.
Proof. exact stray_item_rejected. Qed.
Print Assumptions C14_stray_item_rejected.

Theorem C14_missing_item_rejected : forall t impls i ti,
  In i impls -> In ti (t_items t) -> i_default ti = false ->
  (forall s, In s (v_items i) -> ~ same_item s ti) ->
  validate_trait t impls <> None.
Proof. exact missing_item_rejected. Qed.
Print Assumptions C14_missing_item_rejected.

Example C14_item_nonvacuous :
  let mk k n d := {| i_kind := k; i_name := n; i_vis := ""%string; i_ngen := 0; i_default := d |} in
  let t := {| t_name := "K"%string; t_unsafe := false; t_items := [mk IKConst "NAME"%string false; mk IKFn "f"%string true] |} in
  let ok := {| v_trait := Some "K"%string; v_unsafe := false; v_items := [mk IKConst "NAME"%string false] |} in
  let stray := {| v_trait := Some "K"%string; v_unsafe := false; v_items := [mk IKConst "NAME"%string false; mk IKFn "g"%string false] |} in
  validate_trait t [ok; ok] = None /\ validate_trait t [ok; stray] = Some NotInTrait
  /\ validate_trait t [ok; {| v_trait := Some "K"%string; v_unsafe := false; v_items := [] |}] = Some MissingInImpl.
Proof. vm_compute. repeat split. Qed.
Print Assumptions C14_item_nonvacuous.


(* ===================================================================================== *)
(* C07 -- deterministic expansion: the only per-process input of the code is the hasher of  *)
(* its IndexMap/IndexSet; a table over a key type whose equal keys hash equally (C12 for    *)
(* TraitBound; derived for syn nodes; Tokenized) is hasher-independent                      *)
(* ===================================================================================== *)

Theorem C07_hasher_irrelevant : forall (K V H : Type) (keq : K -> K -> bool) (heq : H -> H -> bool),
  (forall h, heq h h = true) ->
  forall hf1 hf2, consistent K H keq heq hf1 -> consistent K H keq heq hf2 ->
  forall (m : imap K V) k v k2,
    insert_h K V H keq heq hf1 m k v = insert_h K V H keq heq hf2 m k v /\
    get_h K V H keq heq hf1 m k2 = get_h K V H keq heq hf2 m k2.
Proof. intros K V H keq heq Hr. exact (two_hashers K V H keq heq). Qed.
Print Assumptions C07_hasher_irrelevant.

(* ===================================================================================== *)
(* C08 -- scope hygiene and trait fidelity (model of the final assembly; the check compares *)
(* it token for token with `-Zunpretty=expanded` of the real entry point)                   *)
(* ===================================================================================== *)

Theorem C08_trait_then_one_const : forall t h i m,
  firstn (List.length t) (assemble t h i m) = t /\
  skipn (List.length t) (assemble t h i m) = anon_const h i m.
Proof. exact assemble_trait_prefix. Qed.
Print Assumptions C08_trait_then_one_const.

Theorem C08_inherent_only_const : forall h i m, assemble [] h i m = anon_const h i m.
Proof. exact assemble_inherent. Qed.
Print Assumptions C08_inherent_only_const.

(* the helper impls refer to the helper trait by one bare identifier `_<Name><idx>`, whatever
   path the block wrote for the main trait or the type (fix F33), so the reference resolves to the
   helper trait inside the generated const block and to nothing outside it *)
Theorem C08_helper_named_by_identifier : forall idx row lp segs init ls args,
  split_last segs = Some (init, Node ls [args]) ->
  exists args', helper_path idx row (Node lp segs) =
                Node (K "Path" "") [Node (K "Seg" (helper_ident (ld ls) idx)) [args']].
Proof. exact helper_path_bare. Qed.
Print Assumptions C08_helper_named_by_identifier.

Theorem C08_no_helper_leaks : forall user (invs : list (option string * list string)),
  declared (user ++ flat_map (fun inv => expansion_items (fst inv) (snd inv)) invs) =
  declared user ++ flat_map (fun inv => match fst inv with Some n => [n] | None => [] end) invs.
Proof. exact no_helper_leaks. Qed.
Print Assumptions C08_no_helper_leaks.

(* ===================================================================================== *)
(* C03 -- acceptance.  What is proved: the macro's overlap filter (rows compared position-    *)
(* wise, lib.rs `is_overlapping`, modelled by Group.rows_distinct) never rejects a family     *)
(* whose rows pairwise hold non-unifiable payloads at some shared key.  The completeness of  *)
(* the family SEARCH and acceptance by rustc are decided differentially against a            *)
(* hand-written reference encoding (see DESIGN: C03_accept_nested stays unproved).           *)
(* ===================================================================================== *)

Theorem C03_distinguishable_rows_accepted_partial : forall rows,
  ForallOrdPairs distinguishable rows -> rows_distinct rows = true.
Proof. exact distinguishable_rows_accepted. Qed.
Print Assumptions C03_distinguishable_rows_accepted_partial.

(* acceptance of the basic documented shape, for the search FUNCTION (Search.v, which the check
   compares with the macro's grouping on every invocation): n blocks with one header, each
   bounding the same type by the same trait (bindings spelled differently) and binding one
   associated type to pairwise non-unifiable payloads, form ONE family with all n members and
   the rows [p_0] .. [p_(n-1)] -- for every n, header and payloads.  The proof composes
   completeness of the matcher (identity substitution of the header), C10's identity law and
   the search model. *)
Theorem C03_flat_family_accepted : forall (Hd B : term) (a : string) (n : nat) (blk T p : nat -> term),
  0 < n ->
  NoDup (map blk (seq 0 n)) ->
  (forall i, i < n -> gid_of (blk i) = Hd) ->
  cwf [] Hd = true ->
  (forall i, i < n -> find_bounds (blk i) = {| ib_bounds := [((B, T i), [(a, p i)])]; ib_unsized := [] |}) ->
  (forall i j, i < n -> j < n -> tb_eqb (T i) (T j) = true) ->
  (forall i j, i < n -> j < n -> i <> j -> sup (p i) (p j) = None) ->
  forall fuel, n < fuel ->
  exists g, search fuel (map blk (seq 0 n)) = Some [(Hd, (g, seq 0 n))] /\
            abg_payloads g = map (fun i => [Some (p i)]) (seq 0 n).
Proof. exact flat_family_search. Qed.
Print Assumptions C03_flat_family_accepted.

(* the hypotheses are met by two blocks of the example invocation
   (impl<T: D<G = GA>, U> K for (T, U)  and  impl<A: D<G = GB>, B> K for (A, B)) *)
Example C03_flat_nonvacuous :
  let b0 := nth 0 ex_blocks (Node (K "" "") []) in
  let b2 := nth 2 ex_blocks (Node (K "" "") []) in
  b0 <> b2 /\ gid_of b0 = gid_of b2 /\ cwf [] (gid_of b0) = true /\
  match ib_bounds (find_bounds b0), ib_bounds (find_bounds b2), ib_unsized (find_bounds b0), ib_unsized (find_bounds b2) with
  | [((B0, T0), [(a0, p0)])], [((B2, T2), [(a2, p2)])], [], [] =>
      term_eqb B0 B2 && String.eqb a0 a2 && tb_eqb T0 T2 && tb_eqb T2 T0 &&
      negb (is_some (sup p0 p2)) && negb (is_some (sup p2 p0))
  | _, _, _, _ => false
  end = true.
Proof. vm_compute. repeat split. discriminate. Qed.
Print Assumptions C03_flat_nonvacuous.

(* both flat-family theorems on concrete block terms
     impl<X1, .., Xk> Tr for Self where B: T_i        (T_i = Dispatch<.., A = p_i>)
   (what the abstract statements assume about a block is computed from its term): the search
   puts the n blocks into one family with rows [p_i], and -- with the key value and row test of
   C02_flat_grouping_invariant -- the trait is implemented exactly where some block applies *)
Theorem C03_flat_blocks_one_family : forall tr self B a n names T p items,
  let blk := fun i => flat_block (names i) tr self B (T i) (items i) in
  let Hd := Node (K "GroupId" "") [tr; self] in
  0 < n -> NoDup (map blk (seq 0 n)) -> cwf [] Hd = true ->
  (forall i, i < n -> path_bindings (T i) = [(a, p i)]) ->
  (forall i j, i < n -> j < n -> tb_eqb (T i) (T j) = true) ->
  (forall i j, i < n -> j < n -> i <> j -> sup (p i) (p j) = None) ->
  forall fuel, n < fuel ->
  exists g, search fuel (map blk (seq 0 n)) = Some [(Hd, (g, seq 0 n))] /\
            abg_payloads g = map (fun i => [Some (p i)]) (seq 0 n).
Proof. intros. eapply flat_blocks_one_family; eauto. Qed.
Print Assumptions C03_flat_blocks_one_family.

Theorem C02_flat_blocks_exact_coverage : forall W tr self B TR a n names T p items,
  let blk := fun i => flat_block (names i) tr self B (T i) (items i) in
  let Hd := Node (K "GroupId" "") [tr; self] in
  (forall i, i < n -> path_bindings (T i) = [(a, p i)]) ->
  (forall i, i < n -> trait_ref (T i) = TR) ->
  (forall rho, is_sized_path (apply rho TR) = false) ->
  forall q, main_applies term term (keyvals W Hd B TR a) (map (member_of W Hd blk p) (seq 0 n)) q = true <->
            exists i, i < n /\ applies W (blk i) q = true.
Proof. intros. eapply flat_blocks_exact_coverage; eauto. Qed.
Print Assumptions C02_flat_blocks_exact_coverage.

(* a concrete instance: impl<T> K for T where T: D<G = GA>  and  ... D<G = GB> *)
Example C03_flat_blocks_nonvacuous :
  let tr := osome (path1 "K" anone) in
  let T := fun i => path1 "D" (aangle [gassoc "G" (tC0 (match i with O => "GA" | _ => "GB" end))]) in
  let p := fun i => tC0 (match i with O => "GA" | _ => "GB" end) in
  let blk := fun i => flat_block [pid "0"] tr (tP "0") (tP "0") (T i) (Node (K "Items" "") []) in
  blk 0 <> blk 1 /\ cwf [] (Node (K "GroupId" "") [tr; tP "0"]) = true /\
  path_bindings (T 0) = [("G"%string, p 0)] /\ path_bindings (T 1) = [("G"%string, p 1)] /\
  tb_eqb (T 0) (T 1) = true /\ tb_eqb (T 1) (T 0) = true /\
  sup (p 0) (p 1) = None /\ sup (p 1) (p 0) = None /\
  trait_ref (T 0) = trait_ref (T 1) /\
  option_map (map (fun e => snd (snd e))) (search 9 [blk 0; blk 1]) = Some [[0; 1]].
Proof. vm_compute. repeat split; try reflexivity. discriminate. Qed.
Print Assumptions C03_flat_blocks_nonvacuous.

(* acceptance of a NESTED member by the search function: n blocks under a general header H0
   plus one block under a more specific header H1 (H0 generalises H1, not conversely) whose
   bound re-expresses to the family's key (C10) and whose payload is unifiable with none of the
   others: ONE family under H0 with n + 1 members and rows [p_0] .. [p_(n-1)], [p'] -- the
   search explores both groupings and prefers the joint one *)
Theorem C03_nested_member_accepted : forall H0 H1 B B1 a n blk T p blk1 T1 T1' p1 sigma,
  0 < n ->
  NoDup (map blk (seq 0 n) ++ [blk1]) ->
  (forall i, i < n -> gid_of (blk i) = H0) -> gid_of blk1 = H1 ->
  (forall i, i < n -> find_bounds (blk i) = {| ib_bounds := [((B, T i), [(a, p i)])]; ib_unsized := [] |}) ->
  find_bounds blk1 = {| ib_bounds := [((B1, T1), [(a, p1)])]; ib_unsized := [] |} ->
  (forall i j, i < n -> j < n -> tb_eqb (T i) (T j) = true) ->
  (forall i j, i < n -> j < n -> i <> j -> sup (p i) (p j) = None) ->
  term_eqb H0 H1 = false -> sup H0 H1 = Some sigma -> sup H1 H0 = None -> cwf [] H0 = true ->
  stable_key sigma B1 T1 = true -> subst_key sigma B1 T1 = [(B, T1')] ->
  tb_eqb (T (n - 1)) T1' = true -> tb_eqb T1 T1 = true ->
  (forall i, i < n -> sup (p i) p1 = None /\ sup p1 (p i) = None) ->
  forall fuel, n + 2 < fuel ->
  exists g, search fuel (map blk (seq 0 n) ++ [blk1]) = Some [(H0, (g, seq 0 n ++ [n]))] /\
            abg_payloads g = map (fun x => [Some x]) (map p (seq 0 n) ++ [p1]).
Proof. exact nested_member_search. Qed.
Print Assumptions C03_nested_member_accepted.

(* a concrete instance:  K for T (T: D<G = GA>), K for T (T: D<G = GB>), K for Vec<T> (Vec<T>: D<G = GC>) *)
Example C03_nested_nonvacuous :
  let tr := osome (path1 "K" anone) in
  let Tg := fun g => path1 "D" (aangle [gassoc "G" (tC0 g)]) in
  let vec := tC "Vec" [gty (tP "0")] in
  let b := fun g => flat_block [pid "0"] tr (tP "0") (tP "0") (Tg g) (Node (K "Items" "") []) in
  let b1 := flat_block [pid "0"] tr vec vec (Tg "GC"%string) (Node (K "Items" "") []) in
  let H0 := Node (K "GroupId" "") [tr; tP "0"] in
  let H1 := Node (K "GroupId" "") [tr; vec] in
  term_eqb H0 H1 = false /\ sup H1 H0 = None /\ cwf [] H0 = true /\
  match sup H0 H1 with
  | Some sigma => stable_key sigma vec (Tg "GC"%string) = true /\ subst_key sigma vec (Tg "GC"%string) = [(tP "0", Tg "GC"%string)]
  | None => False
  end /\
  tb_eqb (Tg "GB"%string) (Tg "GC"%string) = true /\ sup (tC0 "GA"%string) (tC0 "GC"%string) = None /\ sup (tC0 "GC"%string) (tC0 "GB"%string) = None /\
  option_map (map (fun e => snd (snd e))) (search 9 [b "GA"%string; b "GB"%string; b1]) = Some [[0; 1; 2]].
Proof. vm_compute. repeat split; reflexivity. Qed.
Print Assumptions C03_nested_nonvacuous.

(* ===================================================================================== *)
(* C06 -- independence from parameter names (canonicalisation commutes with any consistent   *)
(* renaming of a block's lifetimes and type/const parameters); declaration order and bound   *)
(* placement are decided by the metamorphic check (every rewriting compiled and compared)    *)
(* ===================================================================================== *)

(* for every block and every injective renaming of lifetimes (rl) and of type/const names
   (rt): indexing the renamed block yields the renamed state -- same numbers, same order *)
Theorem C06_numbering_alpha : forall (rl rt : string -> string),
  (forall a b, rl a = rl b -> a = b) -> (forall a b, rt a = rt b -> a = b) ->
  forall b, index_block (alpha_block rl rt b) = st_map rl rt (index_block b).
Proof. exact index_block_alpha. Qed.
Print Assumptions C06_numbering_alpha.

(* hence the parameter that renames n receives n's canonical name `_ŠČk` *)
(* the order in which a block declares its parameters is immaterial to the numbering *)
Theorem C06_declaration_order : forall gps gps', Permutation gps gps' -> NoDup (Param.declared gps) ->
  forall lb lg tr self lw preds items,
  indexed (index_block (Node lb [Node lg gps'; tr; self; Node lw preds; items])) =
  indexed (index_block (Node lb [Node lg gps; tr; self; Node lw preds; items])).
Proof. exact index_block_decl_order. Qed.
Print Assumptions C06_declaration_order.

Theorem C06_canonical_names_alpha : forall (rl rt : string -> string),
  (forall a b, rl a = rl b -> a = b) -> (forall a b, rt a = rt b -> a = b) ->
  forall b k n,
  new_name (indexed (index_block (alpha_block rl rt b))) k (rk rl rt k n) =
  new_name (indexed (index_block b)) k n.
Proof. exact canonical_names_alpha. Qed.
Print Assumptions C06_canonical_names_alpha.
