(* Properties.v -- the pinned property theorems and nothing else.  Each is closed by
   `exact <lemma>` and followed by Print Assumptions.  (Filled in as proofs land.) *)
From Coq Require Import List String Bool.
Import ListNotations.
From DI Require Import Syntax Subs Superset Substitute Spec.
