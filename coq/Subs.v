(* Subs.v -- `Substitutions` (superset.rs:37-98): an insertion-ordered map from parameter
   identifiers to `SubstitutionValue`s.  No proofs here. *)
From Coq Require Import List String Bool.
Import ListNotations.
From DI Require Import Syntax.

Inductive value := VType (t : term) | VExpr (t : term) | VIdentity.

Definition value_eqb (a b : value) : bool :=
  match a, b with
  | VType x, VType y => term_eqb x y
  | VExpr x, VExpr y => term_eqb x y
  | VIdentity, VIdentity => true
  | _, _ => false
  end.

Definition subs := list (string * value).

Fixpoint lookup (s : subs) (p : string) : option value :=
  match s with
  | [] => None
  | (q, v) :: s' => if String.eqb q p then Some v else lookup s' p
  end.

Definition subs_ty (p : string) (t : term) : subs := [(p, VType t)].
Definition subs_ex (p : string) (t : term) : subs := [(p, VExpr t)].
Definition subs_identity (p : string) : subs := [(p, VIdentity)].

(* `merge` (superset.rs:77-93): entries of [other] are inserted one by one; an occupied
   entry must hold an equal value, a vacant one is appended (IndexMap keeps order). *)
Fixpoint merge (s other : subs) : option subs :=
  match other with
  | [] => Some s
  | (p, v) :: rest =>
      match lookup s p with
      | Some w => if value_eqb v w then merge s rest else None
      | None => merge (s ++ [(p, v)]) rest
      end
  end.

Definition is_eq (s : subs) : bool :=
  forallb (fun pv => value_eqb (snd pv) VIdentity) s.

Definition omerge (a b : option subs) : option subs :=
  match a, b with
  | Some x, Some y => merge x y
  | _, _ => None
  end.
