(* Extract.v -- extraction of the executable model to OCaml.  Only ExtrOcamlBasic's
   directives are used (bool, option, unit, list, prod, sumbool, sumor -> OCaml natives);
   string/ascii/nat stay extracted inductives.  No Extract Constant. *)
Require Extraction.
Require Import ExtrOcamlBasic.
From DI.proofs Require Import ParamIdem.
From DI Require Import Search Gen GenMain Syntax Tokens Bounds Param Subs Superset Substitute Spec RustSem Group Validate.
Extraction Language OCaml.
Extraction "model.ml" term_eqb sup merge is_eq lookup subst_key reverse_map stable_key wf_subsb apply norm params equivb plain has_comm_binary cwf value_of tokens tok_ok tb_eqb tb_hash_input tb_tokens key_eqb applicable trait_ref applies parse_groups gi_check gi_diagnose search_render gen_render gen_main_render gen_main_items_render gen_helper_items_render gen_helper_traits_render canon ren ren_gp gp_decl index_block validate_trait validate_inherent generated_vis fresh_blockb numbering_stableb.
