(* Search.v -- the family search of lib.rs as a function (after fixes F1, F25, F26):
   `TraitBoundsVisitor::find`, `AssocBoundsGroup` (new / intersection / prune_non_assoc /
   is_overlapping / idents / payloads), `make_sets`, `find_impl_group_candidates_rec`,
   `unlock_subset_impl_groups` and the driver of `impl Parse for ImplGroups` (roots in input
   order, the groups chosen for earlier roots carried over, "the last of the smallest"
   candidate).  Input: the canonical blocks (hook terms `Impl [..]`), output: the grouping
   in the shape the hook reports it, compared for equality on every generated invocation.
   IndexMap = association list in insertion order with the map's own key equality.
   No proofs here. *)
From Coq Require Import List String Ascii Bool Arith.
Import ListNotations.
From DI Require Import Syntax Tokens Bounds Subs Superset Substitute Spec RustSem Group.

(* ---- insertion-ordered maps ---- *)
Section IMapOps.
  Context {Kt Vt : Type} (eqk : Kt -> Kt -> bool).

  Fixpoint im_get (m : list (Kt * Vt)) (k : Kt) : option Vt :=
    match m with
    | [] => None
    | (k', v) :: r => if eqk k' k then Some v else im_get r k
    end.

  (* insert: an existing key keeps its position and its stored key, the value is replaced *)
  Fixpoint im_insert (m : list (Kt * Vt)) (k : Kt) (v : Vt) : list (Kt * Vt) :=
    match m with
    | [] => [(k, v)]
    | (k', v') :: r => if eqk k' k then (k', v) :: r else (k', v') :: im_insert r k v
    end.

  (* entry(k).or_insert(d), then modify *)
  Fixpoint im_update (m : list (Kt * Vt)) (k : Kt) (d : Vt) (f : Vt -> Vt) : list (Kt * Vt) :=
    match m with
    | [] => [(k, f d)]
    | (k', v') :: r => if eqk k' k then (k', f v') :: r else (k', v') :: im_update r k d f
    end.

  Definition im_has (m : list (Kt * Vt)) (k : Kt) : bool :=
    match im_get m k with Some _ => true | None => false end.
End IMapOps.

Definition set_insert (s : list term) (t : term) : list term :=
  if existsb (term_eqb t) s then s else s ++ [t].

(* ---- ItemImplBounds: TraitBoundsVisitor::find ---- *)
Definition tbid := (term * term)%type.                 (* (bounded type, trait path with bindings) *)
Definition arow := list (string * term).                (* IndexMap<Ident, payload> *)

Record ibounds := { ib_bounds : list (tbid * arow); ib_unsized : list term }.

(* stable sort of the generic parameters by identifier (byte order of the spelling) *)
Fixpoint insert_gp (gp : term) (sorted : list term) : list term :=
  match sorted with
  | [] => [gp]
  | x :: r => if String.leb (ld (tlabel x)) (ld (tlabel gp)) then x :: insert_gp gp r else gp :: x :: r
  end.
Definition sort_gps (gps : list term) : list term := fold_left (fun acc gp => insert_gp gp acc) gps [].

Definition visit_bounds (bounded : term) (bs : list term) (acc : ibounds) : ibounds :=
  fold_left (fun acc b =>
    match b with
    | Node l [_; p] =>
        if is_kind "BTrait" l then
          {| ib_bounds := ib_bounds acc ++ [((bounded, p), path_bindings p)];
             ib_unsized := if String.eqb (ld l) "" then ib_unsized acc else set_insert (ib_unsized acc) bounded |}
        else acc
    | _ => acc
    end) bs acc.

Definition find_bounds (blk : term) : ibounds :=
  match blk with
  | Node _ [Node _ gps; _; _; Node _ preds; _] =>
      let a1 := fold_left (fun acc gp =>
                  match gp with
                  | Node l bs => if is_kind "GPType" l then visit_bounds (mk_ty_param (ld l)) bs acc else acc
                  end) (sort_gps gps) {| ib_bounds := []; ib_unsized := [] |} in
      fold_left (fun acc pr =>
                  match pr with
                  | Node l (bt :: bs) => if is_kind "PredType" l then visit_bounds bt bs acc else acc
                  | _ => acc
                  end) preds a1
  | _ => {| ib_bounds := []; ib_unsized := [] |}
  end.

(* ---- AssocBoundsGroup ---- *)
Record abg := { ab_bounds : list (tbid * list arow); ab_unsized : list term }.

Definition row_extend (r : arow) (more : arow) : arow :=
  fold_left (fun m av => im_insert String.eqb m (fst av) (snd av)) more r.

Definition abg_new (ib : ibounds) : abg :=
  {| ab_bounds := fold_left (fun acc e =>
                    im_update key_eqb acc (fst e) [[]]
                      (fun rows => match rows with
                                   | r0 :: rest => row_extend r0 (snd e) :: rest
                                   | [] => [row_extend [] (snd e)]
                                   end)) (ib_bounds ib) [];
     ab_unsized := ib_unsized ib |}.

Definition abg_prune (g : abg) : abg :=
  {| ab_bounds := filter (fun e => existsb (fun r => match r with [] => false | _ => true end) (snd e)) (ab_bounds g);
     ab_unsized := ab_unsized g |}.

Definition abg_is_empty (g : abg) : bool := match ab_bounds g with [] => true | _ => false end.

Definition str_set_insert (s : list string) (x : string) : list string :=
  if existsb (String.eqb x) s then s else s ++ [x].

Definition abg_idents (g : abg) : list (tbid * string) :=
  flat_map (fun e =>
    map (fun a => (fst e, a))
        (fold_left (fun acc r => fold_left (fun acc av => str_set_insert acc (fst av)) r acc) (snd e) []))
    (ab_bounds g).

Definition abg_nrows (g : abg) : nat :=
  match ab_bounds g with
  | [] => 0
  | e :: r => fold_left (fun n e' => Nat.min n (List.length (snd e'))) r (List.length (snd e))
  end.

Definition abg_payloads (g : abg) : list (list (option term)) :=
  let ids := abg_idents g in
  map (fun i =>
         map (fun id => match im_get key_eqb (ab_bounds g) (fst id) with
                        | Some rows => match nth_error rows i with
                                       | Some r => im_get String.eqb r (snd id)
                                       | None => None
                                       end
                        | None => None
                        end) ids)
      (seq 0 (abg_nrows g)).

(* is_overlapping: some ordered pair of distinct rows where the first generalises the second *)
Definition abg_is_overlapping (g : abg) : bool :=
  let rows := abg_payloads g in
  existsb (fun ir =>
    existsb (fun jr => negb (Nat.eqb (fst ir) (fst jr)) && row_generalises (snd ir) (snd jr))
            (combine (seq 0 (List.length rows)) rows))
          (combine (seq 0 (List.length rows)) rows).

Definition sized_path : term := mk_path_ident "Sized".

Definition abg_intersection (g : abg) (other : ibounds) (s : subs) : list abg :=
  let unsized :=
    fold_left (fun acc u =>
                 (* fix F28: a relaxed parameter the group cannot name is not translated *)
                 if stable_key s u sized_path
                 then fold_left (fun acc k => set_insert acc (fst k)) (subst_key s u sized_path) acc
                 else acc)
              (ib_unsized other) (ab_unsized g) in
  let other' : list (tbid * arow) :=
    fold_left (fun acc e => im_update key_eqb acc (fst e) [] (fun r => row_extend r (snd e))) (ib_bounds other) [] in
  let per_bound : list (list (option (tbid * list arow))) :=
    map (fun e =>
           let otb := fst e in
           if negb (stable_key s (fst otb) (snd otb)) then [None]
           else map (fun stb => match im_get key_eqb (ab_bounds g) stb with
                                | Some rows => Some (stb, rows ++ [snd e])
                                | None => None
                                end) (subst_key s (fst otb) (snd otb))) other' in
  map (fun combo =>
         {| ab_bounds := fold_left (fun m o => match o with
                                              | Some kv => im_insert key_eqb m (fst kv) (snd kv)
                                              | None => m
                                              end) combo [];
            ab_unsized := unsized |})
      (cprod per_bound).

(* ---- the header order ---- *)
Definition gid_of (blk : term) : term := block_header blk.

Record sets := { supersets : list (term * nat); subsets : list (term * list (term * subs)) }.

Definition make_sets (gids : list term) : sets :=
  fold_left (fun st p =>
    let g1 := fst p in let g2 := snd p in
    if term_eqb g1 g2 then st
    else match sup g1 g2 with
         | Some s =>
             {| supersets := im_update term_eqb (supersets st) g2 0 S;
                subsets := im_update term_eqb (subsets st) g1 [] (fun m => im_insert term_eqb m g2 s) |}
         | None => st
         end)
    (flat_map (fun g1 => map (fun g2 => (g1, g2)) gids) gids)
    {| supersets := map (fun g => (g, 0)) gids; subsets := map (fun g => (g, [])) gids |}.

(* ---- the search ---- *)
Definition gmap := list (term * (abg * list nat)).       (* group id -> (bounds, member block indices) *)
Definition items := list (term * list (nat * ibounds)).  (* group id -> its blocks, input order *)

Definition dec_count (sp : list (term * nat)) (g : term) : list (term * nat) :=
  im_update term_eqb sp g 0 Nat.pred.

Section Rec.
  Variable sub : list (term * list (term * subs)).
  Variable its : items.

  Definition subsets_of (g : term) : list (term * subs) :=
    match im_get term_eqb sub g with Some m => m | None => [] end.
  Definition blocks_of (g : term) : list (nat * ibounds) :=
    match im_get term_eqb its g with Some m => m | None => [] end.

  Fixpoint rec (fuel : nat) (gid : term) (impls : list (nat * ibounds))
           (sp : list (term * nat)) (groups : gmap) {struct fuel} : list gmap * list (term * nat) :=
    match fuel with
    | O => ([], sp)
    | S fuel' =>
      match impls with
      | curr :: other =>
          let cb := snd curr in
          let try (st : list gmap * list (term * nat)) (groups' : gmap) :=
            let '(res, sp') := rec fuel' gid other sp groups' in
            match res with
            | [] => st
            | _ => (fst st ++ res, sp')
            end in
          let st1 :=
            fold_left (fun st gk =>
              let g_id := fst gk in
              let g := snd gk in
              let subs_opt :=
                match im_get term_eqb (subsets_of g_id) gid with
                | Some s => Some s
                | None => if term_eqb g_id gid then sup g_id gid else None
                end in
              match subs_opt with
              | None => st
              | Some s =>
                  fold_left (fun st inter =>
                               try st (im_insert term_eqb groups g_id (inter, snd g ++ [fst curr])))
                            (abg_intersection (fst g) cb s) st
              end) groups ([], sp) in
          let st2 :=
            if im_has term_eqb groups gid then st1
            else try st1 (groups ++ [(gid, (abg_new cb, [fst curr]))]) in
          match fst st2 with
          | [] => ([], sp)
          | _ => st2
          end
      | [] =>
          (* unlock_subset_impl_groups *)
          fold_left (fun st sg =>
            let sgid := fst sg in
            let sp1 := dec_count (snd st) sgid in
            match im_get term_eqb sp1 sgid with
            | Some O =>
                fold_left (fun st' gm =>
                             let '(res, sp') := rec fuel' sgid (blocks_of sgid) sp1 gm in
                             (fst st' ++ res, sp'))
                          (fst st) ([], sp1)
            | _ => (fst st, sp1)
            end) (subsets_of gid) ([groups], sp)
      end
    end.
End Rec.

Definition candidate_ok (gm : gmap) : option gmap :=
  fold_left (fun acc e =>
    match acc with
    | None => None
    | Some done =>
        let g := abg_prune (fst (snd e)) in
        if abg_is_empty g then None
        else if abg_is_overlapping g then None
        else Some (done ++ [(fst e, (g, snd (snd e)))])
    end) gm (Some []).

Definition choose (cands : list gmap) : option gmap :=
  match cands with
  | [] => None
  | c :: r => Some (fold_left (fun acc n => if Nat.leb (List.length n) (List.length acc) then n else acc) r c)
  end.

(* distinct canonical blocks with the index of their first occurrence, bucketed by header *)
Definition bucket (blocks : list term) : items :=
  fst (fold_left (fun st blk =>
         let '(its, i) := st in
         let dup := existsb (term_eqb blk) (firstn i blocks) in
         (if dup then its
          else im_update term_eqb its (gid_of blk) [] (fun m => m ++ [(i, find_bounds blk)]), S i))
       blocks ([], 0)).

Definition search (fuel : nat) (blocks : list term) : option gmap :=
  let its := bucket blocks in
  let gids := map fst its in
  let st := make_sets gids in
  let roots := map fst (filter (fun e => Nat.eqb (snd e) 0) (supersets st)) in
  fst (fold_left (fun acc root =>
         match acc with
         | (None, sp) => (None, sp)
         | (Some prev, sp) =>
             let '(cands, sp') := rec (subsets st) its fuel root
                                      (match im_get term_eqb its root with Some m => m | None => [] end) sp prev in
             (choose (flat_map (fun c => match candidate_ok c with Some c' => [c'] | None => [] end) cands), sp')
         end) roots (Some [], supersets st)).

(* ---- the hook's rendering of a grouping ---- *)
Fixpoint string_of_nat_acc (fuel n : nat) (acc : string) : string :=
  match fuel with
  | O => acc
  | S f => let d := String (ascii_of_nat (48 + n mod 10)) acc in
           if Nat.ltb n 10 then d else string_of_nat_acc f (n / 10) d
  end.
Definition show_nat (n : nat) : string := string_of_nat_acc (S n) n EmptyString.

Definition render (gm : gmap) : term :=
  Node (K "Groups" "")
    (map (fun e =>
       let g := fst (snd e) in
       Node (K "Group" "")
         [fst e;
          Node (K "Members" "") (map (fun i => Node (K "Member" (show_nat i)) []) (snd (snd e)));
          Node (K "Keys" "") (map (fun id => Node (K "Key" (snd id)) [fst (fst id); snd (fst id)]) (abg_idents g));
          Node (K "Rows" "") (map (fun row => Node (K "Row" "")
                                   (map (fun c => match c with
                                                  | Some x => Node (K "OSome" "") [x]
                                                  | None => Node (K "ONone" "") []
                                                  end) row)) (abg_payloads g));
          Node (K "Unsized" "") (ab_unsized g)]) gm).

Definition search_render (blocks : list term) : option term :=
  option_map render (search (4 * List.length blocks + 8) blocks).
