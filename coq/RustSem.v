(* RustSem.v -- the small part of rustc's trait resolution the program-level properties talk
   about, over ground worlds: "block b applies to query q in world W".  This is a model of
   rustc (Assumption R of DESIGN section 6), not of /repo; it is validated on every run by
   compiling a reference encoding with the real rustc.  No proofs here. *)
From Coq Require Import List String Ascii Bool Arith.
Import ListNotations.
From DI Require Import Syntax Tokens Bounds Subs Superset Spec.

(* ---- worlds: finitely many ground impls `impl Tr<args> for Ty { type A = X; .. }` ---- *)
Record wimpl := { wi_trait : term; wi_self : term; wi_assoc : list (string * term) }.
Definition world := list wimpl.

Definition holds (W : world) (tau tr : term) : bool :=
  existsb (fun i => term_eqb (wi_self i) tau && term_eqb (wi_trait i) tr) W.

Fixpoint alist_get (l : list (string * term)) (a : string) : option term :=
  match l with
  | [] => None
  | (b, v) :: r => if String.eqb a b then Some v else alist_get r a
  end.

Definition assoc (W : world) (tau tr : term) (a : string) : option term :=
  match find (fun i => term_eqb (wi_self i) tau && term_eqb (wi_trait i) tr) W with
  | Some i => alist_get (wi_assoc i) a
  | None => None
  end.

(* unsized ground types of the fragment: str, [T], dyn Tr *)
Definition unsized_ty (t : term) : bool :=
  match t with
  | Node l ks =>
      is_kind "TSlice" l || is_kind "TTraitObject" l ||
      term_eqb t (Node (K "TPath" "") [Node (K "ONone" "") []; mk_path_ident "str"])
  end.

Fixpoint ground (t : term) {struct t} : bool :=
  match t with
  | Node l ks =>
      match ty_param (Node l ks), ex_param (Node l ks) with
      | None, None => forallb ground ks
      | _, _ => false
      end
  end.

(* ---- reading a block (the hook's `Impl` term) ---- *)
(* Impl [Generics [GP..]; Opt(trait path); self type; Where [Pred..]; Items [..]] *)
Definition block_header (b : term) : term :=
  match b with
  | Node _ [_; tr; self; _; _] => Node (K "GroupId" "") [tr; self]
  | _ => Node (K "GroupId" "") []
  end.

Record bound := { b_ty : term; b_maybe : bool; b_path : term }.

Definition bounds_of (bounded : term) (bs : list term) : list bound :=
  flat_map (fun b =>
    match b with
    | Node l [_; p] => if is_kind "BTrait" l
                       then [{| b_ty := bounded; b_maybe := negb (String.eqb (ld l) ""); b_path := p |}]
                       else []
    | _ => []
    end) bs.

Definition block_bounds (b : term) : list bound :=
  match b with
  | Node _ [Node _ gps; _; _; Node _ preds; _] =>
      flat_map (fun gp =>
        match gp with
        | Node l bs => if is_kind "GPType" l then bounds_of (mk_ty_param (ld l)) bs else []
        end) gps ++
      flat_map (fun pr =>
        match pr with
        | Node l (bt :: bs) => if is_kind "PredType" l then bounds_of bt bs else []
        | _ => []
        end) preds
  | _ => []
  end.

Definition block_type_params (b : term) : list string :=
  match b with
  | Node _ (Node _ gps :: _) =>
      flat_map (fun gp => match gp with Node l _ => if is_kind "GPType" l then [ld l] else [] end) gps
  | _ => []
  end.

(* `Sized`, also when named through a path (`core::marker::Sized`, `::std::marker::Sized`) *)
Definition is_sized_path (p : term) : bool :=
  match p with
  | Node lp segs =>
      is_kind "Path" lp &&
      match split_last segs with
      | Some (_, Node ls [Node la []]) => is_kind "Seg" ls && String.eqb (ld ls) "Sized" && is_kind "ANone" la
      | _ => false
      end
  end.

Definition relaxed (bs : list bound) (p : string) : bool :=
  existsb (fun b => b_maybe b && is_sized_path (b_path b) && term_eqb (b_ty b) (mk_ty_param p)) bs.

(* bindings `A = X` of a trait path's last segment *)
Definition path_bindings (p : term) : list (string * term) :=
  match p with
  | Node _ segs =>
      match split_last segs with
      | Some (_, Node _ [Node la args]) =>
          if is_kind "AAngle" la then
            flat_map (fun a => match a with
                               | Node l [_; ty] => if is_kind "GAssocType" l then [(ld l, ty)] else []
                               | _ => []
                               end) args
          else []
      | _ => []
      end
  end.

(* the trait reference without bindings and with `Tr<>` normalised to `Tr` *)
Definition trait_ref (p : term) : term :=
  match strip_bindings p with
  | Node lp segs =>
      match split_last segs with
      | Some (init, Node ls [Node la []]) =>
          if is_kind "AAngle" la then Node lp (init ++ [Node ls [Node (K "ANone" "") []]])
          else Node lp segs
      | _ => Node lp segs
      end
  end.

(* one pass over the not-yet-discharged bounds: a bound whose bounded type and trait
   reference are ground under rho is checked against the world and its payloads are matched
   (binding parameters that occur only in payloads); others are deferred *)
Fixpoint check_bounds (W : world) (rho : subs) (todo : list bound)
  : option (subs * list bound) :=
  match todo with
  | [] => Some (rho, [])
  | b :: rest =>
      if b_maybe b then check_bounds W rho rest     (* ?Sized: handled by sizedness *)
      else
      let tau := apply rho (b_ty b) in
      let tr := apply rho (trait_ref (b_path b)) in
      if ground tau && ground tr then
        if is_sized_path tr then
          if unsized_ty tau then None else check_bounds W rho rest
        else
        if holds W tau tr then
          (* payloads *)
          let step := fix go (rho : subs) (bs : list (string * term)) : option subs :=
            match bs with
            | [] => Some rho
            | (a, x) :: bs' =>
                match assoc W tau tr a with
                | Some v =>
                    match sup (apply rho x) v with
                    | Some s => match merge rho (filter (fun pv => negb (value_eqb (snd pv) VIdentity)) s) with
                                | Some rho' => go rho' bs'
                                | None => None
                                end
                    | None => None
                    end
                | None => None
                end
            end in
          match step rho (path_bindings (b_path b)) with
          | Some rho' => check_bounds W rho' rest
          | None => None
          end
        else None
      else
        match check_bounds W rho rest with
        | Some (rho', deferred) => Some (rho', b :: deferred)
        | None => None
        end
  end.

Fixpoint solve_bounds (fuel : nat) (W : world) (rho : subs) (todo : list bound) : bool :=
  match fuel with
  | O => false
  | S fuel' =>
      match check_bounds W rho todo with
      | Some (rho', []) => true
      | Some (rho', deferred) =>
          if Nat.eqb (List.length deferred) (List.length todo) then false   (* no progress *)
          else solve_bounds fuel' W rho' deferred
      | None => false
      end
  end.

Definition ground_subs (s : subs) : subs :=
  filter (fun pv => negb (value_eqb (snd pv) VIdentity)) s.

(* does the user-written block apply to the ground query (GroupId [trait; self])? *)
Definition applies (W : world) (blk q : term) : bool :=
  match sup (block_header blk) q with
  | None => false
  | Some s =>
      let rho := ground_subs s in
      let bs := block_bounds blk in
      (* implicit Sized on every type parameter that is not relaxed *)
      forallb (fun p => relaxed bs p ||
                        match lookup rho p with
                        | Some (VType v) => negb (unsized_ty v)
                        | _ => true
                        end) (block_type_params blk) &&
      solve_bounds (S (List.length bs)) W rho bs
  end.

Fixpoint indices_where {A} (f : A -> bool) (l : list A) (i : nat) : list nat :=
  match l with
  | [] => []
  | x :: r => if f x then i :: indices_where f r (S i) else indices_where f r (S i)
  end.

(* lifetimes play no role in which block applies: erase them all to '_ *)
Fixpoint erase_lt (t : term) {struct t} : term :=
  match t with
  | Node l ks => Node (if is_kind "Lifetime" l then K "Lifetime" "_" else l) (map erase_lt ks)
  end.

Definition erase_world (W : world) : world :=
  map (fun i => {| wi_trait := erase_lt (wi_trait i); wi_self := erase_lt (wi_self i);
                   wi_assoc := map (fun av => (fst av, erase_lt (snd av))) (wi_assoc i) |}) W.

(* the specification of dispatch: the blocks that apply to q *)
Definition applicable (W : world) (blocks : list term) (q : term) : list nat :=
  let W' := erase_world W in
  indices_where (fun b => applies W' (erase_lt b) (erase_lt q)) blocks 0.
