(* proofs/SearchFlat.v -- acceptance of the basic documented shape, for the search function
   itself: n blocks with one and the same header, each bounding the same type by the same trait
   and binding one associated type to pairwise non-unifiable payloads, are grouped into ONE
   family with all n members and rows [p_0] .. [p_(n-1)] -- for every n, every header, every
   spelling of the bindings. *)
From Coq Require Import List String Ascii Bool Arith Lia.
Import ListNotations.
From DI Require Import Syntax Tokens Bounds Subs Superset Substitute Spec RustSem Group Search.
From DI.proofs Require Import Basics SupersetSound SupersetComplete SubstituteProofs.

(* ---- generic facts ---- *)

Lemma apply_nil : forall t, apply [] t = t.
Proof.
  induction t as [l ks IH] using term_ind'. rewrite apply_eq.
  assert (E : map (apply []) ks = ks).
  { induction IH as [|x xs Hx Hxs IHxs]; simpl; [reflexivity|]. rewrite Hx, IHxs. reflexivity. }
  rewrite E. unfold apply_node, bound_term. cbn [lookup].
  destruct (ty_param (Node l ks)); [reflexivity|].
  destruct (ex_param (Node l ks)); [reflexivity|].
  destruct (is_kind "GType" l); [|reflexivity].
  destruct ks as [|c [|]]; try reflexivity. destruct (ty_param c); reflexivity.
Qed.

Lemma sup_refl_identity a : cwf [] a = true -> exists s, sup a a = Some s /\ all_identity s.
Proof.
  intro Hc. destruct (sup_complete [] a Hc) as (s & Hs & Ha & _).
  rewrite apply_nil in Hs. exists s. split; [exact Hs|].
  intros q v Hq. rewrite (Ha _ _ Hq). reflexivity.
Qed.

Lemma stable_identity s rm : all_identity s -> forall t, stable s rm t = true.
Proof.
  intros Hid. induction t as [l ks IH] using term_ind'. rewrite stable_eq.
  destruct ((is_type_kind l && is_some (rm_lookup rm (VType (Node l ks))))
            || (is_expr_kind l && is_some (rm_lookup rm (VExpr (Node l ks))))); [reflexivity|].
  assert (Hk : forallb (stable s rm) ks = true).
  { apply forallb_forall. rewrite Forall_forall in IH. exact IH. }
  destruct (match ty_param (Node l ks) with Some q => Some q | None => ex_param (Node l ks) end) as [q|]; [|exact Hk].
  cbv zeta iota beta.
  destruct (lookup s q) as [[v|v|]|] eqn:E;
    first [exact Hk | (apply lookup_in in E; apply Hid in E; discriminate)].
Qed.

Lemma stable_key_identity s b t : all_identity s -> stable_key s b t = true.
Proof. intro H. unfold stable_key. rewrite !stable_identity by assumption. reflexivity. Qed.

Lemma existsb_false_notin (x : term) l : ~ In x l -> existsb (term_eqb x) l = false.
Proof.
  intro H. destruct (existsb (term_eqb x) l) eqn:E; [|reflexivity].
  apply existsb_exists in E. destruct E as (y & Hy & Ey). apply term_eqb_eq in Ey. subst y. contradiction.
Qed.

Lemma nodup_map_inj {A B} (f : A -> B) l : NoDup (map f l) ->
  forall x y, In x l -> In y l -> f x = f y -> x = y.
Proof.
  induction l as [|z l IH]; simpl; intros Hnd x y Hx Hy E; [contradiction|].
  inversion Hnd as [|? ? Hz Hl]; subst.
  destruct Hx as [Hx|Hx], Hy as [Hy|Hy]; subst; auto.
  - exfalso. apply Hz. rewrite E. apply in_map. exact Hy.
  - exfalso. apply Hz. rewrite <- E. apply in_map. exact Hx.
Qed.

Lemma combine_map_r_self {A B} (f : A -> B) l : combine l (map f l) = map (fun x => (x, f x)) l.
Proof. induction l as [|x l IH]; simpl; [reflexivity|]. rewrite IH. reflexivity. Qed.

Section Flat.
  Variables Hd B : term.
  Variable a : string.
  Variable n : nat.
  Variables blk T p : nat -> term.

  Let blocks := map blk (seq 0 n).
  Let ib (i : nat) : ibounds := {| ib_bounds := [((B, T i), [(a, p i)])]; ib_unsized := [] |}.

  Hypothesis Hn : 0 < n.
  Hypothesis Hnodup : NoDup blocks.
  Hypothesis Hgid : forall i, i < n -> gid_of (blk i) = Hd.
  Hypothesis Hcwf : cwf [] Hd = true.
  Hypothesis Hb : forall i, i < n -> find_bounds (blk i) = ib i.
  Hypothesis Hkey : forall i j, i < n -> j < n -> tb_eqb (T i) (T j) = true.
  Hypothesis Hrows : forall i j, i < n -> j < n -> i <> j -> sup (p i) (p j) = None.

  Definition rows_upto (k : nat) : list arow := map (fun i => [(a, p i)]) (seq 0 k).
  Definition abg_upto (k : nat) : abg :=
    {| ab_bounds := [((B, T (k - 1)), rows_upto k)]; ab_unsized := [] |}.
  Definition groups_upto (k : nat) : gmap :=
    match k with O => [] | _ => [(Hd, (abg_upto k, seq 0 k))] end.
  Definition impls_from (k : nat) : list (nat * ibounds) := map (fun i => (i, ib i)) (seq k (n - k)).

  (* ---- bucketing ---- *)
  Lemma bucket_flat : bucket blocks = [(Hd, impls_from 0)].
  Proof.
    unfold bucket.
    match goal with |- context [fold_left ?F blocks ([], 0)] => set (F0 := F) end.
    assert (G : forall k, k <= n ->
              fold_left F0 (map blk (seq 0 k)) ([], 0)
              = (match k with O => [] | _ => [(Hd, map (fun i => (i, ib i)) (seq 0 k))] end, k)).
    { induction k as [|k IH]; intro Hk; [reflexivity|].
      rewrite seq_S, map_app, fold_left_app. rewrite IH by lia. cbn [map fold_left plus]. unfold F0 at 1.
      assert (Hdup : existsb (term_eqb (blk k)) (firstn k blocks) = false).
      { apply existsb_false_notin. unfold blocks.
        assert (E : firstn k (map blk (seq 0 n)) = map blk (seq 0 k)).
        { rewrite firstn_map. f_equal. replace n with (k + (n - k)) by lia.
          rewrite seq_app, firstn_app, seq_length, Nat.sub_diag, firstn_O, app_nil_r.
          apply firstn_all2. rewrite seq_length. lia. }
        rewrite E. intro Hin. apply in_map_iff in Hin. destruct Hin as (j & Hj & Hjs).
        apply in_seq in Hjs.
        assert (j = k); [|lia].
        apply (nodup_map_inj blk (seq 0 n) Hnodup); [apply in_seq; lia | apply in_seq; lia | exact Hj]. }
      rewrite Hdup. rewrite Hgid, Hb by lia.
      destruct k as [|k']; [reflexivity|].
      cbn [im_update]. rewrite term_eqb_refl. rewrite map_app. reflexivity. }
    pose proof (G n (le_n n)) as Gn. fold blocks in Gn. rewrite Gn. cbn [fst].
    unfold impls_from. rewrite Nat.sub_0_r. destruct n; [lia|reflexivity].
  Qed.

  (* ---- the header order of a single header ---- *)
  Lemma make_sets_single : make_sets [Hd] = {| supersets := [(Hd, 0)]; subsets := [(Hd, [])] |}.
  Proof. unfold make_sets. cbn [flat_map map app fold_left fst snd]. rewrite term_eqb_refl. reflexivity. Qed.

  (* ---- one step of the intersection ---- *)
  Lemma rows_upto_S k : rows_upto (S k) = rows_upto k ++ [[(a, p k)]].
  Proof. unfold rows_upto. rewrite seq_S, map_app. reflexivity. Qed.

  Lemma intersection_step s k :
    all_identity s -> 0 < k -> k < n ->
    abg_intersection (abg_upto k) (ib k) s = [abg_upto (S k)].
  Proof.
    intros Hid Hk Hkn. unfold abg_intersection, abg_upto, ib.
    cbn [ib_unsized ib_bounds ab_unsized ab_bounds fold_left fst snd].
    cbn [im_update row_extend fold_left im_insert fst snd map].
    rewrite (stable_key_identity s B (T k) Hid). cbn [negb].
    rewrite (subst_key_identity s B (T k) Hid). cbn [map im_get].
    assert (Ek : key_eqb (B, T (k - 1)) (B, T k) = true).
    { unfold key_eqb. cbn [fst snd]. rewrite term_eqb_refl, Hkey by lia. reflexivity. }
    rewrite Ek. cbn [cprod flat_map map app fold_left im_insert fst snd].
    rewrite rows_upto_S. replace (S k - 1) with k by lia. reflexivity.
  Qed.

  (* ---- the recursion ---- *)
  Variable sid : subs.
  Hypothesis Hsid : sup Hd Hd = Some sid.
  Hypothesis Hsid_id : all_identity sid.

  (* the blocks of the header are consumed one by one; what remains is the unlock call *)
  Section RecBlocks.
    Variable sub : list (term * list (term * subs)).
    Variable its : items.
    Hypothesis Hself : im_get term_eqb (subsets_of sub Hd) Hd = None.

    Lemma rec_blocks sp R sp' fuel :
      rec sub its fuel Hd [] sp (groups_upto n) = (R, sp') -> R <> [] ->
      forall m k, k + m = n ->
      rec sub its (m + fuel) Hd (impls_from k) sp (groups_upto k) = (R, sp').
    Proof.
      intros Hend HR. induction m as [|m IH]; intros k Hkm.
      - assert (k = n) by lia. subst k. unfold impls_from. rewrite Nat.sub_diag. cbn [seq map plus]. exact Hend.
      - assert (Hk : k < n) by lia.
        unfold impls_from. replace (n - k) with (S (n - S k)) by lia. cbn [seq map].
        fold (impls_from (S k)).
        assert (IHk := IH (S k) ltac:(lia)).
        cbn [plus rec fst snd]. destruct k as [|k'].
        + cbn [groups_upto fold_left im_has im_get].
          assert (E1 : [] ++ [(Hd, (abg_new (ib 0), [0]))] = groups_upto 1).
          { cbn [groups_upto app]. unfold abg_new, abg_upto, rows_upto, ib.
            cbn [ib_bounds ib_unsized fold_left im_update fst snd row_extend im_insert seq map]. reflexivity. }
          rewrite E1, IHk. destruct R; [congruence|]. reflexivity.
        + assert (E2 : [(Hd, (abg_upto (S (S k')), seq 0 (S k') ++ [S k']))] = groups_upto (S (S k'))).
          { cbn [groups_upto]. rewrite <- seq_S. reflexivity. }
          cbn [groups_upto fold_left fst snd].
          rewrite Hself. unfold im_has. cbn [im_get]. rewrite ?term_eqb_refl. rewrite Hsid.
          rewrite (intersection_step sid (S k') Hsid_id ltac:(lia) Hk). cbn [fold_left im_insert].
          rewrite ?term_eqb_refl. rewrite E2. rewrite IHk. cbn [app fst].
          destruct R; [congruence|]. reflexivity.
    Qed.
  End RecBlocks.

  Let sub := [(Hd, @nil (term * subs))].
  Let its := [(Hd, impls_from 0)].

  Lemma rec_flat sp : forall m k fuel,
    k + m = n -> m < fuel ->
    rec sub its fuel Hd (impls_from k) sp (groups_upto k) = ([groups_upto n], sp).
  Proof.
    intros m k fuel Hkm Hf. replace fuel with (m + (fuel - m)) by lia.
    apply rec_blocks; auto.
    - unfold subsets_of, sub. cbn [im_get]. rewrite term_eqb_refl. reflexivity.
    - destruct (fuel - m) as [|f] eqn:E; [lia|]. cbn [rec]. unfold subsets_of, sub. cbn [im_get].
      rewrite term_eqb_refl. cbn [fold_left]. reflexivity.
    - discriminate.
  Qed.

  (* ---- the rows of the final family and the candidate filter ---- *)
  Lemma payloads_upto k : 0 < k -> k <= n -> abg_payloads (abg_upto k) = map (fun i => [Some (p i)]) (seq 0 k).
  Proof.
    intros Hk Hkn. unfold abg_payloads, abg_idents, abg_nrows, abg_upto. cbn [ab_bounds flat_map fst snd app fold_left].
    assert (Hids : fold_left (fun acc r => fold_left (fun acc av => str_set_insert acc (fst av)) r acc) (rows_upto k) [] = [a]).
    { unfold rows_upto. destruct k as [|k']; [lia|]. clear Hk.
      assert (G : forall l, fold_left (fun acc r => fold_left (fun acc av => str_set_insert acc (fst av)) r acc)
                                   (map (fun i => [(a, p i)]) l) [a] = [a]).
      { induction l as [|x l IHl]; [reflexivity|]. cbn [map fold_left fst]. unfold str_set_insert at 2.
        cbn [existsb]. rewrite String.eqb_refl. cbn [orb]. exact IHl. }
      cbn [seq map fold_left fst]. unfold str_set_insert at 2. cbn [existsb app]. apply G. }
    rewrite Hids. cbn [map app]. unfold rows_upto. rewrite map_length, seq_length.
    apply map_ext_in. intros i Hi. apply in_seq in Hi. cbn [map fst snd im_get].
    unfold key_eqb. cbn [fst snd]. rewrite term_eqb_refl, Hkey by lia. cbn [andb].
    rewrite nth_error_map. rewrite (nth_error_nth' _ 0) by (rewrite seq_length; lia). rewrite seq_nth by lia. cbn [option_map im_get plus].
    rewrite String.eqb_refl. reflexivity.
  Qed.

  Lemma prune_upto k : 0 < k -> abg_prune (abg_upto k) = abg_upto k.
  Proof.
    intro Hk. unfold abg_prune, abg_upto. cbn [ab_bounds ab_unsized filter snd].
    unfold rows_upto. destruct k as [|k']; [lia|]. cbn [seq map existsb orb]. reflexivity.
  Qed.

  Lemma not_overlapping_upto k : 0 < k -> k <= n -> abg_is_overlapping (abg_upto k) = false.
  Proof.
    intros Hk Hkn. unfold abg_is_overlapping. rewrite payloads_upto by assumption.
    rewrite map_length, seq_length.
    destruct (existsb _ _) eqn:E; [|reflexivity]. exfalso.
    apply existsb_exists in E. destruct E as ([i ri] & Hi & E).
    apply existsb_exists in E. destruct E as ([j rj] & Hj & E). cbn [fst snd] in E.
    apply andb_true_iff in E. destruct E as [Eij Eg]. apply negb_true_iff in Eij. apply Nat.eqb_neq in Eij.
    assert (Hrow : forall m r, In (m, r) (combine (seq 0 k) (map (fun i => [Some (p i)]) (seq 0 k))) ->
                               m < k /\ r = [Some (p m)]).
    { intros m r Hm. rewrite combine_map_r_self in Hm. apply in_map_iff in Hm.
      destruct Hm as (x & Hx & Hin). inversion Hx; subst. apply in_seq in Hin. split; [lia|reflexivity]. }
    destruct (Hrow _ _ Hi) as [Hik ->]. destruct (Hrow _ _ Hj) as [Hjk ->].
    unfold row_generalises in Eg. cbn [all2b] in Eg. rewrite Hrows in Eg by lia. discriminate.
  Qed.

  Lemma groups_upto_pos k : 0 < k -> groups_upto k = [(Hd, (abg_upto k, seq 0 k))].
  Proof. destruct k; [lia|reflexivity]. Qed.

  Theorem flat_family_accepted fuel : n < fuel ->
    search fuel blocks = Some [(Hd, (abg_upto n, seq 0 n))].
  Proof.
    intro Hf. unfold search. rewrite bucket_flat. cbn [map fst]. rewrite make_sets_single.
    cbn [supersets subsets filter snd fst Nat.eqb map fold_left im_get]. rewrite term_eqb_refl.
    pose proof (rec_flat [(Hd, 0)] n 0 fuel (Nat.add_0_l n) Hf) as R.
    unfold sub, its in R. cbn [groups_upto] in R. rewrite R.
    cbn [flat_map app]. unfold candidate_ok. rewrite (groups_upto_pos n Hn).
    cbn [fold_left fst snd].
    rewrite prune_upto by lia. unfold abg_is_empty, abg_upto at 1. cbn [ab_bounds].
    rewrite not_overlapping_upto by lia. cbn [app choose fold_left fst]. reflexivity.
  Qed.
End Flat.



(* the closed statement: the identity substitution of the header comes from completeness of the
   matcher (sup_complete with the empty substitution) *)
Theorem flat_family_search (Hd B : term) (a : string) (n : nat) (blk T p : nat -> term) :
  0 < n ->
  NoDup (map blk (seq 0 n)) ->
  (forall i, i < n -> gid_of (blk i) = Hd) ->
  cwf [] Hd = true ->
  (forall i, i < n -> find_bounds (blk i) = {| ib_bounds := [((B, T i), [(a, p i)])]; ib_unsized := [] |}) ->
  (forall i j, i < n -> j < n -> tb_eqb (T i) (T j) = true) ->
  (forall i j, i < n -> j < n -> i <> j -> sup (p i) (p j) = None) ->
  forall fuel, n < fuel ->
  exists g, search fuel (map blk (seq 0 n)) = Some [(Hd, (g, seq 0 n))] /\
            abg_payloads g = map (fun i => [Some (p i)]) (seq 0 n).
Proof.
  intros Hn Hnd Hgid Hcwf Hb Hkey Hrows fuel Hf.
  destruct (sup_refl_identity Hd Hcwf) as (sid & Hsid & Hid).
  exists (abg_upto B a T p n). split.
  - eapply flat_family_accepted; eauto.
  - eapply payloads_upto; eauto.
Qed.

(* ---- bucketing of a duplicate-free list, without the duplicate test ---- *)
Definition bucket_step (st : items * nat) (b : term) : items * nat :=
  (im_update term_eqb (fst st) (gid_of b) [] (fun m => m ++ [(snd st, find_bounds b)]), S (snd st)).

Lemma bucket_nodup L : NoDup L -> bucket L = fst (fold_left bucket_step L ([], 0)).
Proof.
  intro Hnd. unfold bucket.
  match goal with |- context [fold_left ?F L ([], 0)] => set (F0 := F) end.
  assert (G : forall suf pre st, L = pre ++ suf -> snd st = List.length pre ->
              fold_left F0 suf st = fold_left bucket_step suf st).
  { induction suf as [|b suf IH]; intros pre st HL Hlen; [reflexivity|].
    cbn [fold_left].
    assert (Estep : F0 st b = bucket_step st b).
    { destruct st as [its i]. unfold F0, bucket_step. cbn [fst snd] in *. subst i.
      assert (Hd : existsb (term_eqb b) (firstn (List.length pre) L) = false).
      { rewrite HL, firstn_app, Nat.sub_diag, firstn_O, app_nil_r, firstn_all.
        apply existsb_false_notin. rewrite HL in Hnd. apply NoDup_remove_2 in Hnd.
        intro Hin. apply Hnd. apply in_or_app. left; exact Hin. }
      rewrite Hd. reflexivity. }
    rewrite Estep. apply (IH (pre ++ [b])).
    - rewrite <- app_assoc. exact HL.
    - destruct st as [its i]. cbn [snd] in *. unfold bucket_step. cbn [snd]. rewrite app_length. simpl. lia. }
  rewrite (G L [] ([], 0) eq_refl eq_refl). reflexivity.
Qed.
