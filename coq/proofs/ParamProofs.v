(* proofs/ParamProofs.v -- canonical numbering is injective: the indexer hands out strictly
   increasing numbers, so distinct parameters never share a canonical name. *)
From Coq Require Import List String Ascii Bool Arith Lia.
Import ListNotations.
From DI Require Import Syntax Param.
From DI.proofs Require Import Basics.

Definition st_inv (st : pstate) : Prop :=
  NoDup (map snd (indexed st)) /\ forall e, In e (indexed st) -> snd e < counter st.

Lemma NoDup_app_single {A} (l : list A) x : NoDup l -> ~ In x l -> NoDup (l ++ [x]).
Proof.
  induction l as [|y l IH]; simpl; intros H Hn.
  - constructor; [intros []|constructor].
  - inversion H; subst. constructor.
    + intro Hin. apply in_app_or in Hin. destruct Hin as [Hin|[Hin|[]]]; [contradiction|subst; tauto].
    + apply IH; auto.
Qed.

Lemma try_index_inv st k n : st_inv st -> st_inv (fst (try_index st k n)).
Proof.
  intros [Hnd Hlt]. unfold try_index. destruct (is_unindexed st k n); cbn [fst]; [|split; auto].
  unfold st_inv. cbn [indexed counter]. split.
  - rewrite map_app. simpl. apply NoDup_app_single; auto.
    intro Hin. apply in_map_iff in Hin. destruct Hin as (e & He & Hin). specialize (Hlt e Hin). lia.
  - intros e Hin. apply in_app_or in Hin. destruct Hin as [Hin|[Hin|[]]].
    + specialize (Hlt e Hin). lia.
    + subst e. simpl. lia.
Qed.

Lemma fold_inv (f : pstate -> term -> pstate) ks :
  Forall (fun k => forall st, st_inv st -> st_inv (f st k)) ks ->
  forall st, st_inv st -> st_inv (fold_left f ks st).
Proof.
  induction 1 as [|k ks Hk Hks IH]; simpl; intros st H; auto.
Qed.

Lemma index_term_eq st l ks :
  index_term st (Node l ks) =
  if is_kind "Lifetime" l || is_kind "PredLifetime" l then
    fold_left index_term ks (fst (try_index st PLt (ld l)))
  else if is_kind "TPath" l || is_kind "EPath" l then
    match ks with
    | [q; p] =>
        let st1 := index_term st q in
        let st2 :=
          if no_qself q then
            match first_seg p with
            | Some (n, bare) =>
                let (s, ok) := try_index st1 PTy n in
                if ok then s else if bare then fst (try_index st1 PCt n) else st1
            | None => st1
            end
          else st1 in
        index_term st2 p
    | _ => fold_left index_term ks st
    end
  else fold_left index_term ks st.
Proof. reflexivity. Qed.

Lemma try_index_pair st k n : try_index st k n = (fst (try_index st k n), snd (try_index st k n)).
Proof. destruct (try_index st k n); reflexivity. Qed.

Lemma index_term_inv t : forall st, st_inv st -> st_inv (index_term st t).
Proof.
  induction t as [l ks IH] using term_ind'; intros st H.
  rewrite index_term_eq.
  destruct (is_kind "Lifetime" l || is_kind "PredLifetime" l).
  { apply fold_inv; auto. apply try_index_inv; auto. }
  destruct (is_kind "TPath" l || is_kind "EPath" l).
  { destruct ks as [|q [|p [|]]]; try (apply fold_inv; auto).
    inversion IH as [|? ? Hq IH1]; subst. inversion IH1 as [|? ? Hp _]; subst.
    cbv zeta. apply Hp.
    destruct (no_qself q); [|apply Hq; auto].
    destruct (first_seg p) as [[n bare]|]; [|apply Hq; auto].
    rewrite (try_index_pair (index_term st q) PTy n).
    destruct (snd (try_index (index_term st q) PTy n)).
    - apply try_index_inv. apply Hq; auto.
    - destruct bare; [apply try_index_inv|]; apply Hq; auto. }
  apply fold_inv; auto.
Qed.

Lemma fold_terms_inv ts : forall st, st_inv st -> st_inv (fold_left index_term ts st).
Proof. induction ts as [|t ts IH]; simpl; intros st H; auto using index_term_inv. Qed.

Lemma visit_indexed_inv st gps preds : st_inv st -> st_inv (visit_indexed st gps preds).
Proof.
  intro H. unfold visit_indexed. apply fold_terms_inv.
  set (todo := filter _ (indexed st)). clearbody todo.
  assert (H0 : st_inv {| unindexed := unindexed st; indexed := indexed st; counter := counter st |}) by exact H.
  revert H0. generalize {| unindexed := unindexed st; indexed := indexed st; counter := counter st |}.
  induction todo as [|e todo IH]; simpl; intros s Hs; auto.
  apply IH. destruct (find _ gps); auto using fold_terms_inv.
Qed.

Lemma index_loop_inv fuel : forall st gps preds, st_inv st -> st_inv (index_loop fuel st gps preds).
Proof.
  induction fuel as [|fuel IH]; simpl; intros st gps preds H; auto.
  destruct (Nat.eqb _ _); auto using visit_indexed_inv.
Qed.

Theorem index_block_injective b : NoDup (map snd (indexed (index_block b))).
Proof.
  assert (H : st_inv (index_block b)).
  { unfold index_block. destruct b as [lb [|[lg gps] [|tr [|self [|[lw preds] [|items [|]]]]]]];
      try (split; [constructor | intros e []]).
    apply index_loop_inv. repeat apply index_term_inv. split; [constructor | intros e []]. }
  exact (proj1 H).
Qed.
