(* proofs/GenMainProofs.v -- the key predicates of the generated main impl relax `Sized` only on
   types of the family's unsized set (the translated union of what its blocks relaxed), and the
   duplicate-?Sized pass only removes bounds. *)
From Coq Require Import List String Bool Arith.
Import ListNotations.
From DI Require Import Syntax Bounds Subs Group Search Gen GenMain.
From DI.proofs Require Import Basics.

Lemma is_maybe_plain tr : is_maybe (plain_bound tr) = false.
Proof. reflexivity. Qed.

Lemma is_maybe_path_bound hb : is_maybe (Node (K "BTrait" "") [Node (K "ONone" "") []; hb]) = false.
Proof. reflexivity. Qed.

Theorem key_preds_relax_only_unsized idx fb g kp :
  key_preds idx fb g = Some kp ->
  forall l bt bs b, In (Node l (bt :: bs)) kp -> In b bs -> is_maybe b = true ->
    existsb (term_eqb bt) (ab_unsized g) = true.
Proof.
  unfold key_preds. destruct (helper_bound idx fb (abg_idents g)) as [hb|]; [|discriminate].
  intro H. inversion H; subst kp; clear H. intros l bt bs b Hin Hb Hm.
  apply in_app_or in Hin. destruct Hin as [Hin|Hin].
  - apply in_map_iff in Hin. destruct Hin as ([bt' trs] & E & _). inversion E; subst; clear E.
    cbn [fst snd] in *. destruct (existsb (term_eqb bt) (ab_unsized g)) eqn:Eu; [reflexivity|].
    cbn [app] in Hb. apply in_map_iff in Hb. destruct Hb as (tr & <- & _).
    rewrite is_maybe_plain in Hm. discriminate.
  - apply in_app_or in Hin. destruct Hin as [Hin|Hin].
    + apply in_flat_map in Hin. destruct Hin as (u & Hu & Hin).
      destruct (negb _ && is_signature_param fb u); [|contradiction].
      destruct Hin as [E|[]]. inversion E; subst.
      apply existsb_exists. exists bt. split; [exact Hu|apply term_eqb_refl].
    + destruct Hin as [E|[]]. inversion E; subst. destruct Hb as [<-|[]].
      rewrite is_maybe_path_bound in Hm. discriminate.
Qed.

(* the duplicate pass keeps a subset of the bounds of a subset of the predicates *)
Definition pred_sub (p q : term) : Prop :=
  match p, q with
  | Node l (bt :: bs), Node l' (bt' :: bs') => l = l' /\ bt = bt' /\ incl bs bs'
  | _, _ => p = q
  end.

Lemma dedup_inner_incl bs : forall kept first kept' first',
  fold_left (fun (acc : list term * bool) (b : term) =>
               let '(kept, first) := acc in
               if is_maybe b then (if first then kept ++ [b] else kept, false)
               else (kept ++ [b], first)) bs (kept, first) = (kept', first') ->
  incl kept' (kept ++ bs).
Proof.
  induction bs as [|b bs IH]; simpl; intros kept first kept' first' H.
  - inversion H; subst. rewrite app_nil_r. apply incl_refl.
  - destruct (is_maybe b).
    + destruct first.
      * apply IH in H. intros x Hx. apply H in Hx. rewrite <- app_assoc in Hx. exact Hx.
      * apply IH in H. intros x Hx. apply H in Hx. apply in_app_or in Hx.
        apply in_or_app. destruct Hx; [left; assumption|right; right; assumption].
    + apply IH in H. intros x Hx. apply H in Hx. rewrite <- app_assoc in Hx. exact Hx.
Qed.

Theorem dedup_only_removes preds : forall pr, In pr (dedup_maybe preds) -> exists q, In q preds /\ pred_sub pr q.
Proof.
  unfold dedup_maybe.
  set (step := fun (st : list term * list term) (pr : term) => _).
  assert (G : forall ps st pr, In pr (snd (fold_left step ps st)) ->
              In pr (snd st) \/ exists q, In q ps /\ pred_sub pr q).
  { induction ps as [|p ps IH]; simpl; intros st pr H; [left; exact H|].
    apply IH in H. destruct H as [H|(q & Hq & Hs)]; [|right; exists q; split; [right; exact Hq|exact Hs]].
    destruct st as [unsized out]. unfold step in H. cbn [snd] in H |- *.
    destruct p as [l [|bt bs]].
    - cbn [snd] in H. apply in_app_or in H. destruct H as [H|[H|[]]]; [left; exact H|].
      right. exists (Node l []). split; [left; reflexivity|]. subst pr. reflexivity.
    - destruct (is_kind "PredType" l) eqn:El.
      + destruct (fold_left _ bs ([], negb (existsb (term_eqb bt) unsized))) as [bs' fl] eqn:Ef.
        cbn [snd] in H. destruct bs' as [|b0 bs0]; [left; exact H|].
        apply in_app_or in H. destruct H as [H|[H|[]]]; [left; exact H|].
        right. exists (Node l (bt :: bs)). split; [left; reflexivity|]. subst pr.
        cbn [pred_sub]. repeat split. apply dedup_inner_incl in Ef. exact Ef.
      + cbn [snd] in H. apply in_app_or in H. destruct H as [H|[H|[]]]; [left; exact H|].
        right. exists (Node l (bt :: bs)). split; [left; reflexivity|]. subst pr.
        cbn [pred_sub]. repeat split. apply incl_refl. }
  intros pr H. apply G in H. destruct H as [[]|H]; exact H.
Qed.
