(* proofs/GenMainProofs.v -- the key predicates of the generated main impl relax `Sized` only on
   types of the family's unsized set (the translated union of what its blocks relaxed), and the
   duplicate-?Sized pass only removes bounds. *)
From Coq Require Import List String Ascii Bool Arith.
Import ListNotations.
From DI Require Import Syntax Bounds Subs Group Search Gen GenMain.
From DI.proofs Require Import Basics.

Lemma is_maybe_plain tr : is_maybe (plain_bound tr) = false.
Proof. reflexivity. Qed.

Lemma is_maybe_path_bound hb : is_maybe (Node (K "BTrait" "") [Node (K "ONone" "") []; hb]) = false.
Proof. reflexivity. Qed.

Theorem key_preds_relax_only_unsized idx fb g kp :
  key_preds idx fb g = Some kp ->
  forall l bt bs b, In (Node l (bt :: bs)) kp -> In b bs -> is_maybe b = true ->
    existsb (term_eqb bt) (ab_unsized g) = true.
Proof.
  unfold key_preds. destruct (helper_bound idx fb (abg_idents g)) as [hb|]; [|discriminate].
  intro H. inversion H; subst kp; clear H. intros l bt bs b Hin Hb Hm.
  apply in_app_or in Hin. destruct Hin as [Hin|Hin].
  - apply in_map_iff in Hin. destruct Hin as ([bt' trs] & E & _). inversion E; subst; clear E.
    cbn [fst snd] in *. destruct (existsb (term_eqb bt) (ab_unsized g)) eqn:Eu; [reflexivity|].
    cbn [app] in Hb. apply in_map_iff in Hb. destruct Hb as (tr & <- & _).
    rewrite is_maybe_plain in Hm. discriminate.
  - apply in_app_or in Hin. destruct Hin as [Hin|Hin].
    + apply in_flat_map in Hin. destruct Hin as (u & Hu & Hin).
      destruct (negb _ && is_signature_param fb u); [|contradiction].
      destruct Hin as [E|[]]. inversion E; subst.
      apply existsb_exists. exists bt. split; [exact Hu|apply term_eqb_refl].
    + destruct Hin as [E|[]]. inversion E; subst. destruct Hb as [<-|[]].
      rewrite is_maybe_path_bound in Hm. discriminate.
Qed.

(* the duplicate pass keeps a subset of the bounds of a subset of the predicates *)
Definition pred_sub (p q : term) : Prop :=
  match p, q with
  | Node l (bt :: bs), Node l' (bt' :: bs') => l = l' /\ bt = bt' /\ incl bs bs'
  | _, _ => p = q
  end.

Lemma dedup_inner_incl bs : forall kept first kept' first',
  fold_left (fun (acc : list term * bool) (b : term) =>
               let '(kept, first) := acc in
               if is_maybe b then (if first then kept ++ [b] else kept, false)
               else (kept ++ [b], first)) bs (kept, first) = (kept', first') ->
  incl kept' (kept ++ bs).
Proof.
  induction bs as [|b bs IH]; simpl; intros kept first kept' first' H.
  - inversion H; subst. rewrite app_nil_r. apply incl_refl.
  - destruct (is_maybe b).
    + destruct first.
      * apply IH in H. intros x Hx. apply H in Hx. rewrite <- app_assoc in Hx. exact Hx.
      * apply IH in H. intros x Hx. apply H in Hx. apply in_app_or in Hx.
        apply in_or_app. destruct Hx; [left; assumption|right; right; assumption].
    + apply IH in H. intros x Hx. apply H in Hx. rewrite <- app_assoc in Hx. exact Hx.
Qed.

Theorem dedup_only_removes preds : forall pr, In pr (dedup_maybe preds) -> exists q, In q preds /\ pred_sub pr q.
Proof.
  unfold dedup_maybe.
  set (step := fun (st : list term * list term) (pr : term) => _).
  assert (G : forall ps st pr, In pr (snd (fold_left step ps st)) ->
              In pr (snd st) \/ exists q, In q ps /\ pred_sub pr q).
  { induction ps as [|p ps IH]; simpl; intros st pr H; [left; exact H|].
    apply IH in H. destruct H as [H|(q & Hq & Hs)]; [|right; exists q; split; [right; exact Hq|exact Hs]].
    destruct st as [unsized out]. unfold step in H. cbn [snd] in H |- *.
    destruct p as [l [|bt bs]].
    - cbn [snd] in H. apply in_app_or in H. destruct H as [H|[H|[]]]; [left; exact H|].
      right. exists (Node l []). split; [left; reflexivity|]. subst pr. reflexivity.
    - destruct (is_kind "PredType" l) eqn:El.
      + destruct (fold_left _ bs ([], negb (existsb (term_eqb bt) unsized))) as [bs' fl] eqn:Ef.
        cbn [snd] in H. destruct bs' as [|b0 bs0]; [left; exact H|].
        apply in_app_or in H. destruct H as [H|[H|[]]]; [left; exact H|].
        right. exists (Node l (bt :: bs)). split; [left; reflexivity|]. subst pr.
        cbn [pred_sub]. repeat split. apply dedup_inner_incl in Ef. exact Ef.
      + cbn [snd] in H. apply in_app_or in H. destruct H as [H|[H|[]]]; [left; exact H|].
        right. exists (Node l (bt :: bs)). split; [left; reflexivity|]. subst pr.
        cbn [pred_sub]. repeat split. apply incl_refl. }
  intros pr H. apply G in H. destruct H as [[]|H]; exact H.
Qed.


(* ---- the items of the main impl ---- *)

(* the value an item is given: the expression of a const, the type of an associated type, the
   body of a function (the last child in all three cases) *)
Definition item_value (it : term) : option term := List.last (map Some (tkids it)) None.

Definition is_forwarder (hb : term) (n : string) (v : term) : Prop :=
  v = fwd_expr hb n \/ v = fwd_type hb n \/ exists inputs, v = fwd_body hb n inputs.

Lemma last_app_single {A} (l : list A) x d : List.last (l ++ [x]) d = x.
Proof.
  induction l as [|y l IH]; [reflexivity|]. simpl.
  destruct (l ++ [x]) eqn:E; [destruct l; discriminate|exact IH].
Qed.

Lemma item_value_app l ks v : item_value (Node l (ks ++ [v])) = Some v.
Proof. unfold item_value. cbn [tkids]. rewrite map_app. cbn [map]. apply last_app_single. Qed.

(* trait mode: one item per item of the trait definition, in its order, with its name and no
   visibility; each is given the helper trait's item of the same name, through
   `<Self as Helper<..>>::name` *)
Theorem main_items_trait_mode tdef titems idx fb g items p :
  (match fb with Node _ [_; tr; _; _; _] => opt_kid tr = Some p | _ => False end) ->
  gen_main_items tdef titems idx fb g = Some (Node (K "Items" "") items) ->
  exists hb, helper_bound idx fb (abg_idents g) = Some hb /\
    Forall2 (fun ti it =>
               ld (tlabel it) = String ";"%char (ld (tlabel ti)) /\
               exists v, item_value it = Some v /\ is_forwarder hb (ld (tlabel ti)) v)
            (tkids titems) items.
Proof.
  intros Htr H. unfold gen_main_items in H.
  destruct fb as [lb [|gen [|tr [|self [|wh [|[li its] [|]]]]]]]; try discriminate; try contradiction.
  destruct (helper_bound idx _ (abg_idents g)) as [hb|] eqn:Ehb; [|discriminate].
  rewrite Htr in H.
  destruct tdef as [lt [|[lg tps] [|x [|]]]]; try discriminate.
  destruct (is_kind "Trait" lt); [|discriminate].
  destruct (zip_params tps (last_args p) _) as [m|]; [|discriminate].
  inversion H as [Hitems]. clear H. subst items. exists hb. split; [reflexivity|].
  induction (tkids titems) as [|ti tis IH]; cbn [map]; [constructor|]. constructor; [|exact IH].
  destruct (is_kind "TIConst" (tlabel ti)).
  { split; [reflexivity|]. eexists. split; [apply item_value_app|]. left. reflexivity. }
  destruct (is_kind "TIType" (tlabel ti)).
  { split; [reflexivity|]. eexists. split; [apply (item_value_app _ [])|]. right. left. reflexivity. }
  split; [reflexivity|]. eexists. split; [apply item_value_app|]. right. right. eexists. reflexivity.
Qed.

(* inherent mode: the first block's items with their labels (visibility and name) as written;
   each is given the helper trait's item of the same name *)
Theorem main_items_inherent_mode tdef titems idx fb g items :
  (match fb with Node _ [_; tr; _; _; _] => opt_kid tr = None | _ => False end) ->
  gen_main_items tdef titems idx fb g = Some (Node (K "Items" "") items) ->
  exists hb its, helper_bound idx fb (abg_idents g) = Some hb /\
    (match fb with Node _ [_; _; _; _; Node _ its'] => its' = its | _ => False end) /\
    Forall2 (fun it0 it =>
               tlabel it = tlabel it0 /\
               exists v, item_value it = Some v /\ is_forwarder hb (item_name (ld (tlabel it0))) v)
            its items.
Proof.
  intros Htr H. unfold gen_main_items in H.
  destruct fb as [lb [|gen [|tr [|self [|wh [|[li its] [|]]]]]]]; try discriminate; try contradiction.
  destruct (helper_bound idx _ (abg_idents g)) as [hb|] eqn:Ehb; [|discriminate].
  rewrite Htr in H. inversion H as [Hitems]. clear H. subst items. exists hb, its. split; [reflexivity|]. split; [reflexivity|].
  clear Ehb. induction its as [|it its' IH]; cbn [map]; [constructor|]. constructor; [|exact IH].
  destruct (is_kind "IConst" (tlabel it)).
  { split; [reflexivity|]. eexists. split; [apply item_value_app|]. left. reflexivity. }
  destruct (is_kind "IType" (tlabel it)).
  { split; [reflexivity|]. eexists. split; [apply (item_value_app _ [])|]. right. left. reflexivity. }
  split; [reflexivity|]. eexists. split; [apply item_value_app|]. right. right. eexists. reflexivity.
Qed.
