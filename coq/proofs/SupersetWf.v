(* proofs/SupersetWf.v -- what substitutions the matcher can build: a closure principle
   (every reported substitution is obtained from [], single bindings of parameters and
   successful merges), and its instance: reported substitutions are well-formed, which is
   the hypothesis of the re-expression round trip (C10). *)
From Coq Require Import List String Ascii Bool Arith Lia.
Import ListNotations.
From DI Require Import Syntax Subs Superset Substitute Spec.
From DI.proofs Require Import Basics SupersetSound SubstituteProofs.

Lemma path_param_ident t p : path_param t = Some p -> is_param_ident p = true.
Proof.
  destruct t as [lp [|[ls [|[la [|]] [|]]] [|]]]; simpl; try discriminate.
  destruct (label_eqb lp (K "Path" "") && is_kind "Seg" ls && label_eqb la (K "ANone" "") &&
            is_param_ident (ld ls)) eqn:E; [|discriminate].
  intro H; inversion H; subst. apply andb_true_iff in E. tauto.
Qed.

Lemma ty_param_ident t p : ty_param t = Some p -> is_param_ident p = true.
Proof.
  intro H. pose proof (ty_param_inv _ _ H) as E. subst t. unfold mk_ty_param, ty_param in H.
  simpl in H. destruct (is_param_ident p); [reflexivity|discriminate].
Qed.

Lemma ex_param_ident t p : ex_param t = Some p -> is_param_ident p = true.
Proof.
  intro H. pose proof (ex_param_inv _ _ H) as E. subst t. unfold mk_ex_param, ex_param in H.
  simpl in H. destruct (is_param_ident p); [reflexivity|discriminate].
Qed.

Section Closure.
  Variable Q : subs -> Prop.
  Hypothesis Q_nil : Q [].
  Hypothesis Q_id : forall p, is_param_ident p = true -> Q [(p, VIdentity)].
  Hypothesis Q_ty : forall p t, is_param_ident p = true -> Q [(p, VType t)].
  Hypothesis Q_ex : forall p e, is_param_ident p = true -> is_expr_kind (tlabel e) = true ->
                                Q [(p, VExpr e)].
  Hypothesis Q_merge : forall s o r, Q s -> Q o -> merge s o = Some r -> Q r.

  Lemma kids_closure f xs :
    Forall (fun x => forall y s, f x y = Some s -> Q s) xs ->
    forall ys acc s, Q acc -> kids_with f acc xs ys = Some s -> Q s.
  Proof.
    induction 1 as [|x xs Hx Hxs IH]; intros [|y ys] acc s Ha H; simpl in H; try discriminate.
    - inversion H; subst; assumption.
    - destruct (f x y) as [s1|] eqn:E1; try discriminate.
      destruct (merge acc s1) as [acc'|] eqn:E2; try discriminate.
      eapply IH; [|exact H]. exact (Q_merge acc s1 acc' Ha (Hx _ _ E1) E2).
  Qed.

  Lemma garg_closure x :
    (forall y s, sup x y = Some s -> Q s) -> forall y s, garg_with sup x y = Some s -> Q s.
  Proof.
    intros IH y s H. destruct x as [lx kx], y as [ly ky]. unfold garg_with in H.
    destruct (is_kind "GType" lx && is_kind "GConst" ly); [|eauto].
    destruct kx as [|tx [|]]; try discriminate. destruct ky as [|ey [|]]; try discriminate.
    destruct (ty_param tx) as [p|] eqn:Ep; try discriminate.
    destruct (label_eqb ly (K "GConst" "") && is_expr_kind (tlabel ey)) eqn:El; try discriminate.
    apply andb_true_iff in El. destruct El as [_ El].
    inversion H; subst. apply Q_ex; eauto using ty_param_ident.
  Qed.

  Lemma omerge_closure a b r :
    (forall x, a = Some x -> Q x) -> (forall y, b = Some y -> Q y) -> omerge a b = Some r -> Q r.
  Proof.
    intros Ha Hb H. apply omerge_some in H. destruct H as (x & y & -> & -> & Hm). eauto.
  Qed.

  Theorem sup_closure : forall a b s, sup a b = Some s -> Q s.
  Proof.
    induction a as [la ka IHa] using term_ind'.
    induction b as [lb kb IHb] using term_ind'.
    intros s Hs. rewrite sup_eq in Hs. unfold sup_step in Hs.
    destruct (is_ty_wrap la).
    { destruct ka as [|e [|]]; try discriminate. inversion IHa; subst; eauto. }
    destruct (is_type_kind la && is_ty_wrap lb).
    { destruct kb as [|e [|]]; try discriminate. inversion IHb; subst; eauto. }
    destruct (is_ex_group la).
    { destruct ka as [|e [|]]; try discriminate. inversion IHa; subst; eauto. }
    destruct (is_expr_kind la && is_ex_group lb).
    { destruct kb as [|e [|]]; try discriminate. inversion IHb; subst; eauto. }
    destruct (ty_param (Node la ka)) as [p|] eqn:Etp.
    { pose proof (ty_param_ident _ _ Etp). unfold param_vs, subs_ty, subs_identity in Hs.
      destruct (ty_param (Node lb kb)) as [q|]; [destruct (String.eqb p q)|];
        inversion Hs; subst; auto. }
    destruct (ex_param (Node la ka)) as [p|] eqn:Eep.
    { pose proof (ex_param_ident _ _ Eep). destruct (is_expr_kind lb) eqn:Ek; [|discriminate].
      unfold param_vs, subs_ex, subs_identity in Hs.
      destruct (ex_param (Node lb kb)) as [q|]; [destruct (String.eqb p q)|];
        inversion Hs; subst; auto. }
    destruct (is_kind "Lifetime" la).
    { destruct ka; try discriminate. destruct kb; try discriminate.
      destruct (is_kind "Lifetime" lb && lifetime_ok la lb); inversion Hs; subst; auto. }
    assert (Hk : forall acc ys s0, Q acc -> kids_with sup acc ka ys = Some s0 -> Q s0).
    { intros acc ys s0. apply kids_closure. exact IHa. }
    destruct (is_kind "QSelf" la).
    { destruct (label_eqb la lb); try discriminate.
      destruct (kids_with sup [] ka kb) as [s0|] eqn:Ek; try discriminate.
      destruct (is_eq s0); inversion Hs; subst. eauto. }
    destruct (is_kind "Path" la).
    { destruct (label_eqb la lb && Nat.eqb (List.length ka) (List.length kb)); try discriminate.
      destruct (path_param (Node la ka)) as [p|] eqn:Ep1; [|eauto].
      destruct (path_param (Node lb kb)) as [q|] eqn:Ep2; [|eauto].
      destruct (String.eqb p q); [|eauto].
      inversion Hs; subst. apply Q_id. eapply path_param_ident; eauto. }
    destruct (is_kind "AAngle" la).
    { destruct (label_eqb la lb); try discriminate.
      eapply kids_closure; [|exact Q_nil|exact Hs].
      eapply Forall_impl; [|exact IHa]. intros x Hx. apply garg_closure. exact Hx. }
    destruct (is_kind "TBareFn" la).
    { destruct (label_eqb la lb); try discriminate.
      destruct ka as [|lt1 [|abi1 [|in1 [|out1 [|]]]]]; try discriminate.
      destruct kb as [|lt2 [|abi2 [|in2 [|out2 [|]]]]]; try discriminate.
      destruct (Nat.eqb (List.length (tkids in1)) (List.length (tkids in2)) && abi_ok abi1 abi2);
        try discriminate.
      inversion IHa as [|? ? G1 IH1]; subst. inversion IH1 as [|? ? _ IH2]; subst.
      inversion IH2 as [|? ? G3 IH3]; subst. inversion IH3 as [|? ? G4 _]; subst.
      eapply omerge_closure; [| |exact Hs]; eauto.
      intros x Hx. eapply omerge_closure; [| |exact Hx]; eauto. }
    destruct (is_kind "EBinary" la).
    { destruct (label_eqb la lb); try discriminate.
      destruct ka as [|l1 [|r1 [|]]]; try discriminate.
      destruct kb as [|l2 [|r2 [|]]]; try discriminate.
      inversion IHa as [|? ? G1 IH1]; subst. inversion IH1 as [|? ? G2 _]; subst.
      destruct (sup l1 l2) as [s1|] eqn:E1.
      - eapply omerge_closure; [| |exact Hs]; eauto.
      - destruct (commutative_op (ld la)); try discriminate.
        eapply omerge_closure; [| |exact Hs]; eauto. }
    destruct (is_kind "EMethodCall" la).
    { destruct (label_eqb la lb && Nat.eqb (List.length ka) (List.length kb)); try discriminate.
      destruct ka as [|rc1 [|tf1 args1]]; try discriminate.
      destruct kb as [|rc2 [|tf2 args2]]; try discriminate.
      inversion IHa as [|? ? G1 IH1]; subst. inversion IH1 as [|? ? G2 IH2]; subst.
      eapply omerge_closure; [| |exact Hs].
      - intros x Hx. eapply omerge_closure; [| |exact Hx]; eauto.
        intros y Hy. destruct (is_kind "ONone" (tlabel tf1) || is_kind "ONone" (tlabel tf2)).
        + inversion Hy; subst; auto.
        + eauto.
      - intros y Hy. eapply kids_closure; [exact IH2|exact Q_nil|exact Hy]. }
    destruct (label_eqb la lb); try discriminate. eauto.
  Qed.
End Closure.

(* ---- instance: reported substitutions are well-formed ---- *)

Lemma lookup_none_notin s q : lookup s q = None -> ~ In q (map fst s).
Proof.
  induction s as [|[p v] s IH]; simpl; intros H; [tauto|].
  destruct (String.eqb p q) eqn:E; [discriminate|].
  apply String.eqb_neq in E. intros [X|X]; [congruence|]. apply IH; assumption.
Qed.

Lemma NoDup_snoc {A} (l : list A) x : NoDup l -> ~ In x l -> NoDup (l ++ [x]).
Proof.
  induction 1 as [|y l Hy Hl IH]; simpl; intro Hx.
  - constructor; [tauto|constructor].
  - constructor.
    + intro Hin. apply in_app_or in Hin. destruct Hin as [Hin|[Hin|[]]]; [tauto|]. subst. tauto.
    + apply IH. tauto.
Qed.

Lemma wf_subs_nil : wf_subs [].
Proof. repeat split; simpl; try constructor; intros; contradiction. Qed.

Lemma wf_subs_single p v :
  is_param_ident p = true ->
  (forall e, v = VExpr e -> is_expr_kind (tlabel e) = true) -> wf_subs [(p, v)].
Proof.
  intros Hp Hv. repeat split; simpl.
  - constructor; [tauto|constructor].
  - intros q w [X|[]]. inversion X; subst; assumption.
  - intros q e [X|[]]. inversion X; subst. apply Hv. reflexivity.
Qed.

Lemma wf_subs_snoc s p v :
  wf_subs s -> lookup s p = None -> wf_subs [(p, v)] -> wf_subs (s ++ [(p, v)]).
Proof.
  intros (N & P & E) Hl (_ & P1 & E1). repeat split.
  - rewrite map_app. simpl. apply NoDup_snoc; auto using lookup_none_notin.
  - intros q w Hq. apply in_app_or in Hq. destruct Hq; eauto.
  - intros q e Hq. apply in_app_or in Hq. destruct Hq; eauto.
Qed.

Lemma merge_wf o : forall s r, wf_subs s -> wf_subs o -> merge s o = Some r -> wf_subs r.
Proof.
  induction o as [|[q v] o IH]; simpl; intros s r Ws Wo H.
  - inversion H; subst; assumption.
  - assert (Wo' : wf_subs o).
    { destruct Wo as (N & P & E). inversion N; subst. repeat split; auto.
      - intros p w Hp. eapply P. right; exact Hp.
      - intros p e Hp. eapply E. right; exact Hp. }
    assert (W1 : wf_subs [(q, v)]).
    { destruct Wo as (N & P & E). apply wf_subs_single.
      - eapply P. left; reflexivity.
      - intros e ->. eapply E. left; reflexivity. }
    destruct (lookup s q) as [w|] eqn:El.
    + destruct (value_eqb v w); [|discriminate]. eauto.
    + eapply IH; [| |exact H]; auto using wf_subs_snoc.
Qed.

Theorem sup_wf : forall a b s, sup a b = Some s -> wf_subs s.
Proof.
  apply (sup_closure wf_subs).
  - exact wf_subs_nil.
  - intros p Hp. apply wf_subs_single; [assumption|discriminate].
  - intros p t Hp. apply wf_subs_single; [assumption|discriminate].
  - intros p e Hp He. apply wf_subs_single; [assumption|]. intros e' X; inversion X; subst; assumption.
  - intros s o r Hs Ho Hm. exact (merge_wf o s r Hs Ho Hm).
Qed.

(* C09 -> C10: the round trip holds for every substitution the matcher reports *)
Theorem sup_then_roundtrip a b s bounded trait_ :
  sup a b = Some s -> stable_key s bounded trait_ = true ->
  forall rb rt, In (rb, rt) (subst_key s bounded trait_) ->
                apply s rb = bounded /\ apply s rt = trait_.
Proof.
  intros Hs Hst. exact (subst_key_roundtrip s bounded trait_ (sup_wf _ _ _ Hs) Hst).
Qed.
