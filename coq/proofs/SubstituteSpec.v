(* proofs/SubstituteSpec.v -- the reverse-map implementation of the re-expression computes
   exactly the enumeration [subst_spec] (C10: one re-expression per way of choosing among the
   parameters bound to equal values, and nothing else). *)
From Coq Require Import List String Bool.
Import ListNotations.
From DI Require Import Syntax Subs Substitute.
From DI.proofs Require Import Basics SubstituteProofs.

Lemma rm_lookup_fold s : forall acc v,
  rm_lookup (fold_left (fun acc pv => rm_push acc (snd pv) (fst pv)) s acc) v =
  match bound_to s v with
  | [] => rm_lookup acc v
  | ps => Some (match rm_lookup acc v with Some ps0 => ps0 ++ ps | None => ps end)
  end.
Proof.
  induction s as [|[q w] s IH]; intros acc v; simpl; [reflexivity|].
  rewrite IH. rewrite rm_push_lookup. unfold bound_to. simpl.
  destruct (value_eqb w v) eqn:E.
  - simpl. fold (bound_to s v).
    destruct (bound_to s v) as [|p ps].
    + destruct (rm_lookup acc w) eqn:Ew; apply value_eqb_eq in E; subst w; rewrite Ew; reflexivity.
    + apply value_eqb_eq in E; subst w.
      destruct (rm_lookup acc v); [rewrite <- app_assoc|]; reflexivity.
  - fold (bound_to s v). reflexivity.
Qed.

Lemma rm_lookup_reverse_map0 s v :
  rm_lookup (reverse_map0 s) v = match bound_to s v with [] => None | ps => Some ps end.
Proof. unfold reverse_map0. rewrite rm_lookup_fold. simpl. destruct (bound_to s v); reflexivity. Qed.

Lemma rm_lookup_reverse_map s v :
  rm_lookup (reverse_map s) v = match candidates s v with [] => None | ps => Some ps end.
Proof.
  unfold reverse_map. rewrite rm_lookup_augment, rm_lookup_reverse_map0.
  unfold candidates, spells_identity, augment. cbn [fst snd].
  destruct (bound_to s v) as [|p ps]; [reflexivity|].
  destruct (self_param v) as [q|]; [|rewrite app_nil_r; reflexivity].
  destruct (lookup s q) as [[?|?|]|]; try (rewrite app_nil_r; reflexivity). reflexivity.
Qed.

Theorem subst_is_spec s : forall t, subst (reverse_map s) t = subst_spec s t.
Proof.
  induction t as [l ks IH] using term_ind'. rewrite subst_eq. cbn [subst_spec]. cbv zeta.
  assert (E : map (subst (reverse_map s)) ks = map (subst_spec s) ks).
  { apply map_ext_in. intros x Hx. rewrite Forall_forall in IH. auto. }
  rewrite E. rewrite !rm_lookup_reverse_map. unfold replaced.
  destruct (is_type_kind l).
  { destruct (candidates s (VType (Node l ks))); reflexivity. }
  destruct (is_expr_kind l); [|reflexivity].
  destruct (candidates s (VExpr (Node l ks))); reflexivity.
Qed.

Theorem subst_key_is_spec s b t : subst_key s b t = spec_key s b t.
Proof. unfold subst_key, spec_key. rewrite !subst_is_spec. reflexivity. Qed.
