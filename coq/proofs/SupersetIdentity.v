(* proofs/SupersetIdentity.v -- a match that binds nothing is an equality: when the matcher
   reports only identity bindings the two headers are the same up to the documented
   congruence (syntactically equal on plain terms).  This is the direction the family search
   relies on when it treats a header that generalises another WITHOUT instantiating any
   parameter as the same family id. *)
From Coq Require Import List String Bool.
Import ListNotations.
From DI Require Import Syntax Subs Superset Substitute Spec.
From DI.proofs Require Import Basics SupersetSound SupersetExact SubstituteProofs.

Lemma lookup_identity s : all_identity s -> forall p,
  lookup s p = None \/ lookup s p = Some VIdentity.
Proof.
  intros Hid p. destruct (lookup s p) as [v|] eqn:E; [right|left; reflexivity].
  apply lookup_in in E. rewrite (Hid _ _ E). reflexivity.
Qed.

Lemma bound_term_identity s p d : all_identity s -> bound_term s p d = d.
Proof.
  intro Hid. unfold bound_term. destruct (lookup_identity s Hid p) as [E|E]; rewrite E; reflexivity.
Qed.

Theorem apply_identity s : all_identity s -> forall t, apply s t = t.
Proof.
  intro Hid. induction t as [l ks IH] using term_ind'. rewrite apply_eq.
  assert (E : map (apply s) ks = ks).
  { induction IH as [|x xs Hx Hxs IHxs]; simpl; [reflexivity|]. rewrite Hx, IHxs. reflexivity. }
  rewrite E. unfold apply_node.
  destruct (ty_param (Node l ks)); [apply bound_term_identity; exact Hid|].
  destruct (ex_param (Node l ks)); [apply bound_term_identity; exact Hid|].
  destruct (is_kind "GType" l); [|reflexivity].
  destruct ks as [|c [|]]; try reflexivity. destruct (ty_param c) as [p|]; [|reflexivity].
  destruct (lookup_identity s Hid p) as [E'|E']; rewrite E'; reflexivity.
Qed.

Theorem sup_identity_equiv a b s : sup a b = Some s -> all_identity s -> equivb a b = true.
Proof.
  intros H Hid. pose proof (sup_sound a b s H) as Hs. rewrite (apply_identity s Hid) in Hs. exact Hs.
Qed.

Theorem sup_identity_eq a b s : sup a b = Some s -> all_identity s ->
  plain a = true -> plain b = true -> a = b.
Proof.
  intros H Hid Pa Pb. apply equivb_plain_eq; [exact Pa|exact Pb|]. exact (sup_identity_equiv a b s H Hid).
Qed.
