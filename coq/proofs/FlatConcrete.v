(* proofs/FlatConcrete.v -- the two flat-family theorems (acceptance by the search, exact
   coverage) on concrete block terms: blocks
       impl<X1, .., Xk> Tr for Self where B: T_i        (T_i = Dispatch<.., A = p_i>)
   as the hook serializes them.  Everything the abstract theorems assume about a block is
   computed here from its term. *)
From Coq Require Import List String Ascii Bool Arith Lia.
Import ListNotations.
From DI Require Import Syntax Tokens Bounds Subs Superset Substitute Spec RustSem Group Search Dispatch.
From DI.proofs Require Import Basics SearchFlat FlatSemantics.

Definition bare_params (names : list string) : list term := map (fun x => Node (K "GPType" x) []) names.

Definition flat_block (names : list string) (tr self B T items : term) : term :=
  Node (K "Impl" "")
    [Node (K "Generics" "") (bare_params names); tr; self;
     Node (K "Where" "") [Node (K "PredType" "") [B; Node (K "BTrait" "") [Node (K "ONone" "") []; T]]];
     items].

Lemma gid_flat_block names tr self B T items :
  gid_of (flat_block names tr self B T items) = Node (K "GroupId" "") [tr; self].
Proof. reflexivity. Qed.

Definition no_kids (gp : term) : Prop := tkids gp = [].

Lemma insert_gp_no_kids gp l : no_kids gp -> Forall no_kids l -> Forall no_kids (insert_gp gp l).
Proof.
  intros Hg. induction 1 as [|x l Hx Hl IH]; simpl; [constructor; auto|].
  destruct (String.leb _ _); constructor; auto.
Qed.

Lemma sort_gps_no_kids l : Forall no_kids l -> Forall no_kids (sort_gps l).
Proof.
  unfold sort_gps. assert (G : forall l acc, Forall no_kids l -> Forall no_kids acc ->
                              Forall no_kids (fold_left (fun acc gp => insert_gp gp acc) l acc)).
  { induction l0 as [|x l0 IH]; simpl; intros acc Hl Ha; [exact Ha|].
    inversion Hl; subst. apply IH; auto using insert_gp_no_kids. }
  intro H. apply G; [exact H|constructor].
Qed.

Lemma bare_params_no_kids names : Forall no_kids (bare_params names).
Proof. unfold bare_params. apply Forall_forall. intros x Hx. apply in_map_iff in Hx. destruct Hx as (n & <- & _). reflexivity. Qed.

Lemma fold_no_bounds l : Forall no_kids l -> forall acc,
  fold_left (fun acc gp =>
               match gp with
               | Node lb bs => if is_kind "GPType" lb then visit_bounds (mk_ty_param (ld lb)) bs acc else acc
               end) l acc = acc.
Proof.
  induction 1 as [|x l Hx Hl IH]; simpl; intro acc; [reflexivity|].
  destruct x as [lb bs]. unfold no_kids in Hx. simpl in Hx. subst bs.
  destruct (is_kind "GPType" lb); cbn [visit_bounds fold_left]; apply IH.
Qed.

Lemma find_bounds_flat_block names tr self B T items :
  find_bounds (flat_block names tr self B T items) =
  {| ib_bounds := [((B, T), path_bindings T)]; ib_unsized := [] |}.
Proof.
  unfold find_bounds, flat_block.
  rewrite (fold_no_bounds _ (sort_gps_no_kids _ (bare_params_no_kids names))).
  cbn [fold_left visit_bounds ib_bounds ib_unsized app]. reflexivity.
Qed.

Lemma block_bounds_flat_block names tr self B T items :
  block_bounds (flat_block names tr self B T items) = [{| b_ty := B; b_maybe := false; b_path := T |}].
Proof.
  unfold block_bounds, flat_block.
  assert (E : flat_map (fun gp => match gp with
                                  | Node l bs => if is_kind "GPType" l then bounds_of (mk_ty_param (ld l)) bs else []
                                  end) (bare_params names) = []).
  { unfold bare_params. induction names as [|x names IH]; [reflexivity|]. cbn [map flat_map]. rewrite IH. reflexivity. }
  rewrite E. reflexivity.
Qed.

(* ---- the two theorems on concrete blocks ---- *)
Section Concrete.
  Variable W : world.
  Variables tr self B TR : term.
  Variable a : string.
  Variable n : nat.
  Variable names : nat -> list string.
  Variables T p items : nat -> term.

  Let blk (i : nat) : term := flat_block (names i) tr self B (T i) (items i).
  Let Hd : term := Node (K "GroupId" "") [tr; self].

  Hypothesis Hn : 0 < n.
  Hypothesis Hnodup : NoDup (map blk (seq 0 n)).
  Hypothesis Hcwf : cwf [] Hd = true.
  Hypothesis Hbind : forall i, i < n -> path_bindings (T i) = [(a, p i)].
  Hypothesis Hkey : forall i j, i < n -> j < n -> tb_eqb (T i) (T j) = true.
  Hypothesis Htr : forall i, i < n -> trait_ref (T i) = TR.
  Hypothesis Hns : forall rho, is_sized_path (apply rho TR) = false.
  Hypothesis Hrows : forall i j, i < n -> j < n -> i <> j -> sup (p i) (p j) = None.

  Theorem flat_blocks_one_family fuel : n < fuel ->
    exists g, search fuel (map blk (seq 0 n)) = Some [(Hd, (g, seq 0 n))] /\
              abg_payloads g = map (fun i => [Some (p i)]) (seq 0 n).
  Proof.
    intro Hf. apply (flat_family_search Hd B a n blk T p); auto.
    - intros i Hi. unfold blk. rewrite find_bounds_flat_block, Hbind by exact Hi. reflexivity.
  Qed.

  Theorem flat_blocks_exact_coverage q :
    main_applies term term (keyvals W Hd B TR a) (map (member_of W Hd blk p) (seq 0 n)) q = true <->
    exists i, i < n /\ applies W (blk i) q = true.
  Proof.
    apply (flat_exact_coverage W Hd B TR a n blk T p); auto.
    - intros i Hi. unfold blk. apply block_bounds_flat_block.
  Qed.
End Concrete.

(* ---- order independence for flat families: the same blocks written in another order are
   accepted as well (one family), and the generated main impl covers the same queries ---- *)
Lemma NoDup_map_inj_on {A B} (g : A -> B) (l : list A) :
  NoDup l -> (forall x y, In x l -> In y l -> g x = g y -> x = y) -> NoDup (map g l).
Proof.
  induction 1 as [|x l Hx Hl IH]; intro Hinj; [constructor|]. cbn [map]. constructor.
  - intro Hin. apply in_map_iff in Hin. destruct Hin as (y & Hy & Hyl).
    assert (y = x) by (apply Hinj; [right; exact Hyl|left; reflexivity|exact Hy]). subst. contradiction.
  - apply IH. intros a b Ha Hb. apply Hinj; right; assumption.
Qed.

Lemma NoDup_map_seq_inj {B} (f : nat -> B) n :
  NoDup (map f (seq 0 n)) -> forall i j, i < n -> j < n -> f i = f j -> i = j.
Proof.
  intros Hnd i j Hi Hj Hf.
  assert (Hlen : List.length (map f (seq 0 n)) = n) by (rewrite map_length, seq_length; reflexivity).
  rewrite (NoDup_nth (map f (seq 0 n)) (f 0)) in Hnd.
  apply Hnd; rewrite ?Hlen; try assumption.
  rewrite !(map_nth f (seq 0 n) 0), !seq_nth by assumption. exact Hf.
Qed.

Section Permuted.
  Variable W : world.
  Variables tr self B TR : term.
  Variable a : string.
  Variable n : nat.
  Variable names : nat -> list string.
  Variables T p items : nat -> term.
  Variables sigma tau : nat -> nat.         (* the new order and its inverse *)

  Let blk (i : nat) : term := flat_block (names i) tr self B (T i) (items i).
  Let blk' (i : nat) : term := blk (sigma i).
  Let Hd : term := Node (K "GroupId" "") [tr; self].

  Hypothesis Hn : 0 < n.
  Hypothesis Hnodup : NoDup (map blk (seq 0 n)).
  Hypothesis Hcwf : cwf [] Hd = true.
  Hypothesis Hbind : forall i, i < n -> path_bindings (T i) = [(a, p i)].
  Hypothesis Hkey : forall i j, i < n -> j < n -> tb_eqb (T i) (T j) = true.
  Hypothesis Htr : forall i, i < n -> trait_ref (T i) = TR.
  Hypothesis Hns : forall rho, is_sized_path (apply rho TR) = false.
  Hypothesis Hrows : forall i j, i < n -> j < n -> i <> j -> sup (p i) (p j) = None.
  Hypothesis Hsig : forall i, i < n -> sigma i < n.
  Hypothesis Htau : forall j, j < n -> tau j < n /\ sigma (tau j) = j.
  Hypothesis Hinj : forall i j, i < n -> j < n -> sigma i = sigma j -> i = j.

  Lemma nodup_permuted : NoDup (map blk' (seq 0 n)).
  Proof.
    unfold blk'. rewrite <- (map_map sigma blk). apply NoDup_map_inj_on.
    - apply NoDup_map_inj_on; [apply seq_NoDup|].
      intros x y Hx Hy. apply in_seq in Hx. apply in_seq in Hy. apply Hinj; lia.
    - intros x y Hx Hy. apply in_map_iff in Hx. apply in_map_iff in Hy.
      destruct Hx as (i & <- & Hi), Hy as (j & <- & Hj). apply in_seq in Hi. apply in_seq in Hj.
      intro E. apply (NoDup_map_seq_inj blk n Hnodup); [apply Hsig; lia|apply Hsig; lia|exact E].
  Qed.

  Theorem flat_family_order_independent fuel : n < fuel ->
    (exists g, search fuel (map blk (seq 0 n)) = Some [(Hd, (g, seq 0 n))]) /\
    (exists g', search fuel (map blk' (seq 0 n)) = Some [(Hd, (g', seq 0 n))]) /\
    forall q,
      main_applies term term (keyvals W Hd B TR a) (map (member_of W Hd blk p) (seq 0 n)) q = true <->
      main_applies term term (keyvals W Hd B TR a)
                   (map (member_of W Hd blk' (fun i => p (sigma i))) (seq 0 n)) q = true.
  Proof.
    intro Hf. split; [|split].
    - destruct (flat_blocks_one_family tr self B a n names T p items Hn Hnodup Hcwf Hbind Hkey Hrows fuel Hf) as (g & Hg & _).
      exists g. exact Hg.
    - assert (H2 : exists g, search fuel (map blk' (seq 0 n)) = Some [(Hd, (g, seq 0 n))] /\
                             abg_payloads g = map (fun i => [Some (p (sigma i))]) (seq 0 n)).
      { apply (flat_blocks_one_family tr self B a n (fun i => names (sigma i)) (fun i => T (sigma i))
                 (fun i => p (sigma i)) (fun i => items (sigma i))); auto; try exact nodup_permuted. }
      destruct H2 as (g & Hg & _). exists g. exact Hg.
    - intro q.
      assert (R1 : main_applies term term (keyvals W Hd B TR a) (map (member_of W Hd blk p) (seq 0 n)) q = true <->
                   exists i, i < n /\ applies W (blk i) q = true).
      { apply (flat_blocks_exact_coverage W tr self B TR a n names T p items Hbind Htr Hns q). }
      assert (R2 : main_applies term term (keyvals W Hd B TR a)
                     (map (member_of W Hd blk' (fun i => p (sigma i))) (seq 0 n)) q = true <->
                   exists i, i < n /\ applies W (blk' i) q = true).
      { apply (flat_blocks_exact_coverage W tr self B TR a n (fun i => names (sigma i)) (fun i => T (sigma i))
                 (fun i => p (sigma i)) (fun i => items (sigma i))); auto. }
      rewrite R1, R2. split.
      + intros (j & Hj & Ha). destruct (Htau j Hj) as (Ht & Hs). exists (tau j). split; [exact Ht|].
        unfold blk'. rewrite Hs. exact Ha.
      + intros (i & Hi & Ha). exists (sigma i). split; [apply Hsig; exact Hi|exact Ha].
  Qed.
End Permuted.
