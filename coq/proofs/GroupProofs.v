(* proofs/GroupProofs.v -- soundness of the grouping checker: gi_check = true implies the
   grouping invariants as logical statements, with the instance claim discharged through the
   matcher's soundness theorem. *)
From Coq Require Import List String Ascii Bool Arith Lia.
Import ListNotations.
From DI Require Import Syntax Tokens Bounds Subs Superset Substitute Spec RustSem Group.
From DI.proofs Require Import Basics SupersetSound.

Lemma all2b_forall2 {A B} (f : A -> B -> bool) xs ys :
  all2b f xs ys = true -> Forall2 (fun x y => f x y = true) xs ys.
Proof.
  revert ys. induction xs as [|x xs IH]; intros [|y ys] H; simpl in H; try discriminate; constructor.
  - apply andb_true_iff in H; tauto.
  - apply IH. apply andb_true_iff in H; tauto.
Qed.

Lemma Forall2_impl {A B} (P Q : A -> B -> Prop) xs ys :
  (forall x y, P x y -> Q x y) -> Forall2 P xs ys -> Forall2 Q xs ys.
Proof. intros H F. induction F; constructor; auto. Qed.

Lemma natb_in_In n l : natb_in n l = true -> In n l.
Proof.
  induction l as [|m r IH]; simpl; intro H; [discriminate|].
  apply orb_true_iff in H. destruct H as [H|H]; [left; symmetry; apply Nat.eqb_eq; exact H | right; auto].
Qed.

Lemma In_natb_in n l : In n l -> natb_in n l = true.
Proof.
  induction l as [|m r IH]; simpl; intro H; [contradiction|].
  destruct H as [H|H]; [subst; rewrite Nat.eqb_refl; reflexivity | rewrite IH by assumption; apply orb_true_r].
Qed.

Lemma nodup_nat_NoDup l : nodup_nat l = true -> NoDup l.
Proof.
  induction l as [|n r IH]; simpl; intro H; [constructor|].
  apply andb_true_iff in H. destruct H as [H1 H2]. constructor; auto.
  intro Hin. apply In_natb_in in Hin. rewrite Hin in H1. discriminate.
Qed.

(* what one member satisfies *)
Definition member_inv (blocks : list term) (g : group) (mi : nat) (row : list (option term)) : Prop :=
  exists blk theta,
    nth_error blocks mi = Some blk /\
    sup (g_id g) (block_header blk) = Some theta /\
    (* the member's header is an instance of the family header *)
    equivb (apply theta (g_id g)) (block_header blk) = true /\
    (* every key is the re-expression of a bound of the member, and the cell is that bound's
       binding of the key's associated type (or a wildcard when there is none) *)
    Forall2 (fun k cell =>
      exists b, In b (positive_bounds blk) /\
        stable_key theta (b_ty b) (b_path b) = true /\
        (exists kt, In kt (subst_key theta (b_ty b) (b_path b)) /\ key_eqb kt (k_bounded k, k_trait k) = true) /\
        match cell with
        | Some x => exists y, In y (bindings_of (bounds_for_key theta (positive_bounds blk) k) (k_assoc k)) /\ term_eqb x y = true
        | None => bindings_of (bounds_for_key theta (positive_bounds blk) k) (k_assoc k) = []
        end) (g_keys g) row.

Lemma member_ok_inv blocks g mi row : member_ok blocks g mi row = true -> member_inv blocks g mi row.
Proof.
  unfold member_ok, member_inv. destruct (nth_error blocks mi) as [blk|]; [|discriminate].
  destruct (sup (g_id g) (block_header blk)) as [theta|] eqn:Es; [|discriminate].
  intro H. exists blk, theta. repeat split; auto.
  - apply sup_sound; exact Es.
  - apply all2b_forall2 in H. revert H. apply Forall2_impl.
    intros k cell Hc. cbv beta zeta in Hc. apply andb_true_iff in Hc. destruct Hc as [Hne Hcell].
    destruct (bounds_for_key theta (positive_bounds blk) k) as [|b bs] eqn:Eb; [discriminate|].
    assert (Hb : In b (bounds_for_key theta (positive_bounds blk) k)) by (rewrite Eb; left; reflexivity).
    unfold bounds_for_key in Hb. apply filter_In in Hb. destruct Hb as [Hin Hf].
    apply andb_true_iff in Hf. destruct Hf as [Hst Hex].
    apply existsb_exists in Hex. destruct Hex as (kt & Hkt & Hkeq).
    exists b. repeat split; auto; [eauto|].
    destruct cell as [x|].
    + apply existsb_exists in Hcell. destruct Hcell as (y & Hy & Hxy). eauto.
    + destruct (bindings_of (b :: bs) (k_assoc k)); [reflexivity|discriminate].
Qed.

Definition group_inv (blocks : list term) (g : group) : Prop :=
  g_keys g <> [] /\ g_members g <> [] /\
  Forall2 (member_inv blocks g) (g_members g) (g_rows g) /\
  rows_distinct (g_rows g) = true.

Theorem gi_check_sound blocks gs : gi_check blocks gs = true ->
  (* partition *)
  NoDup (flat_map g_members gs) /\
  (forall b, In b blocks -> In (first_index blocks b) (flat_map g_members gs)) /\
  (forall m, In m (flat_map g_members gs) -> m < List.length blocks) /\
  (* per family *)
  Forall (group_inv blocks) gs.
Proof.
  unfold gi_check, partition_ok. intro H.
  apply andb_true_iff in H. destruct H as [Hp Hg].
  apply andb_true_iff in Hp. destruct Hp as [Hp H3]. apply andb_true_iff in Hp. destruct Hp as [H1 H2].
  repeat split.
  - apply nodup_nat_NoDup; exact H1.
  - intros b Hb. rewrite forallb_forall in H2. apply natb_in_In. auto.
  - intros m Hm. rewrite forallb_forall in H3. apply Nat.ltb_lt. auto.
  - rewrite forallb_forall in Hg. apply Forall_forall. intros g Hin. specialize (Hg g Hin).
    unfold group_ok in Hg. repeat (apply andb_true_iff in Hg; destruct Hg as [Hg ?]).
    unfold group_inv. repeat split; auto.
    + destruct (g_keys g); [discriminate | discriminate].
    + destruct (g_members g); [discriminate | discriminate].
    + apply all2b_forall2 in H0. revert H0. apply Forall2_impl. intros; apply member_ok_inv; auto.
Qed.

(* ---- acceptance: distinguishable rows pass the overlap filter ---- *)

(* two cells hold concrete payloads neither of which generalises the other *)
Definition incomparable (c1 c2 : option term) : Prop :=
  match c1, c2 with
  | Some x, Some y => sup x y = None /\ sup y x = None
  | _, _ => False
  end.

(* rows of equal length that are incomparable at some key *)
Inductive distinguishable : list (option term) -> list (option term) -> Prop :=
| dist_here c1 c2 r1 r2 : incomparable c1 c2 -> distinguishable (c1 :: r1) (c2 :: r2)
| dist_later c1 c2 r1 r2 : distinguishable r1 r2 -> distinguishable (c1 :: r1) (c2 :: r2).

Lemma distinguishable_not_generalises r1 r2 :
  distinguishable r1 r2 -> row_generalises r1 r2 = false /\ row_generalises r2 r1 = false.
Proof.
  induction 1 as [c1 c2 r1 r2 H | c1 c2 r1 r2 H IH]; unfold row_generalises in *; simpl.
  - destruct c1 as [x|], c2 as [y|]; simpl in H; try contradiction.
    destruct H as [H1 H2]. rewrite H1, H2. simpl. split; reflexivity.
  - destruct IH as [I1 I2]. rewrite I1, I2. split; apply andb_false_r.
Qed.

Lemma rows_distinct_from_ok r others :
  Forall (distinguishable r) others -> rows_distinct_from r others = true.
Proof.
  intro H. unfold rows_distinct_from. apply forallb_forall. intros o Ho.
  rewrite Forall_forall in H. destruct (distinguishable_not_generalises _ _ (H o Ho)) as [A B].
  rewrite A, B. reflexivity.
Qed.

(* a family whose rows are pairwise distinguishable is never rejected as overlapping *)
Theorem distinguishable_rows_accepted rows :
  ForallOrdPairs distinguishable rows -> rows_distinct rows = true.
Proof.
  induction 1 as [|r rest Hr Hrest IH]; simpl; [reflexivity|].
  rewrite (rows_distinct_from_ok r rest Hr), IH. reflexivity.
Qed.
