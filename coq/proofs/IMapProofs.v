(* proofs/IMapProofs.v -- a hash table whose key type satisfies "equal keys hash equally"
   behaves like the plain association list, whatever the hasher: nothing the macro computes
   can depend on the per-process hash seed. *)
From Coq Require Import List Bool Arith.
Import ListNotations.
From DI Require Import IMap.

Section Proofs.
  Variables K V H : Type.
  Variable keq : K -> K -> bool.
  Variable heq : H -> H -> bool.
  Hypothesis heq_refl : forall h, heq h h = true.

  (* the consistency every key type of the crate must have (derived Hash/Eq of syn nodes,
     Tokenized, and the hand-written TraitBound: C12_hash_agrees) *)
  Definition consistent (hf : K -> H) : Prop := forall a b, keq a b = true -> heq (hf a) (hf b) = true.

  Lemma filter_same hf : consistent hf -> forall e k,
    (heq (hf (fst e)) (hf k) && keq (fst (e : K * V)) k) = keq (fst e) k.
  Proof.
    intros Hc e k. destruct (keq (fst e) k) eqn:E; [rewrite (Hc _ _ E); reflexivity | apply andb_false_r].
  Qed.

  Theorem get_hasher_free hf : consistent hf -> forall m k,
    get_h K V H keq heq hf m k = get_plain K V keq m k.
  Proof.
    intros Hc m k. unfold get_h, get_plain. f_equal.
    induction m as [|e m IH]; simpl; [reflexivity|].
    rewrite (filter_same hf Hc e k). destruct (keq (fst e) k); auto.
  Qed.

  Theorem insert_hasher_free hf : consistent hf -> forall m k v,
    insert_h K V H keq heq hf m k v = insert_plain K V keq m k v.
  Proof.
    intros Hc m k v. induction m as [|[k' v'] m IH]; simpl; [reflexivity|].
    pose proof (filter_same hf Hc (k', v') k) as E. simpl in E. rewrite E.
    destruct (keq k' k); [reflexivity | rewrite IH; reflexivity].
  Qed.

  (* two processes = two hashers: same table contents, same look-ups *)
  Corollary two_hashers hf1 hf2 : consistent hf1 -> consistent hf2 -> forall m k v k2,
    insert_h K V H keq heq hf1 m k v = insert_h K V H keq heq hf2 m k v /\
    get_h K V H keq heq hf1 m k2 = get_h K V H keq heq hf2 m k2.
  Proof.
    intros H1 H2 m k v k2. rewrite !insert_hasher_free, !get_hasher_free by assumption. split; reflexivity.
  Qed.
End Proofs.
