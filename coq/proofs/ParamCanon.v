(* proofs/ParamCanon.v -- blocks equal up to a renaming of their parameters receive the SAME
   canonical block: for injective renamings rl (lifetimes) and rt (type/const names) that leave
   alone every name the resolver leaves as written (`kept`: names that are not parameters of
   the block), canon (alpha_block b) = canon b.  Any renaming of finitely many parameters to
   fresh or permuted names extends to such a pair (swap the old and new names). *)
From Coq Require Import List String Ascii Bool Arith Lia.
Import ListNotations.
From DI Require Import Syntax Param.
From DI.proofs Require Import Basics ParamProofs ParamAlpha.

Lemma label_eta l : K (lk l) (ld l) = l.
Proof. destruct l; reflexivity. Qed.

Lemma ren_eq ix l ks :
  ren ix (Node l ks) =
  let ks' := map (ren ix) ks in
  if is_kind "Lifetime" l || is_kind "PredLifetime" l then
    Node (rename_label l (new_name ix PLt (ld l))) ks'
  else if is_kind "TPath" l || is_kind "EPath" l then
    match ks' with
    | [q'; Node lp (Node ls sargs :: rest)] =>
        if is_kind "Path" lp && is_kind "Seg" ls && no_qself q' then
        match new_name ix PTy (ld ls) with
        | Some n =>
            match rest with
            | [] => if is_kind "TPath" l then mk_ty_param n else mk_ex_param n
            | _ => Node (K (if is_kind "TPath" l then "TPath" else "EPath") "")
                        [qself0 (mk_ty_param n); Node (K "Path" "::") rest]
            end
        | None =>
            match first_seg (Node lp (Node ls sargs :: rest)) with
            | Some (_, true) =>
                match new_name ix PCt (ld ls) with
                | Some n => Node l [q'; Node lp [Node (K "Seg" n) [Node (K "ANone" "") []]]]
                | None => Node l ks'
                end
            | _ => Node l ks'
            end
        end
        else Node l ks'
    | _ => Node l ks'
    end
  else Node l ks'.
Proof. reflexivity. Qed.

Lemma kept_eq ix l ks :
  kept ix (Node l ks) =
  let below := flat_map (kept ix) ks in
  if is_kind "Lifetime" l || is_kind "PredLifetime" l then
    match new_name ix PLt (ld l) with Some _ => below | None => (PLt, ld l) :: below end
  else if is_kind "TPath" l || is_kind "EPath" l then
    match ks with
    | [q; p] =>
        if no_qself q then
        match first_seg p with
        | Some (n, bare) =>
            match new_name ix PTy n with
            | Some _ => below
            | None =>
                if bare then match new_name ix PCt n with Some _ => below | None => (PTy, n) :: below end
                else (PTy, n) :: below
            end
        | None => below
        end
        else below
    | _ => below
    end
  else below.
Proof. reflexivity. Qed.

Lemma kept_below ix l ks : incl (flat_map (kept ix) ks) (kept ix (Node l ks)).
Proof.
  rewrite kept_eq. cbv zeta.
  repeat match goal with
         | |- context [match ?x with _ => _ end] => destruct x
         end; auto using incl_refl, incl_tl.
Qed.

Lemma kept_kid ix l ks x : In x ks -> incl (kept ix x) (kept ix (Node l ks)).
Proof.
  intros Hx e He. apply (kept_below ix l ks). apply in_flat_map. exists x. split; assumption.
Qed.

Lemma is_kind_true_lk k l : is_kind k l = true -> lk l = k.
Proof. apply is_kind_eq. Qed.

Ltac kinds_from H :=
  let Hk := fresh "Hk" in
  pose proof (is_kind_true_lk _ _ H) as Hk; unfold is_kind; rewrite Hk; cbn [String.eqb Ascii.eqb Bool.eqb andb orb].

(* a node that is neither a lifetime nor a type/expression path is renamed child-wise *)
Lemma ren_generic ix l ks :
  is_kind "Lifetime" l || is_kind "PredLifetime" l = false ->
  is_kind "TPath" l = false -> is_kind "EPath" l = false ->
  ren ix (Node l ks) = Node l (map (ren ix) ks).
Proof. intros H1 H2 H3. rewrite ren_eq, H1, H2, H3. reflexivity. Qed.

Lemma is_kind_if_path l : is_kind "TPath" l || is_kind "EPath" l = true ->
  lk (K (if is_kind "TPath" l then "TPath" else "EPath") "") = lk l.
Proof.
  intro H. destruct (is_kind "TPath" l) eqn:Et.
  - apply is_kind_eq in Et. rewrite Et. reflexivity.
  - cbn [orb] in H. apply is_kind_eq in H. rewrite H. reflexivity.
Qed.

Lemma ren_of_kind ix k l ks :
  is_kind k l = true ->
  String.eqb k "Lifetime" = false -> String.eqb k "PredLifetime" = false ->
  String.eqb k "TPath" = false -> String.eqb k "EPath" = false ->
  ren ix (Node l ks) = Node l (map (ren ix) ks).
Proof.
  intros Hk H1 H2 H3 H4. apply ren_generic.
  - rewrite (kind_of_eq _ _ Hk "Lifetime" H1), (kind_of_eq _ _ Hk "PredLifetime" H2). reflexivity.
  - apply (kind_of_eq _ _ Hk); exact H3.
  - apply (kind_of_eq _ _ Hk); exact H4.
Qed.

Lemma ren_kind ix t : lk (tlabel (ren ix t)) = lk (tlabel t).
Proof.
  destruct t as [l ks]. rewrite ren_eq. cbv zeta.
  destruct (is_kind "Lifetime" l || is_kind "PredLifetime" l).
  { destruct (new_name ix PLt (ld l)); reflexivity. }
  destruct (is_kind "TPath" l || is_kind "EPath" l) eqn:Ep; [|reflexivity].
  pose proof (is_kind_if_path l Ep) as Hk. cbn [tlabel].
  destruct (map (ren ix) ks) as [|q' [|[lp [|[ls sargs] rest]] [|]]]; cbn [tlabel]; auto.
  destruct (is_kind "Path" lp && is_kind "Seg" ls && no_qself q'); cbn [tlabel]; auto.
  destruct (new_name ix PTy (ld ls)).
  - destruct rest; [|exact Hk].
    destruct (is_kind "TPath" l) eqn:Et.
    + apply is_kind_eq in Et. rewrite Et. reflexivity.
    + cbn [orb] in Ep. apply is_kind_eq in Ep. rewrite Ep. reflexivity.
  - destruct (first_seg _) as [[? [|]]|]; cbn [tlabel]; auto.
    destruct (new_name ix PCt (ld ls)); cbn [tlabel]; auto.
Qed.

Lemma is_kind_ren ix k t : is_kind k (tlabel (ren ix t)) = is_kind k (tlabel t).
Proof. unfold is_kind. rewrite ren_kind. reflexivity. Qed.

Lemma args_none_ren ix sargs :
  match map (ren ix) sargs with [Node la []] => is_kind "ANone" la | _ => false end =
  match sargs with [Node la []] => is_kind "ANone" la | _ => false end.
Proof.
  destruct sargs as [|a [|b r]]; cbn [map]; try reflexivity.
  - destruct a as [la ka].
    destruct (is_kind "ANone" la) eqn:Ea.
    + rewrite (ren_of_kind ix "ANone" la ka Ea) by reflexivity.
      destruct ka; cbn [map]; [exact Ea|reflexivity].
    + pose proof (is_kind_ren ix "ANone" (Node la ka)) as Hk. cbn [tlabel] in Hk.
      destruct (ren ix (Node la ka)) as [la' ka']. cbn [tlabel] in Hk.
      rewrite Ea in Hk. destruct ka'; [rewrite Hk|]; destruct ka; reflexivity.
  - destruct (ren ix a) as [la' [|]], a as [la [|]]; reflexivity.
Qed.

Lemma first_seg_shape p : (exists n b, first_seg p = Some (n, b)) \/ first_seg p = None.
Proof. destruct (first_seg p) as [[n b]|]; [left; eauto|right; reflexivity]. Qed.

(* a path-shaped node: kind Path, first child of kind Seg *)
Definition shaped (lp ls : label) : bool := is_kind "Path" lp && is_kind "Seg" ls.

Lemma first_seg_node lp ls sargs rest :
  first_seg (Node lp (Node ls sargs :: rest)) =
  if shaped lp ls then
    Some (ld ls, String.eqb (ld lp) "" && (match rest with [] => true | _ => false end) &&
                 (match sargs with [Node la []] => is_kind "ANone" la | _ => false end))
  else None.
Proof. reflexivity. Qed.

Lemma ren_shaped ix lp ls sargs rest :
  shaped lp ls = true ->
  ren ix (Node lp (Node ls sargs :: rest)) = Node lp (Node ls (map (ren ix) sargs) :: map (ren ix) rest).
Proof.
  intro H. apply andb_true_iff in H. destruct H as [Hp Hs].
  rewrite (ren_of_kind ix "Path" lp _ Hp) by reflexivity. cbn [map].
  rewrite (ren_of_kind ix "Seg" ls _ Hs) by reflexivity. reflexivity.
Qed.

Lemma first_seg_none_not_shaped p :
  first_seg p = None ->
  match p with Node lp (Node ls _ :: _) => shaped lp ls = false | _ => True end.
Proof.
  destruct p as [lp [|[ls sargs] rest]]; [trivial|]. rewrite first_seg_node.
  destruct (shaped lp ls); [discriminate|reflexivity].
Qed.

Lemma first_seg_ren_none ix p : first_seg p = None -> first_seg (ren ix p) = None.
Proof.
  intro H. destruct p as [lp ks].
  destruct (is_kind "Path" lp) eqn:Ep.
  - rewrite (ren_of_kind ix "Path" lp ks Ep) by reflexivity.
    destruct ks as [|x rest]; [reflexivity|]. cbn [map].
    pose proof (is_kind_ren ix "Seg" x) as Hk.
    destruct x as [ls sargs], (ren ix (Node ls sargs)) as [ls' sargs']. cbn [tlabel] in Hk.
    rewrite first_seg_node in *. unfold shaped in *. rewrite Ep in *. cbn [andb] in *.
    rewrite Hk. destruct (is_kind "Seg" ls); [discriminate|reflexivity].
  - pose proof (is_kind_ren ix "Path" (Node lp ks)) as Hk. cbn [tlabel] in Hk.
    destruct (ren ix (Node lp ks)) as [lp' [|[ls' sargs'] rest']]; [reflexivity|].
    cbn [tlabel] in Hk. rewrite first_seg_node. unfold shaped. rewrite Hk, Ep. reflexivity.
Qed.

Lemma ren_path_none ix l q p :
  is_kind "Lifetime" l || is_kind "PredLifetime" l = false ->
  first_seg (ren ix p) = None \/ no_qself q = false ->
  ren ix (Node l [q; p]) = Node l [ren ix q; ren ix p].
Proof.
  intros El Hn. rewrite ren_eq, El. cbv zeta. cbn [map].
  destruct (is_kind "TPath" l || is_kind "EPath" l); [|reflexivity].
  destruct (ren ix p) as [lp' [|[ls' sargs'] rest']] eqn:Ep; [reflexivity|].
  destruct Hn as [Hn|Hn].
  - apply first_seg_none_not_shaped in Hn. unfold shaped in Hn. rewrite Hn. reflexivity.
  - unfold no_qself in *. rewrite is_kind_ren, Hn, andb_false_r. reflexivity.
Qed.

Section CanonAlpha.
  Variables rl rt : string -> string.
  Hypothesis rl_inj : forall a b, rl a = rl b -> a = b.
  Hypothesis rt_inj : forall a b, rt a = rt b -> a = b.
  Variable ix : list (pkind * string * nat).

  Notation rk := (rk rl rt).
  Notation alpha := (alpha rl rt).
  Let ix' := map (fun e : pkind * string * nat => (fst (fst e), rk (fst (fst e)) (snd (fst e)), snd e)) ix.

  Lemma nn k n : new_name ix' k (rk k n) = new_name ix k n.
  Proof. apply (new_name_map rl rt rl_inj rt_inj). Qed.

  Definition untouched (t : term) : Prop := forall k n, In (k, n) (kept ix t) -> rk k n = n.

  Lemma untouched_kid l ks x : untouched (Node l ks) -> In x ks -> untouched x.
  Proof. intros H Hx k n Hin. apply H. apply (kept_kid ix l ks x Hx). exact Hin. Qed.

  Lemma map_ren_alpha l ks :
    Forall (fun x => untouched x -> ren ix' (alpha x) = ren ix x) ks ->
    untouched (Node l ks) ->
    map (ren ix') (map alpha ks) = map (ren ix) ks.
  Proof.
    intros IH Hu. rewrite map_map. apply map_ext_in. intros x Hx.
    rewrite Forall_forall in IH. apply IH; [exact Hx|]. apply (untouched_kid l ks); assumption.
  Qed.

  Lemma alpha_shaped lp ls sargs rest :
    shaped lp ls = true ->
    alpha (Node lp (Node ls sargs :: rest)) = Node lp (Node ls (map alpha sargs) :: map alpha rest).
  Proof.
    intro H. apply andb_true_iff in H. destruct H as [Hp Hs].
    rewrite alpha_eq. cbv zeta.
    rewrite (kind_of_eq _ _ Hp "Lifetime"), (kind_of_eq _ _ Hp "PredLifetime"),
            (kind_of_eq _ _ Hp "TPath"), (kind_of_eq _ _ Hp "EPath") by reflexivity.
    cbn [orb map]. rewrite alpha_eq. cbv zeta.
    rewrite (kind_of_eq _ _ Hs "Lifetime"), (kind_of_eq _ _ Hs "PredLifetime"),
            (kind_of_eq _ _ Hs "TPath"), (kind_of_eq _ _ Hs "EPath") by reflexivity.
    reflexivity.
  Qed.

  Lemma rename_first_seg_none p : first_seg p = None -> rename_first_seg rt p = p.
  Proof.
    intro H. apply first_seg_none_not_shaped in H.
    destruct p as [lp [|[ls sargs] rest]]; [reflexivity|].
    unfold shaped in H. cbn [rename_first_seg]. rewrite H. reflexivity.
  Qed.

  (* the two-children path case, shared by type and expression paths *)
  Lemma ren_alpha_path l q p :
    is_kind "Lifetime" l || is_kind "PredLifetime" l = false ->
    is_kind "TPath" l || is_kind "EPath" l = true ->
    (untouched q -> ren ix' (alpha q) = ren ix q) ->
    (untouched p -> ren ix' (alpha p) = ren ix p) ->
    untouched (Node l [q; p]) ->
    ren ix' (if no_qself (alpha q) then Node l [alpha q; rename_first_seg rt (alpha p)]
             else Node l [alpha q; alpha p]) = ren ix (Node l [q; p]).
  Proof.
    intros El Ep IHq IHp Hu.
    assert (Hq : ren ix' (alpha q) = ren ix q).
    { apply IHq. apply (untouched_kid l [q; p]); [exact Hu|left; reflexivity]. }
    assert (Hp : ren ix' (alpha p) = ren ix p).
    { apply IHp. apply (untouched_kid l [q; p]); [exact Hu|right; left; reflexivity]. }
    rewrite (no_qself_alpha rl rt).
    destruct (no_qself q) eqn:Enq.
    2:{ (* after a qualified self nothing is looked at *)
      rewrite (ren_path_none ix' l (alpha q) (alpha p) El)
        by (right; rewrite (no_qself_alpha rl rt); exact Enq).
      rewrite (ren_path_none ix l q p El) by (right; exact Enq).
      rewrite Hq, Hp. reflexivity. }
    destruct (first_seg p) as [[n bare]|] eqn:Efs.
    2:{ (* not path-shaped: the renaming does not look at it *)
      rewrite (rename_first_seg_none (alpha p)) by (rewrite (first_seg_alpha rl rt); exact Efs).
      rewrite (ren_path_none ix' l (alpha q) (alpha p) El).
      - rewrite (ren_path_none ix l q p El) by (left; apply first_seg_ren_none; exact Efs).
        rewrite Hq, Hp. reflexivity.
      - left. rewrite Hp. apply first_seg_ren_none. exact Efs. }
    destruct p as [lp [|[ls sargs] rest]]; [discriminate|].
    rewrite first_seg_node in Efs.
    destruct (shaped lp ls) eqn:Esh; [|discriminate].
    inversion Efs as [[Hn Hbare]]. clear Efs.
    rewrite (alpha_shaped lp ls sargs rest Esh) in *.
    cbn [rename_first_seg]. unfold shaped in Esh. rewrite Esh.
    assert (Esh' : shaped lp (K (lk ls) (rt (ld ls))) = true) by exact Esh.
    assert (Esh0 : shaped lp ls = true) by exact Esh.
    rewrite (ren_shaped ix' lp ls _ _ Esh0) in Hp.
    rewrite (ren_shaped ix lp ls _ _ Esh0) in Hp.
    inversion Hp as [[HS HR]].
    rewrite (ren_eq ix' l), (ren_eq ix l), El, Ep. cbv zeta. cbn [map].
    rewrite Hq.
    rewrite (ren_shaped ix' lp (K (lk ls) (rt (ld ls))) _ _ Esh').
    rewrite (ren_shaped ix lp ls _ _ Esh0).
    rewrite HS, HR.
    set (S := map (ren ix) sargs). set (R := map (ren ix) rest). set (Q := ren ix q).
    assert (EQ : no_qself Q = true).
    { unfold Q, no_qself. rewrite is_kind_ren. exact Enq. }
    assert (Ec : is_kind "Path" lp && is_kind "Seg" (K (lk ls) (rt (ld ls))) = true) by exact Esh.
    rewrite Ec, Esh, EQ. cbn [andb ld K].
    change (rt (ld ls)) with (rk PTy (ld ls)). rewrite nn.
    assert (Hbare' : forall d, first_seg (Node lp (Node (K (lk ls) d) S :: R)) = Some (d, bare)).
    { intro d. rewrite first_seg_node. change (shaped lp (K (lk ls) d)) with (shaped lp ls). rewrite Esh0.
      cbn [ld K]. f_equal. f_equal. rewrite <- Hbare. f_equal.
      - f_equal. unfold R. destruct rest; reflexivity.
      - unfold S. apply args_none_ren. }
    assert (Hbare0 : first_seg (Node lp (Node ls S :: R)) = Some (ld ls, bare)).
    { rewrite <- (label_eta ls) at 1. apply Hbare'. }
    (* what the block says about this occurrence *)
    pose proof Hu as Hu0. unfold untouched in Hu0. rewrite kept_eq in Hu0. cbv zeta in Hu0.
    rewrite El, Ep, Enq in Hu0. rewrite first_seg_node, Esh0, Hbare in Hu0.
    destruct (new_name ix PTy (ld ls)) eqn:E1; [reflexivity|].
    rewrite (Hbare' (rk PTy (ld ls))), Hbare0.
    destruct bare.
    - change (rk PTy (ld ls)) with (rk PCt (ld ls)). rewrite nn.
      destruct (new_name ix PCt (ld ls)) eqn:E2; [reflexivity|].
      assert (Hfix : rk PTy (ld ls) = ld ls) by (apply Hu0; left; reflexivity).
      change (rk PCt (ld ls)) with (rk PTy (ld ls)). rewrite Hfix, label_eta. reflexivity.
    - assert (Hfix : rk PTy (ld ls) = ld ls) by (apply Hu0; left; reflexivity).
      rewrite Hfix, label_eta. reflexivity.
  Qed.

  Theorem ren_alpha t : untouched t -> ren ix' (alpha t) = ren ix t.
  Proof.
    induction t as [l ks IH] using term_ind'. intro Hu.
    pose proof (map_ren_alpha l ks IH Hu) as Hmap.
    rewrite alpha_eq. cbv zeta.
    destruct (is_kind "Lifetime" l || is_kind "PredLifetime" l) eqn:El.
    { rewrite (ren_eq ix'), (ren_eq ix). rewrite !kind_K, El. cbv zeta. rewrite Hmap. cbn [ld K].
      change (rl (ld l)) with (rk PLt (ld l)). rewrite nn.
      unfold untouched in Hu. rewrite kept_eq in Hu. cbv zeta in Hu. rewrite El in Hu.
      destruct (new_name ix PLt (ld l)) eqn:E1; [reflexivity|].
      cbn [rename_label]. rewrite (Hu PLt (ld l)) by (left; reflexivity). rewrite label_eta. reflexivity. }
    destruct (is_kind "TPath" l || is_kind "EPath" l) eqn:Ep.
    { destruct ks as [|q [|p [|x ks]]].
      - cbn [map]. rewrite (ren_eq ix'), (ren_eq ix), El, Ep. reflexivity.
      - cbn [map] in *. rewrite (ren_eq ix'), (ren_eq ix), El, Ep. cbv zeta. cbn [map].
        inversion Hmap as [[Hq]]. rewrite Hq. reflexivity.
      - cbn [map]. inversion IH as [|? ? IHq IH1]; subst. inversion IH1 as [|? ? IHp _]; subst.
        apply ren_alpha_path; assumption.
      - change (map alpha (q :: p :: x :: ks)) with (alpha q :: alpha p :: alpha x :: map alpha ks).
        cbv iota beta.
        rewrite (ren_eq ix'), (ren_eq ix), El, Ep. cbv zeta.
        change (alpha q :: alpha p :: alpha x :: map alpha ks) with (map alpha (q :: p :: x :: ks)).
        rewrite Hmap. reflexivity. }
    apply orb_false_iff in Ep. destruct Ep as [E1 E2].
    rewrite (ren_generic ix' l _ El E1 E2), (ren_generic ix l _ El E1 E2), Hmap. reflexivity.
  Qed.

  Lemma ren_gp_alpha gp :
    (forall k n, In (k, n) (kept_gp ix gp) -> rk k n = n) ->
    ren_gp ix' (alpha_gp rl rt gp) = ren_gp ix gp.
  Proof.
    intro Hu. destruct gp as [l ks].
    assert (Hks : map (ren ix') (map alpha ks) = map (ren ix) ks).
    { rewrite map_map. apply map_ext_in. intros x Hx. apply ren_alpha.
      intros k n Hin. apply Hu. unfold kept_gp. apply in_or_app. right.
      cbn [tkids]. apply in_flat_map. exists x. split; assumption. }
    pose proof (gp_decl_alpha rl rt (Node l ks)) as Hd.
    unfold ren_gp. destruct (alpha_gp rl rt (Node l ks)) as [l' ks'] eqn:Ea.
    rewrite Hd. clear Hd. unfold Param.alpha_gp in Ea.
    destruct (gp_decl (Node l ks)) as [[k n]|] eqn:Eg.
    - inversion Ea; subst l' ks'. rewrite nn, Hks.
      destruct (new_name ix k n) eqn:En; [reflexivity|].
      cbn [rename_label]. rewrite (Hu k n).
      + assert (Hn : n = ld l).
        { unfold gp_decl in Eg. destruct (is_kind "GPLifetime" l); [inversion Eg; reflexivity|].
          destruct (is_kind "GPType" l); [inversion Eg; reflexivity|].
          destruct (is_kind "GPConst" l); [inversion Eg; reflexivity|discriminate]. }
        rewrite Hn, label_eta. reflexivity.
      + unfold kept_gp. rewrite Eg, En. left. reflexivity.
    - inversion Ea; subst l' ks'. rewrite Hks. reflexivity.
  Qed.
End CanonAlpha.

(* ---- the block-level statement ---- *)
Section CanonBlock.
  Variables rl rt : string -> string.
  Hypothesis rl_inj : forall a b, rl a = rl b -> a = b.
  Hypothesis rt_inj : forall a b, rt a = rt b -> a = b.

  Definition where_ok (b : term) : Prop :=
    match b with
    | Node _ [_; _; _; Node lw _; _] => is_kind "Where" lw = true
    | _ => True
    end.

  Theorem canon_alpha b :
    where_ok b ->
    (forall k n, In (k, n) (kept_block b) -> rk rl rt k n = n) ->
    canon (alpha_block rl rt b) = canon b.
  Proof.
    intros Hw Hu.
    destruct b as [lb [|[lg gps] [|tr [|self [|[lw preds] [|items [|]]]]]]]; try reflexivity.
    unfold canon. rewrite (index_block_alpha rl rt rl_inj rt_inj).
    set (ix := indexed (index_block (Node lb [Node lg gps; tr; self; Node lw preds; items]))) in *.
    unfold Param.alpha_block. unfold st_map. cbn [indexed]. fold ix.
    unfold kept_block in Hu. fold ix in Hu.
    cbn [where_ok] in Hw.
    assert (Hwh : Node lw (map (alpha rl rt) preds) = alpha rl rt (Node lw preds)).
    { rewrite (alpha_eq rl rt). cbv zeta.
      rewrite (kind_of_eq _ _ Hw "Lifetime"), (kind_of_eq _ _ Hw "PredLifetime"),
              (kind_of_eq _ _ Hw "TPath"), (kind_of_eq _ _ Hw "EPath") by reflexivity.
      reflexivity. }
    rewrite Hwh.
    rewrite !(ren_alpha rl rt rl_inj rt_inj ix).
    - f_equal. f_equal. f_equal. rewrite map_map. apply map_ext_in. intros gp Hgp.
      apply (ren_gp_alpha rl rt rl_inj rt_inj ix). intros k n Hin. apply Hu.
      apply in_or_app. left. apply in_flat_map. exists gp. split; assumption.
    - intros k n Hin. apply Hu. repeat (apply in_or_app; right). exact Hin.
    - intros k n Hin. apply Hu. do 3 (apply in_or_app; right). apply in_or_app. left. exact Hin.
    - intros k n Hin. apply Hu. do 2 (apply in_or_app; right). apply in_or_app. left. exact Hin.
    - intros k n Hin. apply Hu. apply in_or_app; right. apply in_or_app. left. exact Hin.
  Qed.
End CanonBlock.
