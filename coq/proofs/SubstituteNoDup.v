(* proofs/SubstituteNoDup.v -- C10, "exactly one re-expression per way of choosing": the
   enumeration of re-expressions never lists the same result twice, for every substitution
   with one entry per parameter (what the matcher reports) and every term. *)
From Coq Require Import List String Bool.
Import ListNotations.
From DI Require Import Syntax Subs Substitute.
From DI.proofs Require Import Basics SubstituteProofs SubstituteSpec.

Lemma NoDup_map_inj {A B} (f : A -> B) l :
  (forall x y, f x = f y -> x = y) -> NoDup l -> NoDup (map f l).
Proof.
  intros Hinj Hnd. induction Hnd as [|x l Hx Hl IH]; simpl; constructor; [|exact IH].
  intro Hin. apply in_map_iff in Hin. destruct Hin as (y & Ey & Hy).
  apply Hinj in Ey. subst y. contradiction.
Qed.

Lemma NoDup_app_intro {A} (l1 l2 : list A) :
  NoDup l1 -> NoDup l2 -> (forall x, In x l1 -> In x l2 -> False) -> NoDup (l1 ++ l2).
Proof.
  intros H1 H2. induction H1 as [|x l Hx Hl IH]; simpl; intro Hd; [exact H2|].
  constructor.
  - intro Hin. apply in_app_or in Hin. destruct Hin as [Hin|Hin]; [contradiction|].
    apply (Hd x); [left; reflexivity|exact Hin].
  - apply IH. intros y Hy. apply Hd. right. exact Hy.
Qed.

Lemma NoDup_flat_map {A B} (f : A -> list B) l :
  NoDup l -> (forall x, In x l -> NoDup (f x)) ->
  (forall x y z, In x l -> In y l -> In z (f x) -> In z (f y) -> x = y) ->
  NoDup (flat_map f l).
Proof.
  intros Hnd. induction Hnd as [|x l Hx Hl IH]; simpl; intros Hf Hdisj; [constructor|].
  apply NoDup_app_intro.
  - apply Hf. left. reflexivity.
  - apply IH; [intros; apply Hf; right; assumption|].
    intros a b z Ha Hb. apply Hdisj; right; assumption.
  - intros z Hz Hin. apply in_flat_map in Hin. destruct Hin as (y & Hy & Hzy).
    assert (E : x = y) by (apply (Hdisj x y z); [left; reflexivity|right; exact Hy|exact Hz|exact Hzy]).
    subst y. contradiction.
Qed.

Lemma NoDup_cprod {A} (xss : list (list A)) :
  Forall (@NoDup A) xss -> NoDup (cprod xss).
Proof.
  intro H. induction H as [|xs rest Hxs Hrest IH]; cbn [cprod]; [repeat constructor; intros []|].
  apply NoDup_flat_map; [exact Hxs| |].
  - intros x _. apply NoDup_map_inj; [|exact IH]. intros a b E. inversion E. reflexivity.
  - intros x y z _ _ Hx Hy. apply in_map_iff in Hx. apply in_map_iff in Hy.
    destruct Hx as (a & Ea & _). destruct Hy as (b & Eb & _). subst z. inversion Eb. reflexivity.
Qed.

Lemma mk_ty_param_inj p q : mk_ty_param p = mk_ty_param q -> p = q.
Proof. unfold mk_ty_param, mk_path_ident. intro E. inversion E. reflexivity. Qed.

Lemma mk_ex_param_inj p q : mk_ex_param p = mk_ex_param q -> p = q.
Proof. unfold mk_ex_param, mk_path_ident. intro E. inversion E. reflexivity. Qed.

Lemma NoDup_filter_fst (s : subs) f : NoDup (map fst s) -> NoDup (map fst (filter f s)).
Proof.
  induction s as [|[p v] s IH]; simpl; intro H; [constructor|].
  inversion H as [|? ? Hp Hs]; subst.
  destruct (f (p, v)); simpl; [|apply IH; exact Hs].
  constructor; [|apply IH; exact Hs].
  intro Hin. apply Hp. apply in_map_iff in Hin. destruct Hin as ([q w] & Eq & Hq).
  apply filter_In in Hq. destruct Hq as [Hq _]. simpl in Eq. subst q.
  apply in_map_iff. exists (p, w). split; [reflexivity|exact Hq].
Qed.

Lemma candidates_nodup s v : NoDup (map fst s) -> v <> VIdentity -> NoDup (candidates s v).
Proof.
  intros Hnd Hv. unfold candidates.
  assert (Hb : NoDup (bound_to s v)) by (apply NoDup_filter_fst; exact Hnd).
  destruct (bound_to s v) as [|p0 ps] eqn:Eb; [constructor|]. rewrite <- Eb in *.
  apply NoDup_app_intro; [exact Hb| |].
  - unfold spells_identity. destruct (self_param v) as [p|]; [|constructor].
    destruct (lookup s p) as [[?|?|]|]; repeat constructor; intros [].
  - intros p Hp Hid. unfold spells_identity in Hid.
    destruct (self_param v) as [q|]; [|contradiction].
    destruct (lookup s q) as [[?|?|]|] eqn:El; try contradiction.
    destruct Hid as [Hid|[]]. subst q.
    unfold bound_to in Hp. apply in_map_iff in Hp. destruct Hp as ([p' w] & Ep & Hin).
    simpl in Ep. subst p'. apply filter_In in Hin. destruct Hin as [Hin Hw]. simpl in Hw.
    apply value_eqb_eq in Hw. subst w.
    rewrite (lookup_in_nodup s Hnd p v Hin) in El. inversion El. contradiction.
Qed.

Theorem subst_spec_nodup s : NoDup (map fst s) -> forall t, NoDup (subst_spec s t).
Proof.
  intro Hnd. induction t as [l ks IH] using term_ind'. cbn [subst_spec]. cbv zeta.
  assert (Hd : NoDup (map (Node l) (cprod (map (subst_spec s) ks)))).
  { apply NoDup_map_inj; [intros a b E; inversion E; reflexivity|].
    apply NoDup_cprod. apply Forall_map. exact IH. }
  destruct (is_type_kind l).
  { pose proof (candidates_nodup s (VType (Node l ks)) Hnd) as Hc.
    destruct (candidates s (VType (Node l ks))) as [|p ps]; [exact Hd|].
    apply NoDup_map_inj; [exact mk_ty_param_inj|]. apply Hc. discriminate. }
  destruct (is_expr_kind l); [|exact Hd].
  pose proof (candidates_nodup s (VExpr (Node l ks)) Hnd) as Hc.
  destruct (candidates s (VExpr (Node l ks))) as [|p ps]; [exact Hd|].
  apply NoDup_map_inj; [exact mk_ex_param_inj|]. apply Hc. discriminate.
Qed.

Theorem subst_key_nodup s b t : NoDup (map fst s) -> NoDup (subst_key s b t).
Proof.
  intro Hnd. rewrite subst_key_is_spec. unfold spec_key.
  apply NoDup_flat_map; [apply subst_spec_nodup; exact Hnd| |].
  - intros x _. apply NoDup_map_inj; [intros a c E; inversion E; reflexivity|].
    apply subst_spec_nodup. exact Hnd.
  - intros x y z _ _ Hx Hy. apply in_map_iff in Hx. apply in_map_iff in Hy.
    destruct Hx as (a & Ea & _). destruct Hy as (c & Ec & _). subst z. inversion Ec. reflexivity.
Qed.
