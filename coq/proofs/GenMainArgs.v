(* proofs/GenMainArgs.v -- trait-argument fidelity of the main impl (C16): the maps that replace
   the main trait's parameters inside the generated main impl (`zip_params`, the model of
   `resolve_main_trait_params`) send every type parameter of the trait to the argument the block
   wrote at ITS position, whatever the mix of lifetime / type / const parameters around it, and
   every omitted parameter to its declared default. *)
From Coq Require Import List String Ascii Bool Arith Lia.
Import ListNotations.
From DI Require Import Syntax Bounds Subs Group Search Gen GenMain.
From DI.proofs Require Import Basics ParamAlpha.

Definition pname (tp : term) : string := ld (tlabel tp).

Lemma sget_filter_neq {A} (l : list (string * A)) n0 n :
  n <> n0 -> sget (filter (fun e => negb (String.eqb (fst e) n0)) l) n = sget l n.
Proof.
  intro Hne. induction l as [|[k v] l IH]; [reflexivity|]. cbn [filter fst sget].
  destruct (String.eqb_spec k n0) as [->|Hk]; cbn [negb].
  - rewrite IH. destruct (String.eqb_spec n0 n) as [->|_]; [contradiction Hne; reflexivity|reflexivity].
  - cbn [sget]. rewrite IH. reflexivity.
Qed.

(* one step of zip_params, as a function *)
Definition zip_step (tp arg : term) (m : maps) : option maps :=
  let n := ld (tlabel tp) in
  if is_kind "GPLifetime" (tlabel tp) && is_kind "Lifetime" (tlabel arg) then
    Some {| lt_map := lt_map m ++ [(n, ld (tlabel arg))]; ty_map := ty_map m; ct_map := ct_map m |}
  else if is_kind "GPTypeD" (tlabel tp) && is_kind "GType" (tlabel arg) then
    match tkids arg with
    | [ty] => Some {| lt_map := lt_map m; ty_map := (n, ty) :: filter (fun e => negb (String.eqb (fst e) n)) (ty_map m); ct_map := ct_map m |}
    | _ => None
    end
  else if is_kind "GPConstD" (tlabel tp) && is_kind "GConst" (tlabel arg) then
    match tkids arg with
    | [e] => Some {| lt_map := lt_map m; ty_map := ty_map m; ct_map := (n, e) :: filter (fun e' => negb (String.eqb (fst e') n)) (ct_map m) |}
    | _ => None
    end
  else if is_kind "GPConstD" (tlabel tp) && is_kind "GType" (tlabel arg) then
    match tkids arg with
    | [ty] => match bare_name ty with
              | Some x => Some {| lt_map := lt_map m; ty_map := ty_map m;
                                  ct_map := (n, mk_ex_param x) :: filter (fun e' => negb (String.eqb (fst e') n)) (ct_map m) |}
              | None => None
              end
    | _ => None
    end
  else None.

Lemma zip_params_cons tp tps arg args m :
  zip_params (tp :: tps) (arg :: args) m =
  match zip_step tp arg m with Some m'' => zip_params tps args m'' | None => None end.
Proof. reflexivity. Qed.

Lemma zip_params_nil_args tps m : zip_params tps [] m = Some m.
Proof. destruct tps; reflexivity. Qed.

Lemma zip_step_ty_other tp arg m m'' n :
  zip_step tp arg m = Some m'' -> n <> pname tp -> sget (ty_map m'') n = sget (ty_map m) n.
Proof.
  unfold zip_step, pname. intros H Hne.
  destruct (is_kind "GPLifetime" (tlabel tp) && is_kind "Lifetime" (tlabel arg)); [inversion H; reflexivity|].
  destruct (is_kind "GPTypeD" (tlabel tp) && is_kind "GType" (tlabel arg)).
  { destruct (tkids arg) as [|ty [|]]; try discriminate. inversion H. cbn [ty_map sget].
    destruct (String.eqb_spec (ld (tlabel tp)) n) as [E|_]; [symmetry in E; contradiction|].
    apply sget_filter_neq. exact Hne. }
  destruct (is_kind "GPConstD" (tlabel tp) && is_kind "GConst" (tlabel arg)).
  { destruct (tkids arg) as [|e [|]]; try discriminate. inversion H. reflexivity. }
  destruct (is_kind "GPConstD" (tlabel tp) && is_kind "GType" (tlabel arg)); [|discriminate].
  destruct (tkids arg) as [|ty [|]]; try discriminate. destruct (bare_name ty); [|discriminate].
  inversion H. reflexivity.
Qed.

Lemma zip_step_ct_other tp arg m m'' n :
  zip_step tp arg m = Some m'' -> n <> pname tp -> sget (ct_map m'') n = sget (ct_map m) n.
Proof.
  unfold zip_step, pname. intros H Hne.
  destruct (is_kind "GPLifetime" (tlabel tp) && is_kind "Lifetime" (tlabel arg)); [inversion H; reflexivity|].
  destruct (is_kind "GPTypeD" (tlabel tp) && is_kind "GType" (tlabel arg)).
  { destruct (tkids arg) as [|ty [|]]; try discriminate. inversion H. reflexivity. }
  destruct (is_kind "GPConstD" (tlabel tp) && is_kind "GConst" (tlabel arg)).
  { destruct (tkids arg) as [|e [|]]; try discriminate. inversion H. cbn [ct_map sget].
    destruct (String.eqb_spec (ld (tlabel tp)) n) as [E|_]; [symmetry in E; contradiction|].
    apply sget_filter_neq. exact Hne. }
  destruct (is_kind "GPConstD" (tlabel tp) && is_kind "GType" (tlabel arg)); [|discriminate].
  destruct (tkids arg) as [|ty [|]]; try discriminate. destruct (bare_name ty); [|discriminate].
  inversion H. cbn [ct_map sget].
  destruct (String.eqb_spec (ld (tlabel tp)) n) as [E|_]; [symmetry in E; contradiction|].
  apply sget_filter_neq. exact Hne.
Qed.

Lemma zip_preserve tps : forall args m m' n,
  zip_params tps args m = Some m' -> ~ In n (map pname tps) ->
  sget (ty_map m') n = sget (ty_map m) n /\ sget (ct_map m') n = sget (ct_map m) n.
Proof.
  induction tps as [|tp tps IH]; intros [|arg args] m m' n H Hn.
  - inversion H; split; reflexivity.
  - discriminate.
  - inversion H; split; reflexivity.
  - rewrite zip_params_cons in H. destruct (zip_step tp arg m) as [m''|] eqn:Es; [|discriminate].
    cbn [map] in Hn.
    assert (Hne : n <> pname tp) by (intro E; apply Hn; left; symmetry; exact E).
    destruct (IH args m'' m' n H) as [H1 H2]; [intro Hin; apply Hn; right; exact Hin|].
    rewrite H1, H2. split; [apply (zip_step_ty_other tp arg m m'' n Es Hne)|apply (zip_step_ct_other tp arg m m'' n Es Hne)].
Qed.

(* the argument written at the position of a type parameter is what the parameter stands for *)
Theorem zip_type_at tps : forall args m m' i tp ty la,
  NoDup (map pname tps) -> zip_params tps args m = Some m' ->
  nth_error tps i = Some tp -> nth_error args i = Some (Node la [ty]) ->
  is_kind "GPTypeD" (tlabel tp) = true -> is_kind "GType" la = true ->
  sget (ty_map m') (pname tp) = Some ty.
Proof.
  induction tps as [|tp0 tps IH]; intros args m m' i tp ty la Hnd H Ht Ha Hk Hg.
  - destruct i; discriminate.
  - destruct args as [|arg args]; [destruct i; discriminate|].
    rewrite zip_params_cons in H. destruct (zip_step tp0 arg m) as [m''|] eqn:Es; [|discriminate].
    inversion Hnd as [|? ? Hnotin Hnd']; subst.
    destruct i as [|i].
    + cbn [nth_error] in Ht, Ha. inversion Ht; inversion Ha; subst tp0 arg.
      destruct (zip_preserve tps args m'' m' (pname tp) H Hnotin) as [H1 _]. rewrite H1.
      unfold zip_step in Es. cbn [tlabel tkids] in Es.
      rewrite (kind_of_eq _ _ Hk "GPLifetime") in Es by reflexivity. cbn [andb] in Es.
      rewrite Hk, Hg in Es. cbn [andb] in Es. inversion Es. cbn [ty_map sget]. unfold pname.
      rewrite String.eqb_refl. reflexivity.
    + cbn [nth_error] in Ht, Ha. apply (IH args m'' m' i tp ty la Hnd' H Ht Ha Hk Hg).
Qed.

(* the same for a const parameter given a const argument *)
Theorem zip_const_at tps : forall args m m' i tp e la,
  NoDup (map pname tps) -> zip_params tps args m = Some m' ->
  nth_error tps i = Some tp -> nth_error args i = Some (Node la [e]) ->
  is_kind "GPConstD" (tlabel tp) = true -> is_kind "GConst" la = true ->
  sget (ct_map m') (pname tp) = Some e.
Proof.
  induction tps as [|tp0 tps IH]; intros args m m' i tp e la Hnd H Ht Ha Hk Hg.
  - destruct i; discriminate.
  - destruct args as [|arg args]; [destruct i; discriminate|].
    rewrite zip_params_cons in H. destruct (zip_step tp0 arg m) as [m''|] eqn:Es; [|discriminate].
    inversion Hnd as [|? ? Hnotin Hnd']; subst.
    destruct i as [|i].
    + cbn [nth_error] in Ht, Ha. inversion Ht; inversion Ha; subst tp0 arg.
      destruct (zip_preserve tps args m'' m' (pname tp) H Hnotin) as [_ H2]. rewrite H2.
      unfold zip_step in Es. cbn [tlabel tkids] in Es.
      rewrite (kind_of_eq _ _ Hk "GPLifetime"), (kind_of_eq _ _ Hk "GPTypeD") in Es by reflexivity.
      cbn [andb] in Es. rewrite Hk, Hg in Es. cbn [andb] in Es. inversion Es. cbn [ct_map sget]. unfold pname.
      rewrite String.eqb_refl. reflexivity.
    + cbn [nth_error] in Ht, Ha. apply (IH args m'' m' i tp e la Hnd' H Ht Ha Hk Hg).
Qed.

(* an omitted type parameter stands for its declared default *)
Lemma sget_flat_map_default (omitted : list term) tp d rest ty :
  NoDup (map pname omitted) -> In tp omitted ->
  is_kind "GPTypeD" (tlabel tp) = true -> tkids tp = d :: rest -> opt_kid d = Some ty ->
  sget (ty_map (default_maps omitted)) (pname tp) = Some ty.
Proof.
  unfold default_maps. cbn [ty_map]. induction omitted as [|x l IH]; intros Hnd Hin Hk Hd Ho; [destruct Hin|].
  inversion Hnd as [|? ? Hnotin Hnd']; subst. cbn [flat_map].
  destruct Hin as [->|Hin].
  - rewrite Hk, Hd, Ho. cbn [app sget]. unfold pname. rewrite String.eqb_refl. reflexivity.
  - assert (Hne : pname x <> pname tp).
    { intro E. apply Hnotin. rewrite E. apply in_map. exact Hin. }
    assert (Hskip : forall pre, (forall k v, In (k, v) pre -> k = pname x) ->
              sget (pre ++ flat_map (fun tp0 => if is_kind "GPTypeD" (tlabel tp0) then
                       match tkids tp0 with d0 :: _ => match opt_kid d0 with Some ty0 => [(ld (tlabel tp0), ty0)] | None => [] end | [] => [] end
                     else []) l) (pname tp) =
              sget (flat_map (fun tp0 => if is_kind "GPTypeD" (tlabel tp0) then
                       match tkids tp0 with d0 :: _ => match opt_kid d0 with Some ty0 => [(ld (tlabel tp0), ty0)] | None => [] end | [] => [] end
                     else []) l) (pname tp)).
    { induction pre as [|[k v] pre IHp]; intro Hall; [reflexivity|]. cbn [app sget].
      rewrite (Hall k v (or_introl eq_refl)).
      destruct (String.eqb_spec (pname x) (pname tp)) as [E|_]; [contradiction|].
      apply IHp. intros k' v' H'. apply (Hall k' v'). right. exact H'. }
    rewrite Hskip; [apply IH; assumption|].
    intros k v Hkv. destruct (is_kind "GPTypeD" (tlabel x)); [|destruct Hkv].
    destruct (tkids x) as [|d0 r0]; [destruct Hkv|]. destruct (opt_kid d0); [|destruct Hkv].
    destruct Hkv as [E|[]]. inversion E. reflexivity.
Qed.

Lemma NoDup_app_parts {A} (l1 l2 : list A) :
  NoDup (l1 ++ l2) -> NoDup l2 /\ (forall x, In x l1 -> In x l2 -> False).
Proof.
  induction l1 as [|a l1 IH]; cbn [app]; intro H; [split; [exact H|intros x []]|].
  inversion H as [|? ? Hnotin Hnd]; subst. destruct (IH Hnd) as [H2 Hd]. split; [exact H2|].
  intros x [->|Hx] Hx2; [apply Hnotin; apply in_or_app; right; exact Hx2|exact (Hd x Hx Hx2)].
Qed.

Theorem zip_default_type tps args m' tp d rest ty :
  NoDup (map pname tps) ->
  zip_params tps args (default_maps (skipn (List.length args) tps)) = Some m' ->
  In tp (skipn (List.length args) tps) ->
  is_kind "GPTypeD" (tlabel tp) = true -> tkids tp = d :: rest -> opt_kid d = Some ty ->
  sget (ty_map m') (pname tp) = Some ty.
Proof.
  intros Hnd H Hin Hk Hd Ho.
  assert (Hsplit : tps = firstn (List.length args) tps ++ skipn (List.length args) tps) by (symmetry; apply firstn_skipn).
  assert (Hnd2 : NoDup (map pname (skipn (List.length args) tps))).
  { rewrite Hsplit, map_app in Hnd. exact (proj1 (NoDup_app_parts _ _ Hnd)). }
  (* zip only touches the first |args| parameters *)
  assert (Hz : forall tps args m m', zip_params tps args m = Some m' ->
               forall n, ~ In n (map pname (firstn (List.length args) tps)) ->
               sget (ty_map m') n = sget (ty_map m) n).
  { clear. induction tps as [|tp tps IH]; intros [|arg args] m m' H n Hn.
    - inversion H; reflexivity.
    - discriminate.
    - inversion H; reflexivity.
    - rewrite zip_params_cons in H. destruct (zip_step tp arg m) as [m''|] eqn:Es; [|discriminate].
      cbn [List.length firstn map] in Hn.
      rewrite (IH args m'' m' H n) by (intro Hin; apply Hn; right; exact Hin).
      apply (zip_step_ty_other tp arg m m'' n Es). intro E. apply Hn. left. symmetry. exact E. }
  rewrite (Hz tps args _ m' H).
  - apply (sget_flat_map_default _ tp d rest ty Hnd2 Hin Hk Hd Ho).
  - intro Hin1. rewrite Hsplit, map_app in Hnd.
    apply (proj2 (NoDup_app_parts _ _ Hnd) (pname tp)); [exact Hin1|apply in_map; exact Hin].
Qed.
