(* proofs/ParamAlpha.v -- canonical numbering is invariant under consistent renaming of a
   block's parameters (any injective renaming of lifetimes and of type/const names) and under
   permutation of nothing it does not look at: the indexer commutes with alpha-renaming. *)
From Coq Require Import List String Ascii Bool Arith Lia.
Import ListNotations.
From DI Require Import Syntax Param.
From DI.proofs Require Import Basics ParamProofs.

Section AlphaProofs.
  Variables rl rt : string -> string.
  Hypothesis rl_inj : forall a b, rl a = rl b -> a = b.
  Hypothesis rt_inj : forall a b, rt a = rt b -> a = b.

  Notation rk := (rk rl rt).
  Notation alpha := (alpha rl rt).
  Notation st_map := (st_map rl rt).

  Lemma rk_inj k a b : rk k a = rk k b -> a = b.
  Proof. destruct k; simpl; auto. Qed.

  Lemma eqb_rk k a b : String.eqb (rk k a) (rk k b) = String.eqb a b.
  Proof.
    destruct (String.eqb a b) eqn:E.
    - apply String.eqb_eq in E; subst; apply String.eqb_refl.
    - destruct (String.eqb (rk k a) (rk k b)) eqn:E'; auto.
      apply String.eqb_eq in E'. apply rk_inj in E'. subst. rewrite String.eqb_refl in E. discriminate.
  Qed.

  Lemma pkind_eqb_eq a b : pkind_eqb a b = true -> a = b.
  Proof. destruct a, b; simpl; intro H; try discriminate; reflexivity. Qed.

  Lemma key_test_map k n (e : pkind * string) :
    (pkind_eqb (fst e) k && String.eqb (rk (fst e) (snd e)) (rk k n)) =
    (pkind_eqb (fst e) k && String.eqb (snd e) n).
  Proof.
    destruct (pkind_eqb (fst e) k) eqn:E; [|reflexivity].
    apply pkind_eqb_eq in E. rewrite E. simpl. apply eqb_rk.
  Qed.

  Lemma is_unindexed_map st k n : is_unindexed (st_map st) k (rk k n) = is_unindexed st k n.
  Proof.
    unfold is_unindexed, Param.st_map. cbn [unindexed].
    induction (unindexed st) as [|e l IH]; simpl; [reflexivity|].
    rewrite IH. f_equal. apply key_test_map.
  Qed.

  Lemma filter_unindexed_map l k n :
    filter (fun e => negb (pkind_eqb (fst e) k && String.eqb (snd e) (rk k n)))
           (map (fun e : pkind * string => (fst e, rk (fst e) (snd e))) l) =
    map (fun e => (fst e, rk (fst e) (snd e)))
        (filter (fun e => negb (pkind_eqb (fst e) k && String.eqb (snd e) n)) l).
  Proof.
    induction l as [|e l IH]; simpl; [reflexivity|].
    rewrite (key_test_map k n e). destruct (negb _); simpl; rewrite IH; reflexivity.
  Qed.

  Lemma try_index_map st k n :
    try_index (st_map st) k (rk k n) = (st_map (fst (try_index st k n)), snd (try_index st k n)).
  Proof.
    unfold try_index. rewrite is_unindexed_map. destruct (is_unindexed st k n); [|reflexivity].
    cbn [fst snd]. f_equal. unfold Param.st_map. cbn [unindexed indexed counter].
    rewrite filter_unindexed_map, map_app. reflexivity.
  Qed.

  (* relabelling the data of a node that is neither a lifetime nor a path does not change
     what the indexer sees *)
  Lemma index_term_relabel st l l' ks :
    lk l = lk l' -> is_kind "Lifetime" l || is_kind "PredLifetime" l = false ->
    is_kind "TPath" l = false -> is_kind "EPath" l = false ->
    index_term st (Node l' ks) = index_term st (Node l ks).
  Proof.
    intros Hk H1 H2 H3. rewrite !index_term_eq.
    unfold is_kind in *. rewrite <- Hk. rewrite H1, H2, H3. reflexivity.
  Qed.

  Lemma first_seg_rename p :
    first_seg (rename_first_seg rt p) =
    match first_seg p with Some (n, bare) => Some (rt n, bare) | None => None end.
  Proof.
    destruct p as [lp [|[ls sargs] rest]]; simpl; try reflexivity.
    destruct (is_kind "Path" lp && is_kind "Seg" ls) eqn:E; simpl; [|rewrite E; reflexivity].
    unfold is_kind in *. simpl. rewrite E. reflexivity.
  Qed.

  Lemma fold_map_commute ks :
    Forall (fun k => forall st, index_term (st_map st) (alpha k) = st_map (index_term st k)) ks ->
    forall st, fold_left index_term (map alpha ks) (st_map st) = st_map (fold_left index_term ks st).
  Proof.
    induction 1 as [|k ks Hk Hks IH]; simpl; intro st; [reflexivity|].
    rewrite Hk. apply IH.
  Qed.

  Lemma kind_K l d k : is_kind k (K (lk l) d) = is_kind k l.
  Proof. reflexivity. Qed.

  Lemma kind_of_eq k l : is_kind k l = true -> forall k', String.eqb k k' = false -> is_kind k' l = false.
  Proof.
    unfold is_kind. intros H k' Hk. apply String.eqb_eq in H. rewrite H. exact Hk.
  Qed.

  (* the path child after renaming its first segment is indexed like the un-renamed one *)
  Lemma index_renamed_path st p : index_term st (rename_first_seg rt p) = index_term st p.
  Proof.
    destruct p as [lp [|[ls sargs] rest]]; simpl; try reflexivity.
    destruct (is_kind "Path" lp && is_kind "Seg" ls) eqn:E; [|reflexivity].
    apply andb_true_iff in E. destruct E as [Ep Es].
    rewrite !index_term_eq.
    rewrite (kind_of_eq _ _ Ep "Lifetime"), (kind_of_eq _ _ Ep "PredLifetime"),
            (kind_of_eq _ _ Ep "TPath"), (kind_of_eq _ _ Ep "EPath") by reflexivity.
    cbn [orb fold_left]. f_equal.
    apply index_term_relabel; try reflexivity.
    - rewrite (kind_of_eq _ _ Es "Lifetime"), (kind_of_eq _ _ Es "PredLifetime") by reflexivity. reflexivity.
    - apply (kind_of_eq _ _ Es); reflexivity.
    - apply (kind_of_eq _ _ Es); reflexivity.
  Qed.

  Lemma alpha_eq l ks :
    alpha (Node l ks) =
    let ks' := map alpha ks in
    if is_kind "Lifetime" l || is_kind "PredLifetime" l then Node (K (lk l) (rl (ld l))) ks'
    else if is_kind "TPath" l || is_kind "EPath" l then
      match ks' with
      | [q; p] => if no_qself q then Node l [q; rename_first_seg rt p] else Node l ks'
      | _ => Node l ks'
      end
    else Node l ks'.
  Proof. reflexivity. Qed.

  Lemma alpha_kind t : lk (tlabel (alpha t)) = lk (tlabel t).
  Proof.
    destruct t as [l ks]. rewrite alpha_eq. cbv zeta.
    destruct (is_kind "Lifetime" l || is_kind "PredLifetime" l); [reflexivity|].
    destruct (is_kind "TPath" l || is_kind "EPath" l); [|reflexivity].
    destruct (map alpha ks) as [|q [|p [|]]]; try reflexivity.
    destruct (no_qself q); reflexivity.
  Qed.

  Lemma no_qself_alpha q : no_qself (alpha q) = no_qself q.
  Proof. unfold no_qself, is_kind. rewrite alpha_kind. reflexivity. Qed.

  Lemma alpha_kids_len t : List.length (tkids (alpha t)) = List.length (tkids t).
  Proof.
    destruct t as [l ks]. rewrite alpha_eq. cbv zeta.
    destruct (is_kind "Lifetime" l || is_kind "PredLifetime" l); [cbn [tkids]; apply map_length|].
    destruct (is_kind "TPath" l || is_kind "EPath" l); [|cbn [tkids]; apply map_length].
    destruct ks as [|q [|p [|x r]]]; cbn [map tkids List.length]; try reflexivity.
    - destruct (no_qself (alpha q)); reflexivity.
    - rewrite map_length. reflexivity.
  Qed.

  Lemma args_none_alpha sargs :
    match map alpha sargs with [Node la []] => is_kind "ANone" la | _ => false end =
    match sargs with [Node la []] => is_kind "ANone" la | _ => false end.
  Proof.
    destruct sargs as [|a [|b r]]; cbn [map]; try reflexivity.
    - pose proof (alpha_kind a) as Hk. pose proof (alpha_kids_len a) as Hl.
      destruct (alpha a) as [la' ka'], a as [la ka]. cbn [tlabel tkids] in *.
      destruct ka, ka'; cbn [List.length] in Hl; try discriminate; try reflexivity.
      unfold is_kind. rewrite Hk. reflexivity.
    - destruct (alpha a) as [la' [|]], a as [la [|]]; reflexivity.
  Qed.

  Lemma first_seg_alpha p : first_seg (alpha p) = first_seg p.
  Proof.
    destruct p as [lp ks]. rewrite alpha_eq. cbv zeta.
    destruct (is_kind "Path" lp) eqn:Ep.
    - rewrite (kind_of_eq _ _ Ep "Lifetime"), (kind_of_eq _ _ Ep "PredLifetime"),
              (kind_of_eq _ _ Ep "TPath"), (kind_of_eq _ _ Ep "EPath") by reflexivity.
      cbn [orb]. destruct ks as [|[ls sargs] rest]; [reflexivity|].
      cbn [map first_seg]. rewrite Ep. cbn [andb].
      destruct (is_kind "Seg" ls) eqn:Es.
      + rewrite alpha_eq. cbv zeta.
        rewrite (kind_of_eq _ _ Es "Lifetime"), (kind_of_eq _ _ Es "PredLifetime"),
                (kind_of_eq _ _ Es "TPath"), (kind_of_eq _ _ Es "EPath") by reflexivity.
        cbn [orb]. rewrite Es. f_equal. f_equal. f_equal.
        * destruct rest; reflexivity.
        * apply args_none_alpha.
      + pose proof (alpha_kind (Node ls sargs)) as Hk. destruct (alpha (Node ls sargs)) as [ls' sargs'].
        cbn [tlabel] in Hk. unfold is_kind in *. rewrite Hk, Es. reflexivity.
    - assert (H : forall t, lk (tlabel t) = lk lp -> first_seg t = None).
      { intros [l' [|[ls sargs] rest]] Hk; simpl; try reflexivity.
        cbn [tlabel] in Hk. unfold is_kind in *. rewrite Hk, Ep. reflexivity. }
      rewrite (H (Node lp ks) eq_refl).
      destruct (is_kind "Lifetime" lp || is_kind "PredLifetime" lp); [apply H; reflexivity|].
      destruct (is_kind "TPath" lp || is_kind "EPath" lp); [|apply H; reflexivity].
      destruct (map alpha ks) as [|q [|p [|]]]; try (apply H; reflexivity).
      destruct (no_qself q); apply H; reflexivity.
  Qed.

  (* the indexer commutes with alpha-renaming *)
  Theorem index_term_alpha t : forall st, index_term (st_map st) (alpha t) = st_map (index_term st t).
  Proof.
    induction t as [l ks IH] using term_ind'; intro st.
    pose proof (fold_map_commute ks IH) as Hfold.
    cbn [Param.alpha]. fold alpha.
    destruct (is_kind "Lifetime" l || is_kind "PredLifetime" l) eqn:El.
    { rewrite index_term_eq. rewrite !kind_K, El.
      rewrite (index_term_eq st l ks), El.
      change (rl (ld l)) with (rk PLt (ld l)). cbn [ld K].
      rewrite try_index_map. cbn [fst]. apply Hfold. }
    destruct (is_kind "TPath" l || is_kind "EPath" l) eqn:Ep.
    { destruct ks as [|q [|p [|x ks]]].
      - cbn [map]. rewrite !index_term_eq, El, Ep. reflexivity.
      - cbn [map]. rewrite !index_term_eq, El, Ep.
        inversion IH as [|? ? Hq _]; subst. cbn [fold_left]. apply Hq.
      - cbn [map]. inversion IH as [|? ? Hq IH1]; subst. inversion IH1 as [|? ? Hp _]; subst.
        rewrite no_qself_alpha.
        destruct (no_qself q) eqn:Enq.
        + rewrite !index_term_eq, El, Ep. cbv zeta. rewrite no_qself_alpha, Enq.
          rewrite Hq, first_seg_rename, first_seg_alpha.
          destruct (first_seg p) as [[n bare]|].
          * change (rt n) with (rk PTy n). rewrite try_index_map.
            rewrite (try_index_pair (index_term st q) PTy n).
            destruct (snd (try_index (index_term st q) PTy n)).
            -- rewrite index_renamed_path. apply Hp.
            -- destruct bare.
               ++ change (rk PTy n) with (rk PCt n). rewrite try_index_map. cbn [fst].
                  rewrite index_renamed_path. apply Hp.
               ++ rewrite index_renamed_path. apply Hp.
          * rewrite index_renamed_path. apply Hp.
        + cbn [map]. rewrite !index_term_eq, El, Ep. cbv zeta. rewrite no_qself_alpha, Enq.
          rewrite Hq. apply Hp.
      - cbn [map]. rewrite !index_term_eq, El, Ep.
        change (alpha q :: alpha p :: alpha x :: map alpha ks) with (map alpha (q :: p :: x :: ks)).
        apply Hfold. }
    rewrite !index_term_eq, El, Ep. apply Hfold.
  Qed.

  Notation alpha_gp := (alpha_gp rl rt).
  Notation alpha_block := (alpha_block rl rt).

  Lemma gp_decl_alpha gp :
    gp_decl (alpha_gp gp) = match gp_decl gp with Some (k, n) => Some (k, rk k n) | None => None end.
  Proof.
    destruct gp as [l ks]. unfold Param.alpha_gp.
    destruct (gp_decl (Node l ks)) as [[k n]|] eqn:E; [|exact E].
    unfold gp_decl in *. unfold is_kind in *. cbn [lk ld K].
    destruct (String.eqb (lk l) "GPLifetime"); [inversion E; reflexivity|].
    destruct (String.eqb (lk l) "GPType"); [inversion E; reflexivity|].
    destruct (String.eqb (lk l) "GPConst"); [inversion E; reflexivity|discriminate].
  Qed.

  Lemma tkids_alpha_gp gp : tkids (alpha_gp gp) = map alpha (tkids gp).
  Proof. destruct gp as [l ks]. unfold Param.alpha_gp. destruct (gp_decl (Node l ks)) as [[k n]|]; reflexivity. Qed.

  Lemma declared_alpha gps :
    declared (map alpha_gp gps) = map (fun e => (fst e, rk (fst e) (snd e))) (declared gps).
  Proof.
    unfold declared. induction gps as [|gp gps IH]; simpl; [reflexivity|].
    rewrite gp_decl_alpha, IH. destruct (gp_decl gp) as [[k n]|]; reflexivity.
  Qed.

  Lemma fold_terms_alpha ts : forall st,
    fold_left index_term (map alpha ts) (st_map st) = st_map (fold_left index_term ts st).
  Proof.
    induction ts as [|t ts IH]; simpl; intro st; [reflexivity|].
    rewrite index_term_alpha. apply IH.
  Qed.

  Lemma find_gp_alpha gps k n :
    find (fun gp => match gp_decl gp with
                    | Some (k', n') => pkind_eqb k' k && String.eqb n' (rk k n)
                    | None => false
                    end) (map alpha_gp gps) =
    option_map alpha_gp (find (fun gp => match gp_decl gp with
                                         | Some (k', n') => pkind_eqb k' k && String.eqb n' n
                                         | None => false
                                         end) gps).
  Proof.
    induction gps as [|gp gps IH]; simpl; [reflexivity|].
    rewrite gp_decl_alpha. destruct (gp_decl gp) as [[k' n']|]; [|exact IH].
    pose proof (key_test_map k n (k', n')) as H. cbn [fst snd] in H. rewrite H.
    destruct (pkind_eqb k' k && String.eqb n' n); [reflexivity|exact IH].
  Qed.

  Lemma visit_indexed_alpha st gps preds :
    visit_indexed (st_map st) (map alpha_gp gps) (map alpha preds) = st_map (visit_indexed st gps preds).
  Proof.
    unfold visit_indexed. rewrite <- fold_terms_alpha. f_equal.
    change {| unindexed := unindexed (st_map st); indexed := indexed (st_map st); counter := counter (st_map st) |}
      with (st_map {| unindexed := unindexed st; indexed := indexed st; counter := counter st |}).
    generalize {| unindexed := unindexed st; indexed := indexed st; counter := counter st |}.
    unfold Param.st_map at 1. cbn [indexed].
    induction (indexed st) as [|e todo IH]; intro s0; [reflexivity|].
    cbn [map filter fst snd]. destruct (negb (pkind_eqb (fst (fst e)) PLt)); [|apply IH].
    cbn [fold_left fst snd]. rewrite find_gp_alpha.
    destruct (find _ gps) as [gp|]; cbn [option_map]; [|apply IH].
    rewrite tkids_alpha_gp, fold_terms_alpha. apply IH.
  Qed.

  Lemma st_map_unindexed_len st : List.length (unindexed (st_map st)) = List.length (unindexed st).
  Proof. unfold Param.st_map. cbn [unindexed]. apply map_length. Qed.

  Lemma index_loop_alpha fuel : forall st gps preds,
    index_loop fuel (st_map st) (map alpha_gp gps) (map alpha preds) = st_map (index_loop fuel st gps preds).
  Proof.
    induction fuel as [|fuel IH]; intros st gps preds; [reflexivity|].
    cbn [index_loop]. rewrite visit_indexed_alpha, !st_map_unindexed_len.
    destruct (Nat.eqb _ _); [reflexivity|apply IH].
  Qed.

  (* canonical numbering of a block commutes with alpha-renaming: the renamed block's
     parameters get exactly the numbers of the parameters they rename *)
  Theorem index_block_alpha b : index_block (alpha_block b) = st_map (index_block b).
  Proof.
    destruct b as [lb [|[lg gps] [|tr [|self [|[lw preds] [|items [|]]]]]]]; try reflexivity.
    unfold Param.alpha_block, index_block.
    rewrite map_length, declared_alpha.
    change {| unindexed := map (fun e => (fst e, rk (fst e) (snd e))) (declared gps); indexed := []; counter := 0 |}
      with (st_map {| unindexed := declared gps; indexed := []; counter := 0 |}).
    rewrite !index_term_alpha. apply index_loop_alpha.
  Qed.
End AlphaProofs.

(* canonical names follow the renaming: the parameter that renames n gets n's canonical name *)
Section NewName.
  Variables rl rt : string -> string.
  Hypothesis rl_inj : forall a b, rl a = rl b -> a = b.
  Hypothesis rt_inj : forall a b, rt a = rt b -> a = b.

  Lemma new_name_map ix k n :
    new_name (map (fun e => (fst (fst e), rk rl rt (fst (fst e)) (snd (fst e)), snd e)) ix) k (rk rl rt k n) =
    new_name ix k n.
  Proof.
    unfold new_name. induction ix as [|[[k' n'] i] ix IH]; simpl; [reflexivity|].
    pose proof (key_test_map rl rt rl_inj rt_inj k n (k', n')) as H. cbn [fst snd] in H. rewrite H.
    destruct (pkind_eqb k' k && String.eqb n' n); [reflexivity|exact IH].
  Qed.

  Theorem canonical_names_alpha b k n :
    new_name (indexed (index_block (alpha_block rl rt b))) k (rk rl rt k n) =
    new_name (indexed (index_block b)) k n.
  Proof.
    rewrite (index_block_alpha rl rt rl_inj rt_inj). unfold st_map. cbn [indexed]. apply new_name_map.
  Qed.
End NewName.
