(* proofs/ValidateProofs.v -- validation: header-level defects are diagnosed specifically;
   accepted inherent families have uniform item visibility. *)
From Coq Require Import List String Ascii Bool Arith Lia.
Import ListNotations.
From DI Require Import Validate.

Lemma first_some_app_none {A} (l1 l2 : list (option A)) :
  Forall (fun x => x = None) l1 -> first_some (l1 ++ l2) = first_some l2.
Proof. induction 1 as [|x l Hx Hl IH]; simpl; auto. subst x. exact IH. Qed.

Definition header_ok (t : vtrait) (i : vimpl) : Prop :=
  v_trait i = Some (t_name t) /\ v_unsafe i = t_unsafe t.

Lemma header_ok_none t i : header_ok t i ->
  match v_trait i with
  | Some n => if negb (String.eqb (t_name t) n) then Some DoesntMatchTrait
              else if negb (Bool.eqb (t_unsafe t) (v_unsafe i)) then Some DoesntMatchTrait
              else None
  | None => Some ExpectedTraitImpl
  end = None.
Proof.
  intros [H1 H2]. rewrite H1, H2, String.eqb_refl, Bool.eqb_reflx. reflexivity.
Qed.

(* an impl of a different trait is diagnosed as such, wherever it stands *)
Theorem other_trait_diagnosed t pre i post n :
  Forall (header_ok t) pre -> v_trait i = Some n -> n <> t_name t ->
  validate_trait t (pre ++ i :: post) = Some DoesntMatchTrait.
Proof.
  intros Hpre Hi Hn. unfold validate_trait. rewrite map_app. simpl map.
  rewrite first_some_app_none.
  - simpl. rewrite Hi. destruct (String.eqb (t_name t) n) eqn:E; [apply String.eqb_eq in E; congruence|].
    reflexivity.
  - apply Forall_map. eapply Forall_impl; [|exact Hpre]. intros a Ha. apply header_ok_none; exact Ha.
Qed.

(* an inherent block mixed into trait mode *)
Theorem inherent_in_trait_mode_diagnosed t pre i post :
  Forall (header_ok t) pre -> v_trait i = None ->
  validate_trait t (pre ++ i :: post) = Some ExpectedTraitImpl.
Proof.
  intros Hpre Hi. unfold validate_trait. rewrite map_app. simpl map.
  rewrite first_some_app_none.
  - simpl. rewrite Hi. reflexivity.
  - apply Forall_map. eapply Forall_impl; [|exact Hpre]. intros a Ha. apply header_ok_none; exact Ha.
Qed.

(* unsafety mismatch *)
Theorem unsafety_mismatch_diagnosed t pre i post :
  Forall (header_ok t) pre -> v_trait i = Some (t_name t) -> v_unsafe i <> t_unsafe t ->
  validate_trait t (pre ++ i :: post) = Some DoesntMatchTrait.
Proof.
  intros Hpre Hi Hu. unfold validate_trait. rewrite map_app. simpl map.
  rewrite first_some_app_none.
  - simpl. rewrite Hi, String.eqb_refl. simpl.
    destruct (Bool.eqb (t_unsafe t) (v_unsafe i)) eqn:E; [apply Bool.eqb_prop in E; congruence|]. reflexivity.
  - apply Forall_map. eapply Forall_impl; [|exact Hpre]. intros a Ha. apply header_ok_none; exact Ha.
Qed.

(* a trait block in inherent mode *)
Theorem trait_in_inherent_mode_diagnosed pre i post n :
  Forall (fun a => v_trait a = None) pre -> v_trait i = Some n ->
  validate_inherent (pre ++ i :: post) = Some ExpectedInherent.
Proof.
  intros Hpre Hi. unfold validate_inherent. rewrite map_app. simpl map.
  rewrite first_some_app_none.
  - simpl. rewrite Hi. reflexivity.
  - apply Forall_map. eapply Forall_impl; [|exact Hpre]. intros a Ha. rewrite Ha. reflexivity.
Qed.

(* ---- accepted inherent families: every member agrees with the generated visibility ---- *)

Lemma find_item_in its k n s : find_item its k n = Some s ->
  In s its /\ ikind_eqb (i_kind s) k = true /\ String.eqb (i_name s) n = true.
Proof.
  unfold find_item. intro H. apply find_some in H. destruct H as [H1 H2].
  apply in_rev in H1. apply andb_true_iff in H2. tauto.
Qed.

Lemma remove_item_incl its k n s : In s (remove_item its k n) -> In s its.
Proof. unfold remove_item. intro H. apply filter_In in H. tauto. Qed.

Lemma cmp_inherent_none first : forall second,
  cmp_inherent_items first second = None ->
  Forall (fun f => exists s, In s second /\ ikind_eqb (i_kind s) (i_kind f) = true /\
                             String.eqb (i_name s) (i_name f) = true /\ i_vis s = i_vis f) first.
Proof.
  induction first as [|f rest IH]; intros second H; [constructor|].
  simpl in H. destruct (find_item second (i_kind f) (i_name f)) as [s|] eqn:E; [|discriminate].
  destruct (ikind_eqb (i_kind f) IKConst && negb (Nat.eqb (i_ngen f) (i_ngen s))); [discriminate|].
  destruct (negb (String.eqb (i_vis f) (i_vis s))) eqn:Ev; [discriminate|].
  apply negb_false_iff in Ev. apply String.eqb_eq in Ev.
  apply find_item_in in E. destruct E as (E1 & E2 & E3).
  constructor.
  - exists s. repeat split; auto.
  - specialize (IH _ H). eapply Forall_impl; [|exact IH].
    intros a (s' & Hin & Hr). exists s'. split; [eapply remove_item_incl; eauto | exact Hr].
Qed.

Lemma first_some_none {A} (l : list (option A)) : first_some l = None -> Forall (fun x => x = None) l.
Proof.
  induction l as [|[x|] l IH]; simpl; intro H; [constructor | discriminate | constructor; auto].
Qed.

(* if validation accepts an inherent family, then for every item of the first member (whose
   visibility the generated impl takes) every other member has that item with the same
   visibility: the generated visibility is exactly what every member wrote *)
Theorem inherent_visibility_uniform f others :
  validate_inherent (f :: others) = None ->
  forall o, In o others ->
  Forall (fun fi => exists s, In s (v_items o) /\ ikind_eqb (i_kind s) (i_kind fi) = true /\
                              String.eqb (i_name s) (i_name fi) = true /\ i_vis s = i_vis fi) (v_items f).
Proof.
  unfold validate_inherent. intro H.
  destruct (first_some (map _ (f :: others))); [discriminate|].
  apply first_some_none in H. intros o Ho.
  rewrite Forall_forall in H. apply cmp_inherent_none. apply H.
  apply in_map_iff. exists o. split; auto.
Qed.

(* ---- trait mode, item level: an accepted block defines exactly items of the trait and every
   required one; hence a stray item and a missing required item are always diagnosed ---- *)

Definition same_item (a b : item) : Prop :=
  ikind_eqb (i_kind a) (i_kind b) = true /\ String.eqb (i_name a) (i_name b) = true.

Lemma no_leftovers (second : list item) :
  (if existsb (fun i => ikind_eqb (i_kind i) IKConst) second then Some NotInTrait
   else if existsb (fun i => ikind_eqb (i_kind i) IKType) second then Some NotInTrait
   else if existsb (fun i => ikind_eqb (i_kind i) IKFn) second then Some NotInTrait
   else None) = None -> second = [].
Proof.
  destruct second as [|s r]; [reflexivity|]. simpl.
  destruct (i_kind s); simpl; try discriminate.
  - destruct (existsb _ r); discriminate.
  - destruct (existsb _ r); [discriminate|]. destruct (existsb _ r); discriminate.
Qed.

Lemma in_remove_or its k n s :
  In s its -> In s (remove_item its k n) \/ (ikind_eqb (i_kind s) k = true /\ String.eqb (i_name s) n = true).
Proof.
  intro H. unfold remove_item.
  destruct (ikind_eqb (i_kind s) k && String.eqb (i_name s) n) eqn:E.
  - right. apply andb_true_iff in E. exact E.
  - left. apply filter_In. split; [exact H|]. rewrite E. reflexivity.
Qed.

Lemma cmp_trait_none titems : forall second,
  cmp_trait_items titems second = None ->
  (forall s, In s second -> exists t, In t titems /\ same_item s t) /\
  (forall t, In t titems -> i_default t = false -> exists s, In s second /\ same_item s t).
Proof.
  induction titems as [|t rest IH]; intros second H.
  - simpl in H. apply no_leftovers in H. subst second. split; intros ? [].
  - simpl in H. destruct (find_item second (i_kind t) (i_name t)) as [s0|] eqn:E.
    + destruct (ikind_eqb (i_kind t) IKConst && negb (Nat.eqb (i_ngen t) (i_ngen s0))); [discriminate|].
      destruct (IH _ H) as [H1 H2]. apply find_item_in in E. destruct E as (E1 & E2 & E3).
      split.
      * intros s Hs. destruct (in_remove_or _ (i_kind t) (i_name t) _ Hs) as [Hr|[K N]].
        -- destruct (H1 _ Hr) as (t' & Ht' & Hsame). exists t'. split; [right; exact Ht'|exact Hsame].
        -- exists t. split; [left; reflexivity|split; assumption].
      * intros t' [Ht'|Ht'] Hd.
        -- subst t'. exists s0. split; [exact E1|split; assumption].
        -- destruct (H2 _ Ht' Hd) as (s & Hs & Hsame). exists s. split; [eapply remove_item_incl; eauto|exact Hsame].
    + destruct (i_default t) eqn:Ed; [|discriminate].
      destruct (IH _ H) as [H1 H2]. split.
      * intros s Hs. destruct (H1 _ Hs) as (t' & Ht' & Hsame). exists t'. split; [right; exact Ht'|exact Hsame].
      * intros t' [Ht'|Ht'] Hd; [subst t'; congruence|]. eauto.
Qed.

(* acceptance in trait mode means: every block is an impl of the trait with the trait's
   unsafety, defines only items of the trait (same kind and name) and every required one *)
Theorem trait_accepted_wellformed t impls :
  validate_trait t impls = None ->
  forall i, In i impls ->
    header_ok t i /\
    (forall s, In s (v_items i) -> exists ti, In ti (t_items t) /\ same_item s ti) /\
    (forall ti, In ti (t_items t) -> i_default ti = false -> exists s, In s (v_items i) /\ same_item s ti).
Proof.
  unfold validate_trait. intro H.
  destruct (first_some (map _ impls)) eqn:E1; [discriminate|].
  apply first_some_none in E1. apply first_some_none in H.
  rewrite Forall_forall in E1, H. intros i Hi. split.
  - assert (Hh := E1 _ (in_map _ _ _ Hi)). cbv beta in Hh. unfold header_ok.
    destruct (v_trait i) as [n|]; [|discriminate].
    destruct (String.eqb (t_name t) n) eqn:En; [|discriminate]. apply String.eqb_eq in En. subst n.
    simpl in Hh. destruct (Bool.eqb (t_unsafe t) (v_unsafe i)) eqn:Eu; [|discriminate].
    apply Bool.eqb_prop in Eu. split; [reflexivity|symmetry; exact Eu].
  - apply cmp_trait_none. apply H. apply in_map_iff. exists i. split; auto.
Qed.

(* a block with an item that is no item of the trait is rejected, wherever it stands *)
Theorem stray_item_rejected t impls i s :
  In i impls -> In s (v_items i) -> (forall ti, In ti (t_items t) -> ~ same_item s ti) ->
  validate_trait t impls <> None.
Proof.
  intros Hi Hs Hno H. destruct (trait_accepted_wellformed t impls H i Hi) as (_ & H1 & _).
  destruct (H1 _ Hs) as (ti & Hti & Hsame). exact (Hno _ Hti Hsame).
Qed.

(* a block that leaves out a required item of the trait is rejected *)
Theorem missing_item_rejected t impls i ti :
  In i impls -> In ti (t_items t) -> i_default ti = false ->
  (forall s, In s (v_items i) -> ~ same_item s ti) ->
  validate_trait t impls <> None.
Proof.
  intros Hi Hti Hd Hno H. destruct (trait_accepted_wellformed t impls H i Hi) as (_ & _ & H2).
  destruct (H2 _ Hti Hd) as (s & Hs & Hsame). exact (Hno _ Hs Hsame).
Qed.
