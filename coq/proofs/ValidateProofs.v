(* proofs/ValidateProofs.v -- validation: header-level defects are diagnosed specifically;
   accepted inherent families have uniform item visibility. *)
From Coq Require Import List String Ascii Bool Arith Lia.
Import ListNotations.
From DI Require Import Validate.

Lemma first_some_app_none {A} (l1 l2 : list (option A)) :
  Forall (fun x => x = None) l1 -> first_some (l1 ++ l2) = first_some l2.
Proof. induction 1 as [|x l Hx Hl IH]; simpl; auto. subst x. exact IH. Qed.

Definition header_ok (t : vtrait) (i : vimpl) : Prop :=
  v_trait i = Some (t_name t) /\ v_unsafe i = t_unsafe t.

Lemma header_ok_none t i : header_ok t i ->
  match v_trait i with
  | Some n => if negb (String.eqb (t_name t) n) then Some DoesntMatchTrait
              else if negb (Bool.eqb (t_unsafe t) (v_unsafe i)) then Some DoesntMatchTrait
              else None
  | None => Some ExpectedTraitImpl
  end = None.
Proof.
  intros [H1 H2]. rewrite H1, H2, String.eqb_refl, Bool.eqb_reflx. reflexivity.
Qed.

(* an impl of a different trait is diagnosed as such, wherever it stands *)
Theorem other_trait_diagnosed t pre i post n :
  Forall (header_ok t) pre -> v_trait i = Some n -> n <> t_name t ->
  validate_trait t (pre ++ i :: post) = Some DoesntMatchTrait.
Proof.
  intros Hpre Hi Hn. unfold validate_trait. rewrite map_app. simpl map.
  rewrite first_some_app_none.
  - simpl. rewrite Hi. destruct (String.eqb (t_name t) n) eqn:E; [apply String.eqb_eq in E; congruence|].
    reflexivity.
  - apply Forall_map. eapply Forall_impl; [|exact Hpre]. intros a Ha. apply header_ok_none; exact Ha.
Qed.

(* an inherent block mixed into trait mode *)
Theorem inherent_in_trait_mode_diagnosed t pre i post :
  Forall (header_ok t) pre -> v_trait i = None ->
  validate_trait t (pre ++ i :: post) = Some ExpectedTraitImpl.
Proof.
  intros Hpre Hi. unfold validate_trait. rewrite map_app. simpl map.
  rewrite first_some_app_none.
  - simpl. rewrite Hi. reflexivity.
  - apply Forall_map. eapply Forall_impl; [|exact Hpre]. intros a Ha. apply header_ok_none; exact Ha.
Qed.

(* unsafety mismatch *)
Theorem unsafety_mismatch_diagnosed t pre i post :
  Forall (header_ok t) pre -> v_trait i = Some (t_name t) -> v_unsafe i <> t_unsafe t ->
  validate_trait t (pre ++ i :: post) = Some DoesntMatchTrait.
Proof.
  intros Hpre Hi Hu. unfold validate_trait. rewrite map_app. simpl map.
  rewrite first_some_app_none.
  - simpl. rewrite Hi, String.eqb_refl. simpl.
    destruct (Bool.eqb (t_unsafe t) (v_unsafe i)) eqn:E; [apply Bool.eqb_prop in E; congruence|]. reflexivity.
  - apply Forall_map. eapply Forall_impl; [|exact Hpre]. intros a Ha. apply header_ok_none; exact Ha.
Qed.

(* a trait block in inherent mode *)
Theorem trait_in_inherent_mode_diagnosed pre i post n :
  Forall (fun a => v_trait a = None) pre -> v_trait i = Some n ->
  validate_inherent (pre ++ i :: post) = Some ExpectedInherent.
Proof.
  intros Hpre Hi. unfold validate_inherent. rewrite map_app. simpl map.
  rewrite first_some_app_none.
  - simpl. rewrite Hi. reflexivity.
  - apply Forall_map. eapply Forall_impl; [|exact Hpre]. intros a Ha. rewrite Ha. reflexivity.
Qed.

(* ---- accepted inherent families: every member agrees with the generated visibility ---- *)

Lemma find_item_in its k n s : find_item its k n = Some s ->
  In s its /\ ikind_eqb (i_kind s) k = true /\ String.eqb (i_name s) n = true.
Proof.
  unfold find_item. intro H. apply find_some in H. destruct H as [H1 H2].
  apply in_rev in H1. apply andb_true_iff in H2. tauto.
Qed.

Lemma remove_item_incl its k n s : In s (remove_item its k n) -> In s its.
Proof. unfold remove_item. intro H. apply filter_In in H. tauto. Qed.

Lemma cmp_inherent_none first : forall second,
  cmp_inherent_items first second = None ->
  Forall (fun f => exists s, In s second /\ ikind_eqb (i_kind s) (i_kind f) = true /\
                             String.eqb (i_name s) (i_name f) = true /\ i_vis s = i_vis f) first.
Proof.
  induction first as [|f rest IH]; intros second H; [constructor|].
  simpl in H. destruct (find_item second (i_kind f) (i_name f)) as [s|] eqn:E; [|discriminate].
  destruct (ikind_eqb (i_kind f) IKConst && negb (Nat.eqb (i_ngen f) (i_ngen s))); [discriminate|].
  destruct (negb (String.eqb (i_vis f) (i_vis s))) eqn:Ev; [discriminate|].
  apply negb_false_iff in Ev. apply String.eqb_eq in Ev.
  apply find_item_in in E. destruct E as (E1 & E2 & E3).
  constructor.
  - exists s. repeat split; auto.
  - specialize (IH _ H). eapply Forall_impl; [|exact IH].
    intros a (s' & Hin & Hr). exists s'. split; [eapply remove_item_incl; eauto | exact Hr].
Qed.

Lemma first_some_none {A} (l : list (option A)) : first_some l = None -> Forall (fun x => x = None) l.
Proof.
  induction l as [|[x|] l IH]; simpl; intro H; [constructor | discriminate | constructor; auto].
Qed.

(* if validation accepts an inherent family, then for every item of the first member (whose
   visibility the generated impl takes) every other member has that item with the same
   visibility: the generated visibility is exactly what every member wrote *)
Theorem inherent_visibility_uniform f others :
  validate_inherent (f :: others) = None ->
  forall o, In o others ->
  Forall (fun fi => exists s, In s (v_items o) /\ ikind_eqb (i_kind s) (i_kind fi) = true /\
                              String.eqb (i_name s) (i_name fi) = true /\ i_vis s = i_vis fi) (v_items f).
Proof.
  unfold validate_inherent. intro H.
  destruct (first_some (map _ (f :: others))); [discriminate|].
  apply first_some_none in H. intros o Ho.
  rewrite Forall_forall in H. apply cmp_inherent_none. apply H.
  apply in_map_iff. exists o. split; auto.
Qed.
