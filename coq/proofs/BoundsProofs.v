(* proofs/BoundsProofs.v -- the dispatch-key identity is an equivalence that agrees with
   hashing and ignores exactly the bindings. *)
From Coq Require Import List String Ascii Bool Arith Lia.
Import ListNotations.
From DI Require Import Syntax Tokens Bounds.
From DI.proofs Require Import Basics.

Lemma toks_eqb_eq a b : toks_eqb a b = true -> a = b.
Proof.
  unfold toks_eqb. apply all2_with_eq. apply Forall_forall. intros x _ y H.
  apply String.eqb_eq; exact H.
Qed.

Lemma toks_eqb_refl a : toks_eqb a a = true.
Proof. unfold toks_eqb. apply all2_with_refl. apply Forall_forall. intros; apply String.eqb_refl. Qed.

Lemma toks_list_eqb_eq a b : toks_list_eqb a b = true -> a = b.
Proof.
  unfold toks_list_eqb. apply all2_with_eq. apply Forall_forall. intros x _ y H.
  apply toks_eqb_eq; exact H.
Qed.

Lemma toks_list_eqb_refl a : toks_list_eqb a a = true.
Proof. unfold toks_list_eqb. apply all2_with_refl. apply Forall_forall. intros; apply toks_eqb_refl. Qed.

(* eq holds exactly when the identities coincide *)
Theorem tb_eqb_iff p q : tb_eqb p q = true <-> (tb_key p = tb_key q /\ tb_key p <> None).
Proof.
  unfold tb_eqb. destruct (tb_key p) as [[[[c1 i1] n1] a1]|]; destruct (tb_key q) as [[[[c2 i2] n2] a2]|];
    split; try (intro H; discriminate); try (intros [H1 H2]; congruence).
  - intro H. repeat (apply andb_true_iff in H; destruct H as [H ?]).
    apply Bool.eqb_prop in H. apply toks_list_eqb_eq in H2. apply String.eqb_eq in H1.
    apply toks_list_eqb_eq in H0. subst. split; [reflexivity|discriminate].
  - intros [H _]. inversion H; subst.
    rewrite Bool.eqb_reflx, !toks_list_eqb_refl, String.eqb_refl. reflexivity.
Qed.

Theorem tb_eqb_refl p : tb_key p <> None -> tb_eqb p p = true.
Proof. intro H. apply tb_eqb_iff. split; auto. Qed.

Theorem tb_eqb_sym p q : tb_eqb p q = true -> tb_eqb q p = true.
Proof. intro H. apply tb_eqb_iff in H. destruct H as [H1 H2]. apply tb_eqb_iff. split; congruence. Qed.

Theorem tb_eqb_trans p q r : tb_eqb p q = true -> tb_eqb q r = true -> tb_eqb p r = true.
Proof.
  intros H1 H2. apply tb_eqb_iff in H1. apply tb_eqb_iff in H2.
  destruct H1, H2. apply tb_eqb_iff. split; congruence.
Qed.

Theorem tb_hash_agrees p q : tb_eqb p q = true -> tb_hash_input p = tb_hash_input q.
Proof. intro H. apply tb_eqb_iff in H. destruct H as [H _]. unfold tb_hash_input. rewrite H. reflexivity. Qed.

(* removing the bindings never changes the identity: Tr<A = X, u8>, Tr<u8>, Tr<u8, B = Y> ... *)
Lemma split_last_app {A} (i : list A) (z : A) : split_last (i ++ [z]) = Some (i, z).
Proof.
  induction i as [|x i IH]; simpl; [reflexivity|].
  rewrite IH. destruct (i ++ [z]) eqn:E; [destruct i; discriminate | reflexivity].
Qed.

Lemma split_last_some {A} (l : list A) i z : split_last l = Some (i, z) -> l = i ++ [z].
Proof.
  revert i z. induction l as [|x l IH]; simpl; intros i z H; [discriminate|].
  destruct l as [|y l].
  - inversion H; subst. reflexivity.
  - destruct (split_last (y :: l)) as [[i' z']|] eqn:E; [|discriminate].
    inversion H; subst. rewrite (IH _ _ eq_refl). reflexivity.
Qed.

Lemma filter_idem {A} (f : A -> bool) l : filter f (filter f l) = filter f l.
Proof.
  induction l as [|x l IH]; simpl; [reflexivity|].
  destruct (f x) eqn:E; simpl; [rewrite E, IH|]; auto.
Qed.

Theorem tb_key_strip p : tb_key (strip_bindings p) = tb_key p.
Proof.
  destruct p as [lp segs]. unfold strip_bindings.
  destruct (split_last segs) as [[init last]|] eqn:E; [|reflexivity].
  destruct last as [ls [|[la args] [|]]]; try reflexivity.
  destruct (is_kind "AAngle" la) eqn:Ea; [|reflexivity].
  unfold tb_key. rewrite split_last_app, E. cbn [seg_key_args tlabel].
  rewrite Ea, filter_idem. reflexivity.
Qed.

Theorem tb_eqb_strip p : tb_key p <> None -> tb_eqb p (strip_bindings p) = true.
Proof. intro H. apply tb_eqb_iff. rewrite tb_key_strip. split; auto. Qed.
