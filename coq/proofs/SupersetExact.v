(* proofs/SupersetExact.v -- on plain terms the congruence is syntactic equality; identity
   reporting; parameters are bound. *)
From Coq Require Import List String Ascii Bool Arith Lia.
Import ListNotations.
From DI Require Import Syntax Subs Superset Spec.
From DI.proofs Require Import Basics SupersetSound.

Lemma plain_eq l ks :
  plain (Node l ks) =
  negb (is_wrap l) && negb (is_kind "Lifetime" l && String.eqb (ld l) "_") &&
  negb (is_kind "Abi" l) && negb (is_kind "EBinary" l && commutative_op (ld l)) &&
  negb (is_kind "EMethodCall" l) && forallb plain ks.
Proof. reflexivity. Qed.

Lemma all2_plain_eq xs :
  Forall (fun x => forall b, plain x = true -> plain b = true -> equivb x b = true -> x = b) xs ->
  forall ys, forallb plain xs = true -> forallb plain ys = true ->
  all2_with equivb xs ys = true -> xs = ys.
Proof.
  induction 1 as [|x xs Hx Hxs IH]; intros [|y ys] P1 P2 H; simpl in *; try discriminate; auto.
  apply andb_true_iff in P1; destruct P1. apply andb_true_iff in P2; destruct P2.
  apply andb_true_iff in H; destruct H. f_equal; auto.
Qed.

Theorem equivb_plain_eq x : forall b,
  plain x = true -> plain b = true -> equivb x b = true -> x = b.
Proof.
  induction x as [lx kx IH] using term_ind'; intros [lb kb] Px Pb H.
  rewrite plain_eq in Px, Pb.
  repeat (apply andb_true_iff in Px; destruct Px as [Px ?]).
  repeat (apply andb_true_iff in Pb; destruct Pb as [Pb ?]).
  apply negb_true_iff in Px, Pb.
  match goal with H : negb (is_kind "EMethodCall" lx) = true |- _ => apply negb_true_iff in H; rename H into Mx end.
  match goal with H : negb (is_kind "EBinary" lx && _) = true |- _ => apply negb_true_iff in H; rename H into Bx end.
  match goal with H : negb (is_kind "Abi" lx) = true |- _ => apply negb_true_iff in H; rename H into Ax end.
  match goal with H : negb (is_kind "Lifetime" lx && _) = true |- _ => apply negb_true_iff in H; rename H into Lx end.
  match goal with H : negb (is_kind "Lifetime" lb && _) = true |- _ => apply negb_true_iff in H; rename H into Lb end.
  rewrite equivb_eq in H. unfold equiv_step in H. rewrite Px, Pb, Bx, Mx in H.
  unfold equiv_special in H. rewrite Ax in H. cbn [andb orb] in H. rewrite orb_false_r in H.
  destruct (is_kind "Lifetime" lx && is_kind "Lifetime" lb && lifetime_ok lx lb && is_nil kx && is_nil kb) eqn:E.
  - repeat (apply andb_true_iff in E; destruct E as [E ?]).
    destruct kx; try discriminate. destruct kb; try discriminate.
    rewrite E in Lx. match goal with H : is_kind "Lifetime" lb = true |- _ => rewrite H in Lb; rename H into Eb end.
    cbn [andb] in Lx, Lb.
    match goal with H : lifetime_ok lx lb = true |- _ => unfold lifetime_ok in H; rewrite Lx, Lb in H; cbn [orb] in H; rename H into Ed end.
    apply String.eqb_eq in Ed. apply is_kind_eq in E. apply is_kind_eq in Eb.
    destruct lx, lb; simpl in *; subst; reflexivity.
  - destruct (label_eqb lx lb) eqn:El; try discriminate. apply label_eqb_eq in El; subst lb.
    f_equal. eapply all2_plain_eq; eauto.
Qed.

(* a parameter matched against itself is reported as unchanged *)
Theorem sup_identity_at a b p :
  ty_param a = Some p -> ty_param b = Some p -> sup a b = Some [(p, VIdentity)].
Proof.
  intros Ha Hb. pose proof (ty_param_inv _ _ Ha); pose proof (ty_param_inv _ _ Hb); subst a b.
  unfold mk_ty_param in *. rewrite sup_eq. unfold sup_step.
  change (is_ty_wrap (K "TPath" "")) with false.
  change (is_type_kind (K "TPath" "")) with true.
  change (is_ex_group (K "TPath" "")) with false.
  change (is_expr_kind (K "TPath" "")) with false.
  cbv iota. cbn [andb]. rewrite Ha. unfold param_vs. rewrite String.eqb_refl. reflexivity.
Qed.

Theorem sup_identity_at_expr a b p :
  ex_param a = Some p -> ex_param b = Some p -> sup a b = Some [(p, VIdentity)].
Proof.
  intros Ha Hb. pose proof (ex_param_inv _ _ Ha); pose proof (ex_param_inv _ _ Hb); subst a b.
  unfold mk_ex_param in *. rewrite sup_eq. unfold sup_step.
  change (is_ty_wrap (K "EPath" "")) with false.
  change (is_type_kind (K "EPath" "")) with false.
  change (is_ex_group (K "EPath" "")) with false.
  change (is_expr_kind (K "EPath" "")) with true.
  cbv iota. cbn [andb].
  change (is_ex_group (K "EPath" "")) with false. cbv iota.
  assert (Ht : ty_param (Node (K "EPath" "") [Node (K "ONone" "") []; mk_path_ident p]) = None)
    by reflexivity.
  rewrite Ht, Ha. unfold param_vs. rewrite String.eqb_refl. reflexivity.
Qed.
