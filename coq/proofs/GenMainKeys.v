(* proofs/GenMainKeys.v -- the where-clause of the generated main impl names EVERY dispatch key
   of the family: for each key (bounded type, trait, associated type) there is a predicate on
   exactly that bounded type that lists a trait equal to the key's trait as a dispatch key
   (tb_eqb: same path, same generic arguments, bindings ignored).  Two keys of one parameter that
   differ only in the trait's argument list (`Dc<1>` / `Dc<2>`) or in the qualifying segments of
   its path are different keys for tb_eqb (C12_iff_identity), so both are named. *)
From Coq Require Import List String Bool Arith.
Import ListNotations.
From DI Require Import Syntax Bounds Group Search Gen GenMain.
From DI.proofs Require Import Basics.

Section Update.
  Variable f : list term -> list term.
  Hypothesis f_mono : forall P trs, existsb P trs = true -> existsb P (f trs) = true.

  Lemma im_update_keeps (m : list (term * list term)) k d b trs P :
    In (b, trs) m -> existsb P trs = true ->
    exists trs', In (b, trs') (im_update term_eqb m k d f) /\ existsb P trs' = true.
  Proof.
    induction m as [|[k' v'] r IH]; intros Hin HP; [destruct Hin|].
    cbn [im_update]. destruct (term_eqb k' k) eqn:E.
    - destruct Hin as [Hin|Hin].
      + inversion Hin; subst. exists (f trs). split; [left; reflexivity|apply f_mono; exact HP].
      + exists trs. split; [right; exact Hin|exact HP].
    - destruct Hin as [Hin|Hin].
      + exists trs. split; [left; exact Hin|exact HP].
      + destruct (IH Hin HP) as (trs' & H1 & H2). exists trs'. split; [right; exact H1|exact H2].
  Qed.

  Lemma im_update_adds (m : list (term * list term)) k d P :
    (forall trs, existsb P (f trs) = true) ->
    exists trs', In (k, trs') (im_update term_eqb m k d f) /\ existsb P trs' = true.
  Proof.
    intro Hf. induction m as [|[k' v'] r IH]; cbn [im_update].
    - exists (f d). split; [left; reflexivity|apply Hf].
    - destruct (term_eqb k' k) eqn:E.
      + apply term_eqb_eq in E. subst k'. exists (f v'). split; [left; reflexivity|apply Hf].
      + destruct IH as (trs' & H1 & H2). exists trs'. split; [right; exact H1|exact H2].
  Qed.
End Update.

Definition add_trait (tr : term) (trs : list term) : list term :=
  if existsb (fun t => tb_eqb t tr) trs then trs else trs ++ [tr].

Lemma add_trait_mono tr P trs : existsb P trs = true -> existsb P (add_trait tr trs) = true.
Proof.
  unfold add_trait. intro H. destruct (existsb (fun t => tb_eqb t tr) trs); [exact H|].
  rewrite existsb_app, H. reflexivity.
Qed.

Lemma add_trait_has tr trs : tb_eqb tr tr = true -> existsb (fun t => tb_eqb t tr) (add_trait tr trs) = true.
Proof.
  intro Hr. unfold add_trait. destruct (existsb (fun t => tb_eqb t tr) trs) eqn:E; [exact E|].
  rewrite existsb_app. cbn [existsb]. rewrite Hr, orb_true_r. reflexivity.
Qed.

Lemma key_groups_step (acc : list (term * list term)) (ids : list (tbid * string)) b trs P :
  In (b, trs) acc -> existsb P trs = true ->
  exists trs', In (b, trs')
    (fold_left (fun acc id => let '((b, tr), _) := id in im_update term_eqb acc b [] (add_trait tr)) ids acc) /\
    existsb P trs' = true.
Proof.
  revert acc trs. induction ids as [|[[b2 tr2] a2] ids IH]; intros acc trs Hin HP; cbn [fold_left].
  - exists trs. split; assumption.
  - destruct (im_update_keeps (add_trait tr2) (add_trait_mono tr2) acc b2 [] b trs P Hin HP) as (trs1 & H1 & H2).
    exact (IH _ trs1 H1 H2).
Qed.

Theorem key_groups_complete ids b tr a :
  In ((b, tr), a) ids -> tb_eqb tr tr = true ->
  exists trs, In (b, trs) (key_groups ids) /\ existsb (fun t => tb_eqb t tr) trs = true.
Proof.
  unfold key_groups.
  change (fun (acc : list (term * list term)) (id : tbid * string) =>
            let '((b0, tr0), _) := id in
            im_update term_eqb acc b0 []
              (fun trs => if existsb (fun t => tb_eqb t tr0) trs then trs else trs ++ [tr0]))
    with (fun (acc : list (term * list term)) (id : tbid * string) =>
            let '((b0, tr0), _) := id in im_update term_eqb acc b0 [] (add_trait tr0)).
  generalize (@nil (term * list term)) as acc.
  induction ids as [|[[b2 tr2] a2] ids IH]; intros acc Hin Hr; [destruct Hin|].
  cbn [fold_left]. destruct Hin as [Hin|Hin].
  - inversion Hin; subst.
    destruct (im_update_adds (add_trait tr) acc b [] (fun t => tb_eqb t tr) (fun trs => add_trait_has tr trs Hr))
      as (trs1 & H1 & H2).
    exact (key_groups_step _ ids b trs1 _ H1 H2).
  - apply IH; assumption.
Qed.

(* the same, read off the predicates of the main impl *)
Theorem key_preds_name_every_key idx first_blk g preds b tr a :
  key_preds idx first_blk g = Some preds ->
  In ((b, tr), a) (abg_idents g) -> tb_eqb tr tr = true ->
  exists trs t,
    In (Node (K "PredType" "")
             (b :: (if existsb (term_eqb b) (ab_unsized g) then [maybe_sized] else []) ++ map plain_bound trs)) preds /\
    In t trs /\ tb_eqb t tr = true.
Proof.
  unfold key_preds. cbv zeta. destruct (helper_bound idx first_blk (abg_idents g)); [|discriminate].
  intros Hp Hin Hr. inversion Hp; subst preds. clear Hp.
  destruct (key_groups_complete _ b tr a Hin Hr) as (trs & H1 & H2).
  apply existsb_exists in H2. destruct H2 as (t0 & Ht & Hteq).
  exists trs, t0. split; [|split; assumption].
  apply in_or_app. left. apply in_map_iff. exists (b, trs). split; [reflexivity|exact H1].
Qed.

(* ---- positions: the dispatch arguments of the main impl's helper bound are the projections of
   the family's keys IN KEY ORDER, between the hoisted lifetimes and the other arguments; the
   dispatch arguments of a member's helper impl are computed cell by cell from the same key
   list (Gen.row_args is a map over keys zipped with the row).  So position i means key i on
   both sides (seeds C06h, C16i: a main impl that regroups or drops arguments). ---- *)
Definition key_projection (id : tbid * string) : term :=
  projection_arg (fst (fst id)) (snd (fst id)) (snd id).

Lemma key_projection_map ids :
  map (fun id : tbid * string => let '((b, tr), a) := id in projection_arg b tr a) ids = map key_projection ids.
Proof. apply map_ext. intros [[b tr] a]. reflexivity. Qed.

Theorem helper_bound_positions idx first_blk ids p :
  helper_bound idx first_blk ids = Some p ->
  exists name lts others,
    p = Node (K "Path" "") [Node (K "Seg" name) [Node (K "AAngle" "") (lts ++ map key_projection ids ++ others)]] /\
    forallb (fun x => is_kind "Lifetime" (tlabel x)) lts = true /\
    forallb (fun x => negb (is_kind "Lifetime" (tlabel x))) others = true.
Proof.
  unfold helper_bound. cbv zeta. rewrite key_projection_map.
  destruct first_blk as [lb [|g [|tr [|self [|wh [|items [|]]]]]]]; try discriminate.
  match goal with |- match ?path with _ => _ end = _ -> _ => destruct path as [[lp segs]|] end; [|discriminate].
  destruct (split_last segs) as [[init [ls lks]]|]; [|discriminate].
  intro H. inversion H; subst p. clear H.
  eexists _, _, _. split; [reflexivity|]. split.
  - apply forallb_forall. intros x Hx. apply filter_In in Hx. destruct Hx as [_ Hx]. exact Hx.
  - apply forallb_forall. intros x Hx. apply filter_In in Hx. destruct Hx as [_ Hx]. exact Hx.
Qed.

Theorem row_args_positions s keys row i k c :
  nth_error keys i = Some k -> nth_error row i = Some c ->
  nth_error (row_args s keys row) i =
  Some (match c with
        | Some payload => Node (K "GType" "") [payload]
        | None => let '((bounded, tr), a) := k in projection_arg (fwd s bounded) (fwd s (strip_bindings tr)) a
        end).
Proof.
  unfold row_args. revert row i. induction keys as [|k0 keys IH]; intros [|c0 row] [|i] Hk Hc; try discriminate.
  - cbn in *. inversion Hk; inversion Hc; subst. reflexivity.
  - cbn [combine map nth_error] in *. apply IH; assumption.
Qed.
