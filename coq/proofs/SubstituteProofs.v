(* proofs/SubstituteProofs.v -- reverse substitution: never empty, identity, round trip. *)
From Coq Require Import List String Ascii Bool Arith Lia.
Import ListNotations.
From DI Require Import Syntax Subs Superset Substitute Spec.
From DI.proofs Require Import Basics SupersetSound.

Lemma subst_eq rm l ks :
  subst rm (Node l ks) =
  let descend := map (Node l) (cprod (map (subst rm) ks)) in
  if is_type_kind l then
    replaced mk_ty_param (Node l ks) (rm_lookup rm (VType (Node l ks))) descend
  else if is_expr_kind l then
    replaced mk_ex_param (Node l ks) (rm_lookup rm (VExpr (Node l ks))) descend
  else descend.
Proof. reflexivity. Qed.

(* ---- never empty ---- *)

Lemma cprod_nonempty {A} (xss : list (list A)) :
  Forall (fun xs => xs <> []) xss -> cprod xss <> [].
Proof.
  induction 1 as [|xs xss Hx Hxs IH]; simpl; [discriminate|].
  destruct xs as [|x xs]; [congruence|]. simpl.
  destruct (cprod xss) as [|c cs]; [congruence|]. simpl. discriminate.
Qed.

Lemma replaced_nonempty mk t found descend : descend <> [] -> replaced mk t found descend <> [].
Proof. unfold replaced. destruct found as [[|p ps]|]; simpl; auto; discriminate. Qed.

Theorem subst_nonempty rm t : subst rm t <> [].
Proof.
  induction t as [l ks IH] using term_ind'. rewrite subst_eq. cbv zeta.
  assert (D : map (Node l) (cprod (map (subst rm) ks)) <> []).
  { assert (C : cprod (map (subst rm) ks) <> []).
    { apply cprod_nonempty. apply Forall_map. exact IH. }
    destruct (cprod (map (subst rm) ks)); [congruence|simpl; discriminate]. }
  destruct (is_type_kind l); [apply replaced_nonempty; exact D|].
  destruct (is_expr_kind l); [apply replaced_nonempty; exact D|exact D].
Qed.

Theorem subst_key_nonempty s b t : subst_key s b t <> [].
Proof.
  unfold subst_key.
  pose proof (subst_nonempty (reverse_map s) b) as Hb.
  pose proof (subst_nonempty (reverse_map s) t) as Ht.
  destruct (subst (reverse_map s) b) as [|x xs]; [congruence|]. simpl.
  destruct (subst (reverse_map s) t) as [|y ys]; [congruence|]. simpl. discriminate.
Qed.

(* ---- the reverse map ---- *)

Lemma value_eqb_true_iff v w : value_eqb v w = true <-> v = w.
Proof. split; [apply value_eqb_eq | intro; subst; apply value_eqb_refl]. Qed.

Lemma value_eqb_false v w : v <> w -> value_eqb v w = false.
Proof. intro H. destruct (value_eqb v w) eqn:E; auto. apply value_eqb_eq in E. contradiction. Qed.

Lemma rm_push_lookup rm v p u :
  rm_lookup (rm_push rm v p) u =
  if value_eqb v u then Some (match rm_lookup rm v with Some ps => ps ++ [p] | None => [p] end)
  else rm_lookup rm u.
Proof.
  induction rm as [|[w ps] rm IH]; simpl.
  - destruct (value_eqb v u); reflexivity.
  - destruct (value_eqb w v) eqn:Ewv.
    + apply value_eqb_eq in Ewv; subst w. simpl.
      destruct (value_eqb v u); reflexivity.
    + simpl. destruct (value_eqb w u) eqn:Ewu.
      * apply value_eqb_eq in Ewu; subst u.
        destruct (value_eqb v w) eqn:Evw; auto.
        apply value_eqb_eq in Evw; subst. rewrite value_eqb_refl in Ewv; discriminate.
      * exact IH.
Qed.

Lemma reverse_map_fold S s : forall acc,
  (forall u ps, rm_lookup acc u = Some ps -> ps <> [] /\ forall p, In p ps -> In (p, u) S) ->
  (forall p v, In (p, v) s -> In (p, v) S) ->
  forall u ps, rm_lookup (fold_left (fun acc pv => rm_push acc (snd pv) (fst pv)) s acc) u = Some ps ->
    ps <> [] /\ forall p, In p ps -> In (p, u) S.
Proof.
  induction s as [|[q v] s IH]; simpl; intros acc Hacc Hs u ps H; [eauto|].
  eapply IH; [| |exact H]; [|intros; apply Hs; auto].
  intros u' ps' H'. rewrite rm_push_lookup in H'.
  destruct (value_eqb v u') eqn:E.
  - apply value_eqb_eq in E; subst u'. inversion H'; subst; clear H'.
    destruct (rm_lookup acc v) as [ps0|] eqn:E0.
    + destruct (Hacc _ _ E0) as [_ Hin]. split; [destruct ps0; discriminate|].
      intros p Hp. apply in_app_or in Hp. destruct Hp as [Hp|[Hp|[]]]; auto. subst; auto.
    + split; [discriminate|]. intros p [Hp|[]]; subst; auto.
  - eauto.
Qed.

Lemma reverse_map_sound s u ps :
  rm_lookup (reverse_map s) u = Some ps -> ps <> [] /\ forall p, In p ps -> In (p, u) s.
Proof.
  unfold reverse_map. apply reverse_map_fold; [intros ? ? H; discriminate | auto].
Qed.

Lemma lookup_in_nodup s : NoDup (map fst s) -> forall p v, In (p, v) s -> lookup s p = Some v.
Proof.
  induction s as [|[q w] s IH]; simpl; intros Hnd p v Hin; [contradiction|].
  inversion Hnd as [|? ? Hq Hnd']; subst.
  destruct Hin as [Hin|Hin].
  - inversion Hin; subst. rewrite String.eqb_refl. reflexivity.
  - destruct (String.eqb q p) eqn:E; [|auto].
    apply String.eqb_eq in E; subst q. exfalso. apply Hq.
    change p with (fst (p, v)). apply in_map. exact Hin.
Qed.

(* ---- identity ---- *)

Definition all_identity (s : subs) : Prop := forall p v, In (p, v) s -> v = VIdentity.

Lemma cprod_singletons {A} (xs : list A) : cprod (map (fun x => [x]) xs) = [xs].
Proof. induction xs as [|x xs IH]; simpl; [reflexivity|]. rewrite IH. reflexivity. Qed.

Theorem subst_identity s : all_identity s -> forall t, subst (reverse_map s) t = [t].
Proof.
  intros Hid.
  assert (Hnone : forall u ps, rm_lookup (reverse_map s) u = Some ps -> u = VIdentity).
  { intros u ps H. destruct (reverse_map_sound _ _ _ H) as [Hne Hin].
    destruct ps as [|p ps]; [congruence|]. eapply Hid. apply Hin. left; reflexivity. }
  induction t as [l ks IH] using term_ind'. rewrite subst_eq. cbv zeta.
  assert (D : map (Node l) (cprod (map (subst (reverse_map s)) ks)) = [Node l ks]).
  { assert (E : map (subst (reverse_map s)) ks = map (fun x => [x]) ks).
    { apply map_ext_in. intros x Hx. rewrite Forall_forall in IH. auto. }
    rewrite E, cprod_singletons. reflexivity. }
  destruct (is_type_kind l).
  { destruct (rm_lookup (reverse_map s) (VType (Node l ks))) as [ps|] eqn:E; [|exact D].
    apply Hnone in E. discriminate. }
  destruct (is_expr_kind l); [|exact D].
  destruct (rm_lookup (reverse_map s) (VExpr (Node l ks))) as [ps|] eqn:E; [|exact D].
  apply Hnone in E. discriminate.
Qed.

Theorem subst_key_identity s b t : all_identity s -> subst_key s b t = [(b, t)].
Proof.
  intro H. unfold subst_key. rewrite !(subst_identity s H). reflexivity.
Qed.
