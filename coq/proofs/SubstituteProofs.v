(* proofs/SubstituteProofs.v -- reverse substitution: never empty, identity, round trip. *)
From Coq Require Import List String Ascii Bool Arith Lia.
Import ListNotations.
From DI Require Import Syntax Subs Superset Substitute Spec.
From DI.proofs Require Import Basics SupersetSound.

Lemma subst_eq rm l ks :
  subst rm (Node l ks) =
  let descend := map (Node l) (cprod (map (subst rm) ks)) in
  if is_type_kind l then
    replaced mk_ty_param (Node l ks) (rm_lookup rm (VType (Node l ks))) descend
  else if is_expr_kind l then
    replaced mk_ex_param (Node l ks) (rm_lookup rm (VExpr (Node l ks))) descend
  else descend.
Proof. reflexivity. Qed.

(* ---- never empty ---- *)

Lemma cprod_nonempty {A} (xss : list (list A)) :
  Forall (fun xs => xs <> []) xss -> cprod xss <> [].
Proof.
  induction 1 as [|xs xss Hx Hxs IH]; simpl; [discriminate|].
  destruct xs as [|x xs]; [congruence|]. simpl.
  destruct (cprod xss) as [|c cs]; [congruence|]. simpl. discriminate.
Qed.

Lemma replaced_nonempty mk t found descend : descend <> [] -> replaced mk t found descend <> [].
Proof. unfold replaced. destruct found as [[|p ps]|]; simpl; auto; discriminate. Qed.

Theorem subst_nonempty rm t : subst rm t <> [].
Proof.
  induction t as [l ks IH] using term_ind'. rewrite subst_eq. cbv zeta.
  assert (D : map (Node l) (cprod (map (subst rm) ks)) <> []).
  { assert (C : cprod (map (subst rm) ks) <> []).
    { apply cprod_nonempty. apply Forall_map. exact IH. }
    destruct (cprod (map (subst rm) ks)); [congruence|simpl; discriminate]. }
  destruct (is_type_kind l); [apply replaced_nonempty; exact D|].
  destruct (is_expr_kind l); [apply replaced_nonempty; exact D|exact D].
Qed.

Theorem subst_key_nonempty s b t : subst_key s b t <> [].
Proof.
  unfold subst_key.
  pose proof (subst_nonempty (reverse_map s) b) as Hb.
  pose proof (subst_nonempty (reverse_map s) t) as Ht.
  destruct (subst (reverse_map s) b) as [|x xs]; [congruence|]. simpl.
  destruct (subst (reverse_map s) t) as [|y ys]; [congruence|]. simpl. discriminate.
Qed.

(* ---- the reverse map ---- *)

Lemma value_eqb_true_iff v w : value_eqb v w = true <-> v = w.
Proof. split; [apply value_eqb_eq | intro; subst; apply value_eqb_refl]. Qed.

Lemma value_eqb_false v w : v <> w -> value_eqb v w = false.
Proof. intro H. destruct (value_eqb v w) eqn:E; auto. apply value_eqb_eq in E. contradiction. Qed.

Lemma rm_push_lookup rm v p u :
  rm_lookup (rm_push rm v p) u =
  if value_eqb v u then Some (match rm_lookup rm v with Some ps => ps ++ [p] | None => [p] end)
  else rm_lookup rm u.
Proof.
  induction rm as [|[w ps] rm IH]; simpl.
  - destruct (value_eqb v u); reflexivity.
  - destruct (value_eqb w v) eqn:Ewv.
    + apply value_eqb_eq in Ewv; subst w. simpl.
      destruct (value_eqb v u); reflexivity.
    + simpl. destruct (value_eqb w u) eqn:Ewu.
      * apply value_eqb_eq in Ewu; subst u.
        destruct (value_eqb v w) eqn:Evw; auto.
        apply value_eqb_eq in Evw; subst. rewrite value_eqb_refl in Ewv; discriminate.
      * exact IH.
Qed.

Lemma reverse_map_fold S s : forall acc,
  (forall u ps, rm_lookup acc u = Some ps -> ps <> [] /\ forall p, In p ps -> In (p, u) S) ->
  (forall p v, In (p, v) s -> In (p, v) S) ->
  forall u ps, rm_lookup (fold_left (fun acc pv => rm_push acc (snd pv) (fst pv)) s acc) u = Some ps ->
    ps <> [] /\ forall p, In p ps -> In (p, u) S.
Proof.
  induction s as [|[q v] s IH]; simpl; intros acc Hacc Hs u ps H; [eauto|].
  eapply IH; [| |exact H]; [|intros; apply Hs; auto].
  intros u' ps' H'. rewrite rm_push_lookup in H'.
  destruct (value_eqb v u') eqn:E.
  - apply value_eqb_eq in E; subst u'. inversion H'; subst; clear H'.
    destruct (rm_lookup acc v) as [ps0|] eqn:E0.
    + destruct (Hacc _ _ E0) as [_ Hin]. split; [destruct ps0; discriminate|].
      intros p Hp. apply in_app_or in Hp. destruct Hp as [Hp|[Hp|[]]]; auto. subst; auto.
    + split; [discriminate|]. intros p [Hp|[]]; subst; auto.
  - eauto.
Qed.

Lemma reverse_map0_sound s u ps :
  rm_lookup (reverse_map0 s) u = Some ps -> ps <> [] /\ forall p, In p ps -> In (p, u) s.
Proof.
  unfold reverse_map0. apply reverse_map_fold; [intros ? ? H; discriminate | auto].
Qed.

Lemma augment_fst s e : fst (augment s e) = fst e.
Proof.
  unfold augment. destruct (self_param (fst e)) as [p|]; [|reflexivity].
  destruct (lookup s p) as [[?|?|]|]; reflexivity.
Qed.

Lemma rm_lookup_augment s rm u :
  rm_lookup (map (augment s) rm) u =
  match rm_lookup rm u with Some ps => Some (snd (augment s (u, ps))) | None => None end.
Proof.
  induction rm as [|[w ps] rm IH]; simpl; [reflexivity|].
  pose proof (augment_fst s (w, ps)) as Hf. destruct (augment s (w, ps)) as [w' ps'] eqn:Ea.
  simpl in Hf. subst w'. destruct (value_eqb w u) eqn:E; [|exact IH].
  apply value_eqb_eq in E. subst w. rewrite Ea. reflexivity.
Qed.

(* every candidate is bound to the value, or is the identity-mapped parameter it spells *)
Lemma reverse_map_sound s u ps :
  rm_lookup (reverse_map s) u = Some ps ->
  ps <> [] /\ forall p, In p ps ->
    In (p, u) s \/ (lookup s p = Some VIdentity /\ self_param u = Some p).
Proof.
  unfold reverse_map. rewrite rm_lookup_augment.
  destruct (rm_lookup (reverse_map0 s) u) as [ps0|] eqn:E0; [|discriminate].
  destruct (reverse_map0_sound _ _ _ E0) as [Hne Hin].
  intro H. inversion H; subst ps; clear H. unfold augment. cbn [fst snd].
  destruct (self_param u) as [q|] eqn:Eq; [|split; auto].
  destruct (lookup s q) as [[?|?|]|] eqn:El; try (split; auto).
  - destruct ps0; discriminate.
  - intros p Hp. apply in_app_or in Hp. destruct Hp as [Hp|[Hp|[]]]; [auto|]. subst. auto.
Qed.

Lemma reverse_map_keys s u ps :
  rm_lookup (reverse_map s) u = Some ps -> exists p, In (p, u) s.
Proof.
  unfold reverse_map. rewrite rm_lookup_augment.
  destruct (rm_lookup (reverse_map0 s) u) as [ps0|] eqn:E0; [|discriminate].
  destruct (reverse_map0_sound _ _ _ E0) as [Hne Hin]. intros _.
  destruct ps0 as [|p ps0]; [congruence|]. exists p. apply Hin. left; reflexivity.
Qed.

Lemma lookup_in_nodup s : NoDup (map fst s) -> forall p v, In (p, v) s -> lookup s p = Some v.
Proof.
  induction s as [|[q w] s IH]; simpl; intros Hnd p v Hin; [contradiction|].
  inversion Hnd as [|? ? Hq Hnd']; subst.
  destruct Hin as [Hin|Hin].
  - inversion Hin; subst. rewrite String.eqb_refl. reflexivity.
  - destruct (String.eqb q p) eqn:E; [|auto].
    apply String.eqb_eq in E; subst q. exfalso. apply Hq.
    change p with (fst (p, v)). apply in_map. exact Hin.
Qed.

(* ---- identity ---- *)

Definition all_identity (s : subs) : Prop := forall p v, In (p, v) s -> v = VIdentity.

Lemma cprod_singletons {A} (xs : list A) : cprod (map (fun x => [x]) xs) = [xs].
Proof. induction xs as [|x xs IH]; simpl; [reflexivity|]. rewrite IH. reflexivity. Qed.

Theorem subst_identity s : all_identity s -> forall t, subst (reverse_map s) t = [t].
Proof.
  intros Hid.
  assert (Hnone : forall u ps, rm_lookup (reverse_map s) u = Some ps -> u = VIdentity).
  { intros u ps H. destruct (reverse_map_keys _ _ _ H) as [p Hp]. eapply Hid. exact Hp. }
  induction t as [l ks IH] using term_ind'. rewrite subst_eq. cbv zeta.
  assert (D : map (Node l) (cprod (map (subst (reverse_map s)) ks)) = [Node l ks]).
  { assert (E : map (subst (reverse_map s)) ks = map (fun x => [x]) ks).
    { apply map_ext_in. intros x Hx. rewrite Forall_forall in IH. auto. }
    rewrite E, cprod_singletons. reflexivity. }
  destruct (is_type_kind l).
  { destruct (rm_lookup (reverse_map s) (VType (Node l ks))) as [ps|] eqn:E; [|exact D].
    apply Hnone in E. discriminate. }
  destruct (is_expr_kind l); [|exact D].
  destruct (rm_lookup (reverse_map s) (VExpr (Node l ks))) as [ps|] eqn:E; [|exact D].
  apply Hnone in E. discriminate.
Qed.

Theorem subst_key_identity s b t : all_identity s -> subst_key s b t = [(b, t)].
Proof.
  intro H. unfold subst_key. rewrite !(subst_identity s H). reflexivity.
Qed.

(* ---- round trip ---- *)

(* well-formed substitutions: one entry per key, keys are parameters (what [sup] builds) *)
Definition wf_subs (s : subs) : Prop :=
  NoDup (map fst s) /\
  (forall p v, In (p, v) s -> is_param_ident p = true) /\
  (forall p v, In (p, VExpr v) s -> is_expr_kind (tlabel v) = true).

Lemma expr_not_type l : is_expr_kind l = true -> is_type_kind l = false.
Proof.
  unfold is_expr_kind, is_type_kind. destruct (get 0 (lk l)) as [c|]; [|discriminate].
  destruct c as [[] [] [] [] [] [] [] []]; try discriminate; reflexivity.
Qed.

Lemma stable_eq s rm l ks :
  stable s rm (Node l ks) =
  if (is_type_kind l && is_some (rm_lookup rm (VType (Node l ks))))
     || (is_expr_kind l && is_some (rm_lookup rm (VExpr (Node l ks)))) then true
  else
    let here := match ty_param (Node l ks) with
                | Some q => Some q
                | None => ex_param (Node l ks)
                end in
    match here with
    | Some q => match lookup s q with
                | Some (VType _) | Some (VExpr _) => false
                | _ => forallb (stable s rm) ks
                end
    | None => forallb (stable s rm) ks
    end.
Proof. reflexivity. Qed.

Lemma cprod_in {A} (xss : list (list A)) : forall ys,
  In ys (cprod xss) -> Forall2 (fun y xs => In y xs) ys xss.
Proof.
  induction xss as [|xs xss IH]; simpl; intros ys H.
  - destruct H as [H|[]]; subst; constructor.
  - apply in_flat_map in H. destruct H as (x & Hx & H).
    apply in_map_iff in H. destruct H as (ys' & Hy & H). subst ys. constructor; auto.
Qed.

Lemma ty_param_mk p : is_param_ident p = true -> ty_param (mk_ty_param p) = Some p.
Proof. intro H. unfold mk_ty_param, ty_param, path_param, mk_path_ident. simpl. rewrite H. reflexivity. Qed.

Lemma ex_param_mk p : is_param_ident p = true -> ex_param (mk_ex_param p) = Some p.
Proof. intro H. unfold mk_ex_param, ex_param, path_param, mk_path_ident. simpl. rewrite H. reflexivity. Qed.

Lemma apply_mk_path s p : apply s (mk_path_ident p) = mk_path_ident p.
Proof. unfold mk_path_ident. rewrite apply_by_kind by reflexivity. cbn [map]. rewrite apply_leaf1. reflexivity. Qed.

Lemma apply_param_kids s q :
  map (apply s) [Node (K "ONone" "") []; mk_path_ident q] = [Node (K "ONone" "") []; mk_path_ident q].
Proof. cbn [map]. rewrite apply_leaf, apply_mk_path. reflexivity. Qed.

Lemma lookup_in s : forall p v, lookup s p = Some v -> In (p, v) s.
Proof.
  induction s as [|[q w] s IHs]; simpl; intros p v H; [discriminate|].
  destruct (String.eqb q p) eqn:E.
  - apply String.eqb_eq in E. inversion H; subst. left; reflexivity.
  - right; auto.
Qed.

Lemma map_roundtrip s rm ks :
  Forall (fun k => stable s rm k = true -> forall r, In r (subst rm k) -> apply s r = k) ks ->
  forallb (stable s rm) ks = true ->
  forall ks', Forall2 (fun y xs => In y xs) ks' (map (subst rm) ks) -> map (apply s) ks' = ks.
Proof.
  induction 1 as [|k ks Hk Hks IH]; intros Hst ks' Hin.
  - inversion Hin; subst. reflexivity.
  - simpl in Hst. apply andb_true_iff in Hst. destruct Hst as [S1 S2].
    simpl in Hin. inversion Hin as [|y xs ys' xss Hy Hrest]; subst.
    simpl. f_equal; auto.
Qed.

Theorem subst_roundtrip s : wf_subs s -> forall t,
  stable s (reverse_map s) t = true ->
  forall r, In r (subst (reverse_map s) t) -> apply s r = t.
Proof.
  intros (Hnd & Hpar & Hsort).
  assert (Hrm : forall u ps p, rm_lookup (reverse_map s) u = Some ps -> In p ps ->
                               (lookup s p = Some u \/ (lookup s p = Some VIdentity /\ self_param u = Some p))
                               /\ is_param_ident p = true).
  { intros u ps p H Hp. destruct (reverse_map_sound _ _ _ H) as [_ Hin].
    destruct (Hin p Hp) as [Hi|[Hi Hs]].
    - split; [left; apply lookup_in_nodup; auto | eapply Hpar; eauto].
    - split; [right; auto | eapply Hpar; apply lookup_in; eauto]. }
  assert (Hne : forall u, rm_lookup (reverse_map s) u <> Some []).
  { intros u H. destruct (reverse_map_sound _ _ _ H) as [Hn _]. congruence. }
  induction t as [l ks IH] using term_ind'. intros Hst r Hr.
  rewrite stable_eq in Hst. rewrite subst_eq in Hr. cbv zeta in Hr, Hst.
  (* the descend case, shared by all three branches *)
  assert (Hdesc :
    (is_type_kind l && is_some (rm_lookup (reverse_map s) (VType (Node l ks)))) ||
    (is_expr_kind l && is_some (rm_lookup (reverse_map s) (VExpr (Node l ks)))) = false ->
    In r (map (Node l) (cprod (map (subst (reverse_map s)) ks))) -> apply s r = Node l ks).
  { intros Hcond Hin. rewrite Hcond in Hst.
    apply in_map_iff in Hin. destruct Hin as (ks' & Hr' & Hin). subst r.
    apply cprod_in in Hin.
    assert (Hst_kids : forallb (stable s (reverse_map s)) ks = true).
    { destruct (match ty_param (Node l ks) with Some q => Some q | None => ex_param (Node l ks) end) as [q|];
        [destruct (lookup s q) as [[?|?|]|]; try discriminate; exact Hst | exact Hst]. }
    assert (Hmap : map (apply s) ks' = ks) by (eapply map_roundtrip; eauto).
    rewrite apply_eq. rewrite Hmap. unfold apply_node.
    destruct (ty_param (Node l ks')) as [q|] eqn:Etq.
    { (* the rebuilt node is a type parameter: then so was the original, unchanged *)
      pose proof (ty_param_inv _ _ Etq) as E. inversion E; subst l ks'.
      rewrite apply_param_kids in Hmap. subst ks.
      unfold mk_ty_param in Etq. rewrite Etq in Hst. unfold bound_term.
      destruct (lookup s q) as [[?|?|]|]; try discriminate; reflexivity. }
    destruct (ex_param (Node l ks')) as [q|] eqn:Eeq.
    { pose proof (ex_param_inv _ _ Eeq) as E. inversion E; subst l ks'.
      rewrite apply_param_kids in Hmap. subst ks.
      unfold mk_ex_param in Eeq, Etq. rewrite Etq, Eeq in Hst. unfold bound_term.
      destruct (lookup s q) as [[?|?|]|]; try discriminate; reflexivity. }
    destruct (is_kind "GType" l) eqn:Eg; [|reflexivity].
    destruct ks' as [|c' [|]]; try reflexivity.
    destruct (ty_param c') as [p|] eqn:Ec; try reflexivity.
    destruct (lookup s p) as [[v|v|]|] eqn:Elp; try reflexivity.
    (* a type parameter bound to an expression directly under GType: impossible here *)
    exfalso.
    destruct ks as [|c [|]]; try discriminate. simpl in Hmap. inversion Hmap as [Hc]; clear Hmap.
    inversion Hin as [|? ? ? ? Hin1 _]; subst. inversion IH as [|? ? IHc _]; subst.
    simpl in Hst_kids. rewrite andb_true_r in Hst_kids.
    pose proof (ty_param_inv _ _ Ec) as Ec'. subst c'.
    (* the original child is the expression the parameter is bound to *)
    assert (Hcv : apply s (mk_ty_param p) = v).
    { unfold mk_ty_param. rewrite apply_eq. unfold apply_node.
      unfold mk_ty_param in Ec. rewrite Ec. unfold bound_term. rewrite Elp. reflexivity. }
    assert (Hsv : is_expr_kind (tlabel v) = true).
    { eapply Hsort. apply lookup_in. exact Elp. }
    rewrite Hcv in Hin1. clear - Hin1 Hsv Hne.
    destruct v as [lc kc]. cbn [tlabel] in Hsv.
    rewrite subst_eq in Hin1. cbv zeta in Hin1. rewrite (expr_not_type _ Hsv), Hsv in Hin1.
    unfold replaced in Hin1.
    destruct (rm_lookup (reverse_map s) (VExpr (Node lc kc))) as [[|q0 qs]|] eqn:Er.
    - eapply Hne; eauto.
    - apply in_map_iff in Hin1. destruct Hin1 as (q & Hq & _). discriminate.
    - apply in_map_iff in Hin1. destruct Hin1 as (kc' & Hq & _). unfold mk_ty_param in Hq.
      inversion Hq; subst lc. discriminate. }
  (* now the three branches of [subst] *)
  destruct (is_type_kind l) eqn:Et.
  { unfold replaced in Hr.
    destruct (rm_lookup (reverse_map s) (VType (Node l ks))) as [[|q0 qs]|] eqn:Er.
    - exfalso; eapply Hne; eauto.
    - apply in_map_iff in Hr. destruct Hr as (q & Hq & Hin). subst r.
      destruct (Hrm _ _ _ Er Hin) as [Hl Hp].
      unfold mk_ty_param. rewrite apply_eq. unfold apply_node.
      pose proof (ty_param_mk _ Hp) as E. unfold mk_ty_param in E. rewrite E.
      unfold bound_term. destruct Hl as [Hl|[Hl Hself]]; rewrite Hl; [reflexivity|].
      cbn [self_param] in Hself. apply ty_param_inv in Hself. rewrite Hself. reflexivity.
    - apply Hdesc; [|exact Hr]. cbn [andb is_some orb].
      destruct (is_expr_kind l) eqn:Ee; [|reflexivity].
      apply expr_not_type in Ee. congruence. }
  destruct (is_expr_kind l) eqn:Ee.
  { unfold replaced in Hr.
    destruct (rm_lookup (reverse_map s) (VExpr (Node l ks))) as [[|q0 qs]|] eqn:Er.
    - exfalso; eapply Hne; eauto.
    - apply in_map_iff in Hr. destruct Hr as (q & Hq & Hin). subst r.
      destruct (Hrm _ _ _ Er Hin) as [Hl Hp].
      unfold mk_ex_param. rewrite apply_eq. unfold apply_node.
      assert (Ety : ty_param (Node (K "EPath" "") [Node (K "ONone" "") []; mk_path_ident q]) = None) by reflexivity.
      pose proof (ex_param_mk _ Hp) as E. unfold mk_ex_param in E. rewrite Ety, E.
      unfold bound_term. destruct Hl as [Hl|[Hl Hself]]; rewrite Hl; [reflexivity|].
      cbn [self_param] in Hself. apply ex_param_inv in Hself. rewrite Hself. reflexivity.
    - apply Hdesc; [|exact Hr]. reflexivity. }
  apply Hdesc; [|exact Hr]. reflexivity.
Qed.

Theorem subst_key_roundtrip s bounded trait_ : wf_subs s -> stable_key s bounded trait_ = true ->
  forall rb rt, In (rb, rt) (subst_key s bounded trait_) ->
  apply s rb = bounded /\ apply s rt = trait_.
Proof.
  intros Hwf Hst rb rt Hin. unfold stable_key in Hst. apply andb_true_iff in Hst. destruct Hst as [S1 S2].
  unfold subst_key in Hin. apply in_flat_map in Hin. destruct Hin as (b & Hb & Hin).
  apply in_map_iff in Hin. destruct Hin as (t & E & Ht). inversion E; subst.
  split; eapply subst_roundtrip; eauto.
Qed.

Lemma nodupb_sound l : nodupb l = true -> NoDup l.
Proof.
  induction l as [|x r IH]; simpl; intro H; [constructor|].
  apply andb_true_iff in H. destruct H as [H1 H2]. constructor; auto.
  intro Hin. apply negb_true_iff in H1.
  assert (existsb (String.eqb x) r = true).
  { apply existsb_exists. exists x. split; auto. apply String.eqb_refl. }
  congruence.
Qed.

Lemma wf_subsb_sound s : wf_subsb s = true -> wf_subs s.
Proof.
  unfold wf_subsb, wf_subs. intro H. apply andb_true_iff in H. destruct H as [H1 H2].
  rewrite forallb_forall in H2. split; [apply nodupb_sound; auto|]. split.
  - intros p v Hin. specialize (H2 _ Hin). simpl in H2. apply andb_true_iff in H2. tauto.
  - intros p v Hin. specialize (H2 _ Hin). simpl in H2. apply andb_true_iff in H2. tauto.
Qed.
