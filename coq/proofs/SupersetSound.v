(* proofs/SupersetSound.v -- soundness of the matcher: a reported substitution reproduces
   the instance (up to the documented congruence), for every pair of terms. *)
From Coq Require Import List String Ascii Bool Arith Lia.
Import ListNotations.
From DI Require Import Syntax Subs Superset Spec.
From DI.proofs Require Import Basics.

Lemma sup_eq la ka lb kb :
  sup (Node la ka) (Node lb kb) = sup_step sup (sup (Node la ka)) la ka lb kb.
Proof. reflexivity. Qed.

Lemma apply_eq s l ks : apply s (Node l ks) = apply_node s l ks (map (apply s) ks).
Proof. reflexivity. Qed.

Lemma equivb_eq la ka lb kb :
  equivb (Node la ka) (Node lb kb) = equiv_step equivb (equivb (Node la ka)) la ka lb kb.
Proof. reflexivity. Qed.

(* ---- kinds ---- *)

Lemma kind_excl k1 k2 l : is_kind k1 l = true -> String.eqb k1 k2 = false -> is_kind k2 l = false.
Proof.
  unfold is_kind; intros H1 H2. apply String.eqb_eq in H1. rewrite H1. exact H2.
Qed.

Lemma label_eqb_kind l k d : label_eqb l (K k d) = true -> is_kind k l = true.
Proof. intro H; apply label_eqb_eq in H; subst; unfold is_kind; simpl; apply String.eqb_refl. Qed.

Lemma is_kind_label_neq l k d k' :
  is_kind k' l = true -> String.eqb k' k = false -> label_eqb l (K k d) = false.
Proof.
  intros H1 H2. destruct (label_eqb l (K k d)) eqn:E; auto.
  apply label_eqb_kind in E. rewrite (kind_excl _ _ _ H1 H2) in E. discriminate.
Qed.

(* ---- parameters ---- *)

Lemma path_param_inv t p : path_param t = Some p -> t = mk_path_ident p.
Proof.
  destruct t as [lp ks]. destruct ks as [|x ks]; simpl; try discriminate.
  destruct x as [ls k2]. destruct k2 as [|y k2]; try discriminate.
  destruct y as [la k3]. destruct k3; try discriminate.
  destruct k2; try discriminate. destruct ks; try discriminate.
  destruct (label_eqb lp (K "Path" "")) eqn:E1; simpl; try discriminate.
  destruct (is_kind "Seg" ls) eqn:E2; simpl; try discriminate.
  destruct (label_eqb la (K "ANone" "")) eqn:E3; simpl; try discriminate.
  destruct (is_param_ident (ld ls)) eqn:E4; simpl; try discriminate.
  intro H; inversion H; subst.
  apply label_eqb_eq in E1; apply label_eqb_eq in E3; apply is_kind_eq in E2.
  subst. unfold mk_path_ident. destruct ls as [k d]; simpl in *; subst. reflexivity.
Qed.

Lemma ty_param_inv t p : ty_param t = Some p -> t = mk_ty_param p.
Proof.
  destruct t as [l ks]. destruct ks as [|x ks]; simpl; try discriminate.
  destruct x as [lq kq]. destruct kq; try discriminate.
  destruct ks as [|y ks]; try discriminate. destruct ks; try discriminate.
  destruct (label_eqb l (K "TPath" "")) eqn:E1; simpl; try discriminate.
  destruct (label_eqb lq (K "ONone" "")) eqn:E2; simpl; try discriminate.
  intro H. apply path_param_inv in H. apply label_eqb_eq in E1; apply label_eqb_eq in E2.
  subst. reflexivity.
Qed.

Lemma ex_param_inv t p : ex_param t = Some p -> t = mk_ex_param p.
Proof.
  destruct t as [l ks]. destruct ks as [|x ks]; simpl; try discriminate.
  destruct x as [lq kq]. destruct kq; try discriminate.
  destruct ks as [|y ks]; try discriminate. destruct ks; try discriminate.
  destruct (label_eqb l (K "EPath" "")) eqn:E1; simpl; try discriminate.
  destruct (label_eqb lq (K "ONone" "")) eqn:E2; simpl; try discriminate.
  intro H. apply path_param_inv in H. apply label_eqb_eq in E1; apply label_eqb_eq in E2.
  subst. reflexivity.
Qed.

Lemma ty_param_kind l ks : is_kind "TPath" l = false -> ty_param (Node l ks) = None.
Proof.
  intro H. destruct (ty_param (Node l ks)) eqn:E; auto.
  apply ty_param_inv in E. inversion E; subst. discriminate.
Qed.

Lemma ex_param_kind l ks : is_kind "EPath" l = false -> ex_param (Node l ks) = None.
Proof.
  intro H. destruct (ex_param (Node l ks)) eqn:E; auto.
  apply ex_param_inv in E. inversion E; subst. discriminate.
Qed.

Lemma ty_param_arity1 l x : ty_param (Node l [x]) = None.
Proof.
  destruct (ty_param (Node l [x])) eqn:E; auto. apply ty_param_inv in E. inversion E.
Qed.

Lemma ex_param_arity1 l x : ex_param (Node l [x]) = None.
Proof.
  destruct (ex_param (Node l [x])) eqn:E; auto. apply ex_param_inv in E. inversion E.
Qed.

Lemma ty_ex_excl t p : ty_param t = Some p -> ex_param t = None.
Proof.
  intro H. apply ty_param_inv in H; subst. reflexivity.
Qed.

(* apply on a node that is not a parameter and not a type argument *)
Lemma apply_plain_node s l ks :
  ty_param (Node l ks) = None -> ex_param (Node l ks) = None -> is_kind "GType" l = false ->
  apply s (Node l ks) = Node l (map (apply s) ks).
Proof.
  intros H1 H2 H3. rewrite apply_eq. unfold apply_node. rewrite H1, H2, H3. reflexivity.
Qed.

Lemma apply_by_kind s l ks :
  is_kind "TPath" l = false -> is_kind "EPath" l = false -> is_kind "GType" l = false ->
  apply s (Node l ks) = Node l (map (apply s) ks).
Proof.
  intros. apply apply_plain_node; auto using ty_param_kind, ex_param_kind.
Qed.

(* ---- equivb: reflexivity and wrappers ---- *)

Lemma lifetime_ok_refl l : lifetime_ok l l = true.
Proof. unfold lifetime_ok. rewrite String.eqb_refl. rewrite !orb_true_r. reflexivity. Qed.

Lemma abi_names_ok_refl a : abi_names_ok a a = true.
Proof. unfold abi_names_ok. destruct (abi_name a); auto using String.eqb_refl. Qed.

Lemma equivb_wrap_r x : forall l e,
  is_wrap l = true -> equivb x e = true -> equivb x (Node l [e]) = true.
Proof.
  induction x as [lx kx IH] using term_ind'; intros l e Hl H.
  rewrite equivb_eq. unfold equiv_step. rewrite Hl.
  destruct e as [le ke]. rewrite equivb_eq in H. unfold equiv_step in H.
  destruct (is_wrap lx) eqn:Ex.
  - destruct kx as [|x' [|]]; try (rewrite equivb_eq; unfold equiv_step; rewrite Ex; exact H).
    inversion IH; subst. auto.
  - rewrite equivb_eq. unfold equiv_step. rewrite Ex. exact H.
Qed.

Lemma equivb_refl a : equivb a a = true.
Proof.
  induction a as [la ka IH] using term_ind'.
  rewrite equivb_eq. unfold equiv_step.
  assert (Hrest :
    (if equiv_special la ka la ka then true
     else if label_eqb la la then
       if is_kind "EBinary" la && commutative_op (ld la) then
         match ka, ka with
         | [l1; r1], [l2; r2] => (equivb l1 l2 && equivb r1 r2) || (equivb l1 r2 && equivb r1 l2)
         | _, _ => all2_with equivb ka ka
         end
       else if is_kind "EMethodCall" la then
         match ka, ka with
         | rc1 :: tf1 :: args1, rc2 :: tf2 :: args2 =>
             equivb rc1 rc2 &&
             (is_kind "ONone" (tlabel tf1) || is_kind "ONone" (tlabel tf2) || equivb tf1 tf2) &&
             all2_with equivb args1 args2
         | _, _ => all2_with equivb ka ka
         end
       else all2_with equivb ka ka
     else false) = true).
  { destruct (equiv_special la ka la ka); [reflexivity|].
    rewrite label_eqb_refl.
    pose proof (all2_with_refl equivb ka IH) as Hall.
    destruct (is_kind "EBinary" la && commutative_op (ld la)).
    - destruct ka as [|l1 [|r1 [|]]]; auto.
      inversion IH as [|? ? H1 IH']; subst. inversion IH' as [|? ? H2 _]; subst.
      rewrite H1, H2. reflexivity.
    - destruct (is_kind "EMethodCall" la); auto.
      destruct ka as [|rc [|tf args]]; auto.
      inversion IH as [|? ? H1 IH']; subst. inversion IH' as [|? ? H2 IH'']; subst.
      rewrite H1, H2. rewrite (all2_with_refl equivb args IH''). rewrite !orb_true_r. reflexivity. }
  destruct (is_wrap la) eqn:Ew.
  - destruct ka as [|e [|]]; try exact Hrest.
    inversion IH; subst. apply equivb_wrap_r; auto.
  - exact Hrest.
Qed.

(* ---- the invariant ---- *)

Definition good (a b : term) (s : subs) : Prop :=
  forall s', ext s s' -> equivb (apply s' a) b = true.

Lemma kids_good f xs :
  Forall (fun x => forall y s, f x y = Some s -> good x y s) xs ->
  forall ys acc s, kids_with f acc xs ys = Some s ->
    ext acc s /\ forall s', ext s s' -> all2_with equivb (map (apply s') xs) ys = true.
Proof.
  induction 1 as [|x xs Hx Hxs IH]; intros [|y ys] acc s H; simpl in H; try discriminate.
  - inversion H; subst. split; [apply ext_refl | reflexivity].
  - destruct (f x y) as [s1|] eqn:E1; try discriminate.
    destruct (merge acc s1) as [acc'|] eqn:E2; try discriminate.
    destruct (IH _ _ _ H) as [Hext Hall].
    pose proof (merge_ext_l _ _ _ E2) as Hl. pose proof (merge_ext_r _ _ _ E2) as Hr.
    split; [eapply ext_trans; eauto|].
    intros s' Hs'. simpl. rewrite Hall by assumption.
    rewrite (Hx _ _ E1 s'); [reflexivity|].
    eapply ext_trans; [exact Hr|]. eapply ext_trans; eauto.
Qed.

Lemma kids_good0 f xs ys s :
  Forall (fun x => forall y s, f x y = Some s -> good x y s) xs ->
  kids_with f [] xs ys = Some s ->
  forall s', ext s s' -> all2_with equivb (map (apply s') xs) ys = true.
Proof. intros H1 H2. exact (proj2 (kids_good f xs H1 ys [] s H2)). Qed.

Lemma lookup_single p v q : lookup [(p, v)] q = if String.eqb p q then Some v else None.
Proof. reflexivity. Qed.

Lemma ext_single p v s' : ext [(p, v)] s' -> lookup s' p = Some v.
Proof. intro H. apply H. simpl. rewrite String.eqb_refl. reflexivity. Qed.

Lemma garg_good x :
  (forall y s, sup x y = Some s -> good x y s) ->
  forall y s, garg_with sup x y = Some s -> good x y s.
Proof.
  intros IH y s H. destruct x as [lx kx], y as [ly ky]. unfold garg_with in H.
  destruct (is_kind "GType" lx && is_kind "GConst" ly) eqn:E; [|eauto].
  apply andb_true_iff in E; destruct E as [E1 E2].
  destruct kx as [|tx [|]]; try discriminate. destruct ky as [|ey [|]]; try discriminate.
  destruct (ty_param tx) as [p|] eqn:Ep; try discriminate.
  destruct (label_eqb ly (K "GConst" "") && is_expr_kind (tlabel ey)) eqn:El; try discriminate.
  apply andb_true_iff in El. destruct El as [El _].
  inversion H; subst; clear H. apply label_eqb_eq in El; subst ly.
  intros s' Hs'. unfold subs_ex in Hs'. apply ext_single in Hs'.
  rewrite apply_eq. unfold apply_node.
  rewrite ty_param_arity1, ex_param_arity1, E1, Ep, Hs'. apply equivb_refl.
Qed.

(* labels that are neither wrappers nor special in [equiv_step] *)
Lemma equiv_generic la ka kb :
  is_wrap la = false ->
  is_kind "EBinary" la = false -> is_kind "EMethodCall" la = false ->
  all2_with equivb ka kb = true ->
  equivb (Node la ka) (Node la kb) = true.
Proof.
  intros H1 H4 H5 H. rewrite equivb_eq. unfold equiv_step.
  rewrite H1, H4, H5, label_eqb_refl. simpl.
  destruct (equiv_special la ka la kb); auto.
Qed.

(* ---- more kind bookkeeping ---- *)

Lemma not_wrap_of_kind k l :
  is_kind k l = true ->
  String.eqb k "TParen" = false -> String.eqb k "TGroup" = false -> String.eqb k "EGroup" = false ->
  is_wrap l = false.
Proof.
  intros H H1 H2 H3. unfold is_wrap, is_ty_wrap, is_ex_group.
  rewrite (kind_excl _ _ _ H H1), (kind_excl _ _ _ H H2), (kind_excl _ _ _ H H3). reflexivity.
Qed.

Lemma wrap_kinds l :
  is_wrap l = true ->
  is_kind "TPath" l = false /\ is_kind "EPath" l = false /\ is_kind "GType" l = false.
Proof.
  unfold is_wrap, is_ty_wrap, is_ex_group. intro H.
  apply orb_true_iff in H. destruct H as [H|H]; [apply orb_true_iff in H; destruct H as [H|H]|];
    repeat split; (eapply kind_excl; [exact H | reflexivity]).
Qed.

Lemma apply_wrap s l e : is_wrap l = true -> apply s (Node l [e]) = Node l [apply s e].
Proof.
  intro H. destruct (wrap_kinds _ H) as (H1 & H2 & H3). apply apply_by_kind; auto.
Qed.

Lemma equivb_wrap_l l e b : is_wrap l = true -> equivb e b = true -> equivb (Node l [e]) b = true.
Proof.
  intros Hl H. destruct b as [lb kb]. rewrite equivb_eq. unfold equiv_step. rewrite Hl. exact H.
Qed.

(* a type parameter on the left only ever produces a Type binding or the identity *)
Lemma sup_ty_param c p : ty_param c = Some p -> forall y s,
  sup c y = Some s ->
  s = [(p, VIdentity)] \/ exists t, s = [(p, VType t)].
Proof.
  intros Hc. pose proof (ty_param_inv _ _ Hc) as Hcc. subst c.
  induction y as [ly ky IH] using term_ind'; intros s H.
  unfold mk_ty_param in H. rewrite sup_eq in H. unfold sup_step in H.
  change (is_ty_wrap (K "TPath" "")) with false in H.
  change (is_type_kind (K "TPath" "")) with true in H.
  cbv iota in H. rewrite andb_true_l in H.
  destruct (is_ty_wrap ly) eqn:Ew.
  - destruct ky as [|e [|]]; try discriminate. inversion IH; subst. auto.
  - change (is_ex_group (K "TPath" "")) with false in H.
    change (is_expr_kind (K "TPath" "")) with false in H. cbv iota in H. simpl andb in H.
    cbv iota in H. unfold mk_ty_param in Hc. rewrite Hc in H.
    unfold param_vs in H.
    destruct (ty_param (Node ly ky)) as [q|].
    + destruct (String.eqb p q); inversion H; subst; [left; reflexivity | right; eexists; reflexivity].
    + inversion H; subst. right; eexists; reflexivity.
Qed.

Lemma apply_leaf s l : apply s (Node l []) = Node l [].
Proof.
  rewrite apply_eq. unfold apply_node. simpl. destruct (is_kind "GType" l); reflexivity.
Qed.

Lemma apply_leaf1 s ln ls : apply s (Node ln [Node ls []]) = Node ln [Node ls []].
Proof.
  rewrite apply_eq. unfold apply_node. rewrite ty_param_arity1, ex_param_arity1.
  cbn [map]. rewrite apply_leaf.
  destruct (is_kind "GType" ln); reflexivity.
Qed.

Ltac destruct_matches H :=
  repeat match type of H with
         | context [match ?x with _ => _ end] => destruct x; try discriminate H
         end.

Lemma apply_abi s x : abi_shape x = true -> apply s x = x.
Proof.
  destruct x as [l ks]. unfold abi_shape. intro H. destruct_matches H.
  - rewrite apply_by_kind; try (eapply kind_excl; [exact H|reflexivity]).
    cbn [map]. rewrite apply_leaf. reflexivity.
  - rewrite apply_by_kind; try (eapply kind_excl; [exact H|reflexivity]).
    cbn [map]. rewrite apply_leaf1. reflexivity.
Qed.

Lemma abi_good s' abi1 abi2 : abi_ok abi1 abi2 = true -> equivb (apply s' abi1) abi2 = true.
Proof.
  destruct abi1 as [la ka], abi2 as [lb kb]. unfold abi_ok.
  destruct ka as [|x [|]]; destruct kb as [|y [|]]; try discriminate.
  - intro H. apply andb_true_iff in H. destruct H as [H1 H2].
    apply label_eqb_eq in H1; apply label_eqb_eq in H2; subst.
    rewrite apply_leaf. apply equivb_refl.
  - intro H. do 4 (apply andb_true_iff in H; destruct H as [H ?]).
    apply label_eqb_eq in H; subst la. apply label_eqb_eq in H3; subst lb.
    rewrite apply_by_kind by reflexivity. cbn [map]. rewrite apply_abi by assumption.
    apply equiv_generic; try reflexivity. simpl. rewrite andb_true_r.
    destruct x as [lx kx], y as [ly ky].
    assert (Hx : is_kind "Abi" lx = true).
    { simpl in H2. destruct kx as [|[? [|[? [|]] [|]]] [|]]; try discriminate; auto. }
    assert (Hy : is_kind "Abi" ly = true).
    { simpl in H1. destruct ky as [|[? [|[? [|]] [|]]] [|]]; try discriminate; auto. }
    rewrite equivb_eq. unfold equiv_step, equiv_special.
    rewrite (not_wrap_of_kind _ _ Hx) by reflexivity.
    rewrite (not_wrap_of_kind _ _ Hy) by reflexivity.
    rewrite Hx, Hy, H0. rewrite orb_true_r. reflexivity.
Qed.

Lemma equiv_binary la x1 x2 y1 y2 :
  is_kind "EBinary" la = true ->
  (equivb x1 y1 = true /\ equivb x2 y2 = true) \/
  (commutative_op (ld la) = true /\ equivb x1 y2 = true /\ equivb x2 y1 = true) ->
  equivb (Node la [x1; x2]) (Node la [y1; y2]) = true.
Proof.
  intros Hk Hor. rewrite equivb_eq. unfold equiv_step.
  rewrite (not_wrap_of_kind _ _ Hk) by reflexivity.
  rewrite (kind_excl _ "EMethodCall" _ Hk) by reflexivity.
  rewrite label_eqb_refl, Hk. cbn [andb].
  destruct (equiv_special la [x1; x2] la [y1; y2]); [reflexivity|].
  destruct (commutative_op (ld la)); destruct Hor as [[A B]|[C [A B]]];
    try discriminate; cbn [all2_with]; rewrite A, B; cbn; auto using orb_true_r.
Qed.

Lemma equiv_mcall la r1 t1 a1 r2 t2 a2 :
  is_kind "EMethodCall" la = true ->
  equivb r1 r2 = true ->
  is_kind "ONone" (tlabel t1) || is_kind "ONone" (tlabel t2) || equivb t1 t2 = true ->
  all2_with equivb a1 a2 = true ->
  equivb (Node la (r1 :: t1 :: a1)) (Node la (r2 :: t2 :: a2)) = true.
Proof.
  intros Hk H1 H2 H3. rewrite equivb_eq. unfold equiv_step.
  rewrite (not_wrap_of_kind _ _ Hk) by reflexivity.
  rewrite (kind_excl _ "EBinary" _ Hk) by reflexivity.
  rewrite label_eqb_refl, Hk. cbn [andb]. rewrite H1, H2, H3.
  destruct (equiv_special la (r1 :: t1 :: a1) la (r2 :: t2 :: a2)); reflexivity.
Qed.

Lemma merge_nil_single p v : merge [] [(p, v)] = Some [(p, v)].
Proof. reflexivity. Qed.

Theorem sup_good : forall a b s, sup a b = Some s -> good a b s.
Proof.
  induction a as [la ka IHa] using term_ind'.
  induction b as [lb kb IHb] using term_ind'.
  intros s Hs. rewrite sup_eq in Hs. unfold sup_step in Hs.
  (* left type wrapper *)
  destruct (is_ty_wrap la) eqn:Ewa.
  { destruct ka as [|e [|]]; try discriminate.
    inversion IHa as [|? ? He _]; subst.
    intros s' Hs'. assert (Hw : is_wrap la = true) by (unfold is_wrap; rewrite Ewa; reflexivity).
    rewrite apply_wrap by assumption. apply equivb_wrap_l; auto. eapply He; eauto. }
  (* right type wrapper *)
  destruct (is_type_kind la && is_ty_wrap lb) eqn:Ewb.
  { apply andb_true_iff in Ewb. destruct Ewb as [_ Ewb].
    destruct kb as [|e [|]]; try discriminate.
    inversion IHb as [|? ? He _]; subst.
    intros s' Hs'. apply equivb_wrap_r; [unfold is_wrap; rewrite Ewb; reflexivity|].
    eapply He; eauto. }
  (* left expression group *)
  destruct (is_ex_group la) eqn:Ega.
  { destruct ka as [|e [|]]; try discriminate.
    inversion IHa as [|? ? He _]; subst.
    intros s' Hs'. assert (Hw : is_wrap la = true) by (unfold is_wrap; rewrite Ega; apply orb_true_r).
    rewrite apply_wrap by assumption. apply equivb_wrap_l; auto. eapply He; eauto. }
  destruct (is_expr_kind la && is_ex_group lb) eqn:Egb.
  { apply andb_true_iff in Egb. destruct Egb as [_ Egb].
    destruct kb as [|e [|]]; try discriminate.
    inversion IHb as [|? ? He _]; subst.
    intros s' Hs'. apply equivb_wrap_r; [unfold is_wrap; rewrite Egb; apply orb_true_r|].
    eapply He; eauto. }
  assert (Hwa : is_wrap la = false) by (unfold is_wrap; rewrite Ewa, Ega; reflexivity).
  (* type parameter *)
  destruct (ty_param (Node la ka)) as [p|] eqn:Etp.
  { intros s' Hs'. rewrite apply_eq. unfold apply_node. rewrite Etp. unfold bound_term.
    unfold param_vs in Hs.
    destruct (ty_param (Node lb kb)) as [q|] eqn:Eq.
    - destruct (String.eqb p q) eqn:Epq; inversion Hs; subst; clear Hs.
      + apply String.eqb_eq in Epq; subst q.
        apply ext_single in Hs'. rewrite Hs'.
        apply ty_param_inv in Etp. apply ty_param_inv in Eq. rewrite Etp, Eq. apply equivb_refl.
      + unfold subs_ty in Hs'. apply ext_single in Hs'. rewrite Hs'. apply equivb_refl.
    - inversion Hs; subst. unfold subs_ty in Hs'. apply ext_single in Hs'. rewrite Hs'.
      apply equivb_refl. }
  (* expression parameter *)
  destruct (ex_param (Node la ka)) as [p|] eqn:Eep.
  { destruct (is_expr_kind lb); [|discriminate].
    intros s' Hs'. rewrite apply_eq. unfold apply_node. rewrite Etp, Eep. unfold bound_term.
    unfold param_vs in Hs.
    destruct (ex_param (Node lb kb)) as [q|] eqn:Eq.
    - destruct (String.eqb p q) eqn:Epq; inversion Hs; subst; clear Hs.
      + apply String.eqb_eq in Epq; subst q.
        apply ext_single in Hs'. rewrite Hs'.
        apply ex_param_inv in Eep. apply ex_param_inv in Eq. rewrite Eep, Eq. apply equivb_refl.
      + unfold subs_ex in Hs'. apply ext_single in Hs'. rewrite Hs'. apply equivb_refl.
    - inversion Hs; subst. unfold subs_ex in Hs'. apply ext_single in Hs'. rewrite Hs'.
      apply equivb_refl. }
  (* lifetimes *)
  destruct (is_kind "Lifetime" la) eqn:Elt.
  { destruct ka; try discriminate. destruct kb; try discriminate.
    destruct (is_kind "Lifetime" lb && lifetime_ok la lb) eqn:E; try discriminate.
    inversion Hs; subst. intros s' _. rewrite apply_leaf.
    rewrite equivb_eq. unfold equiv_step, equiv_special. rewrite Hwa.
    assert (Hwb : is_wrap lb = false).
    { apply andb_true_iff in E; destruct E as [E _]. eapply not_wrap_of_kind; eauto. }
    apply andb_true_iff in E; destruct E as [E1 E2].
    rewrite Hwb, Elt, E1, E2. reflexivity. }
  (* generic shape: apply keeps the node *)
  assert (Hgen : forall s0, kids_with sup [] ka kb = Some s0 -> is_kind "GType" la = false ->
                 is_kind "EBinary" la = false -> is_kind "EMethodCall" la = false ->
                 good (Node la ka) (Node la kb) s0).
  { intros s0 Hk G1 G2 G3 s' Hs'. rewrite apply_plain_node by assumption.
    apply equiv_generic; auto. eapply kids_good0; eauto. }
  (* qualified self *)
  destruct (is_kind "QSelf" la) eqn:Eqs.
  { destruct (label_eqb la lb) eqn:El; try discriminate. apply label_eqb_eq in El; subst lb.
    destruct (kids_with sup [] ka kb) as [s0|] eqn:Ek; try discriminate.
    destruct (is_eq s0); inversion Hs; subst.
    apply Hgen; auto; eapply kind_excl; eauto. }
  (* paths *)
  destruct (is_kind "Path" la) eqn:Epa.
  { destruct (label_eqb la lb && Nat.eqb (List.length ka) (List.length kb)) eqn:El; try discriminate.
    apply andb_true_iff in El; destruct El as [El _]. apply label_eqb_eq in El; subst lb.
    assert (Hg : forall s0, kids_with sup [] ka kb = Some s0 -> good (Node la ka) (Node la kb) s0).
    { intros; apply Hgen; auto; eapply kind_excl; eauto. }
    destruct (path_param (Node la ka)) as [p|] eqn:Ep1; [|auto].
    destruct (path_param (Node la kb)) as [q|] eqn:Ep2; [|auto].
    destruct (String.eqb p q) eqn:Epq; [|auto].
    inversion Hs; subst. apply String.eqb_eq in Epq; subst q.
    apply path_param_inv in Ep1. apply path_param_inv in Ep2. intros s' _. rewrite Ep1, Ep2.
    unfold mk_path_ident. rewrite apply_by_kind by reflexivity. cbn [map]. rewrite apply_leaf1.
    apply equivb_refl. }
  (* generic argument lists *)
  destruct (is_kind "AAngle" la) eqn:Eaa.
  { destruct (label_eqb la lb) eqn:El; try discriminate. apply label_eqb_eq in El; subst lb.
    intros s' Hs'. rewrite apply_plain_node; auto; [|eapply kind_excl; eauto].
    apply equiv_generic; auto; try (eapply kind_excl; [exact Eaa|reflexivity]).
    eapply kids_good0; [|exact Hs|exact Hs'].
    eapply Forall_impl; [|exact IHa]. intros x Hx. apply garg_good. exact Hx. }
  (* bare fn types *)
  destruct (is_kind "TBareFn" la) eqn:Ebf.
  { destruct (label_eqb la lb) eqn:El; try discriminate. apply label_eqb_eq in El; subst lb.
    destruct ka as [|lt1 [|abi1 [|in1 [|out1 [|]]]]]; try discriminate.
    destruct kb as [|lt2 [|abi2 [|in2 [|out2 [|]]]]]; try discriminate.
    destruct (Nat.eqb (List.length (tkids in1)) (List.length (tkids in2)) && abi_ok abi1 abi2) eqn:Ec;
      try discriminate.
    apply andb_true_iff in Ec; destruct Ec as [_ Eabi].
    apply omerge_some in Hs. destruct Hs as (s12 & s3 & H12 & H3 & Hm).
    apply omerge_some in H12. destruct H12 as (s1 & s2 & H1 & H2 & Hm12).
    inversion IHa as [|? ? G1 IH1]; subst. inversion IH1 as [|? ? _ IH2]; subst.
    inversion IH2 as [|? ? G3 IH3]; subst. inversion IH3 as [|? ? G4 _]; subst.
    intros s' Hs'. rewrite apply_plain_node; auto; [|eapply kind_excl; eauto].
    apply equiv_generic; auto; try (eapply kind_excl; [exact Ebf|reflexivity]).
    cbn [map all2_with].
    pose proof (merge_ext_l _ _ _ Hm12) as X1. pose proof (merge_ext_r _ _ _ Hm12) as X2.
    pose proof (merge_ext_l _ _ _ Hm) as X3. pose proof (merge_ext_r _ _ _ Hm) as X4.
    rewrite (G1 _ _ H1 s') by (eauto using ext_trans).
    rewrite (abi_good s' _ _ Eabi).
    rewrite (G3 _ _ H2 s') by (eauto using ext_trans).
    rewrite (G4 _ _ H3 s') by (eauto using ext_trans).
    reflexivity. }
  (* binary expressions *)
  destruct (is_kind "EBinary" la) eqn:Ebin.
  { destruct (label_eqb la lb) eqn:El; try discriminate. apply label_eqb_eq in El; subst lb.
    destruct ka as [|l1 [|r1 [|]]]; try discriminate.
    destruct kb as [|l2 [|r2 [|]]]; try discriminate.
    inversion IHa as [|? ? G1 IH1]; subst. inversion IH1 as [|? ? G2 _]; subst.
    assert (Happ : forall s', apply s' (Node la [l1; r1]) = Node la [apply s' l1; apply s' r1]).
    { intro s'. rewrite apply_plain_node; auto. eapply kind_excl; eauto. }
    destruct (sup l1 l2) as [s1|] eqn:E1.
    - apply omerge_some in Hs. destruct Hs as (x & y & Hx & Hy & Hm). inversion Hx; subst x.
      pose proof (merge_ext_l _ _ _ Hm) as X1. pose proof (merge_ext_r _ _ _ Hm) as X2.
      intros s' Hs'. rewrite Happ. apply equiv_binary; auto. left. split.
      + apply (G1 _ _ E1). eauto using ext_trans.
      + apply (G2 _ _ Hy). eauto using ext_trans.
    - destruct (commutative_op (ld la)) eqn:Ecomm; try discriminate.
      apply omerge_some in Hs. destruct Hs as (x & y & Hx & Hy & Hm).
      pose proof (merge_ext_l _ _ _ Hm) as X1. pose proof (merge_ext_r _ _ _ Hm) as X2.
      intros s' Hs'. rewrite Happ. apply equiv_binary; auto. right. repeat split; auto.
      + apply (G1 _ _ Hx). eauto using ext_trans.
      + apply (G2 _ _ Hy). eauto using ext_trans. }
  (* method calls *)
  destruct (is_kind "EMethodCall" la) eqn:Emc.
  { destruct (label_eqb la lb && Nat.eqb (List.length ka) (List.length kb)) eqn:El; try discriminate.
    apply andb_true_iff in El; destruct El as [El _]. apply label_eqb_eq in El; subst lb.
    destruct ka as [|rc1 [|tf1 args1]]; try discriminate.
    destruct kb as [|rc2 [|tf2 args2]]; try discriminate.
    inversion IHa as [|? ? G1 IH1]; subst. inversion IH1 as [|? ? G2 IH2]; subst.
    apply omerge_some in Hs. destruct Hs as (s12 & s3 & H12 & H3 & Hm).
    apply omerge_some in H12. destruct H12 as (s1 & s2 & H1 & H2 & Hm12).
    pose proof (merge_ext_l _ _ _ Hm12) as X1. pose proof (merge_ext_r _ _ _ Hm12) as X2.
    pose proof (merge_ext_l _ _ _ Hm) as X3. pose proof (merge_ext_r _ _ _ Hm) as X4.
    intros s' Hs'. rewrite apply_plain_node; auto; [|eapply kind_excl; eauto].
    cbn [map]. apply equiv_mcall; auto.
    - apply (G1 _ _ H1). eauto using ext_trans.
    - destruct (is_kind "ONone" (tlabel tf1) || is_kind "ONone" (tlabel tf2)) eqn:Etf.
      + apply orb_true_iff in Etf. destruct Etf as [Etf|Etf].
        * destruct tf1 as [lt kt]. cbn [tlabel] in Etf.
          rewrite apply_by_kind by (eapply kind_excl; [exact Etf|reflexivity]).
          cbn [tlabel]. rewrite Etf. reflexivity.
        * rewrite Etf. rewrite orb_true_r. reflexivity.
      + rewrite (G2 _ _ H2 s') by (eauto using ext_trans). apply orb_true_r.
    - eapply kids_good0; [exact IH2|exact H3|]. eauto using ext_trans. }
  (* the generic rule *)
  destruct (label_eqb la lb) eqn:El; try discriminate. apply label_eqb_eq in El; subst lb.
  destruct (is_kind "GType" la) eqn:Egt; [|apply Hgen; auto].
  intros s' Hs'.
  assert (Happ : apply s' (Node la ka) = Node la (map (apply s') ka)).
  { rewrite apply_eq. unfold apply_node. rewrite Etp, Eep, Egt.
    destruct ka as [|c [|]]; try reflexivity.
    destruct (ty_param c) as [p|] eqn:Ec; try reflexivity.
    destruct kb as [|y [|]]; cbn [kids_with] in Hs; try discriminate.
    - destruct (sup c y) as [s1|] eqn:E1; try discriminate.
      destruct (sup_ty_param _ _ Ec _ _ E1) as [Hv|[t Hv]]; subst s1;
        rewrite merge_nil_single in Hs; inversion Hs; subst; apply ext_single in Hs'; rewrite Hs'; reflexivity.
    - destruct (sup c y) as [s1|]; try discriminate. destruct (merge [] s1); discriminate. }
  rewrite Happ. apply equiv_generic; auto. eapply kids_good0; eauto.
Qed.

(* the headline statement: the reported substitution reproduces the instance *)
Corollary sup_sound a b s : sup a b = Some s -> equivb (apply s a) b = true.
Proof. intro H. exact (sup_good a b s H s (ext_refl s)). Qed.
