(* proofs/SupersetComplete.v -- completeness of the matcher: whenever the second term is the
   first one with its parameters substituted (and no parameter beneath a qualified self type
   is moved), the matcher finds the substitution. *)
From Coq Require Import List String Ascii Bool Arith Lia.
Import ListNotations.
From DI Require Import Syntax Subs Superset Spec.
From DI.proofs Require Import Basics SupersetSound SupersetExact.

Lemma lookup_in s : forall p v, lookup s p = Some v -> In (p, v) s.
Proof.
  induction s as [|[q w] s IH]; simpl; intros p v H; [discriminate|].
  destruct (String.eqb q p) eqn:E.
  - apply String.eqb_eq in E. inversion H; subst. left; reflexivity.
  - right; auto.
Qed.

Lemma cwf_eq theta l ks :
  cwf theta (Node l ks) =
  match ty_param (Node l ks) with
  | Some p =>
      match lookup theta p with
      | Some (VType v) => negb (is_wrap (tlabel v)) && negb (term_eqb v (mk_ty_param p))
      | Some (VExpr _) => false
      | _ => true
      end
  | None =>
  match ex_param (Node l ks) with
  | Some p =>
      match lookup theta p with
      | Some (VExpr v) => negb (is_wrap (tlabel v)) && negb (term_eqb v (mk_ex_param p)) &&
                            is_expr_kind (tlabel v)
      | Some (VType _) => false
      | _ => true
      end
  | None =>
      negb (is_wrap l) && forallb (cwf theta) ks &&
      (if is_kind "Lifetime" l then is_nil ks
       else if is_kind "QSelf" l then forallb (self_bound theta) (flat_map params ks)
       else if is_kind "Path" l then is_none (path_param (Node l ks))
       else if is_kind "TBareFn" l then
         match ks with
         | [lt; abi; ins; out] => abi_ok abi abi && is_kind "List" (tlabel ins)
         | _ => false
         end
       else if is_kind "EBinary" l then Nat.eqb (List.length ks) 2
       else if is_kind "EMethodCall" l then Nat.leb 2 (List.length ks)
       else true)
  end end.
Proof. reflexivity. Qed.

Lemma params_eq l ks :
  params (Node l ks) =
  match ty_param (Node l ks) with
  | Some p => [p]
  | None => match ex_param (Node l ks) with Some p => [p] | None => flat_map params ks end
  end.
Proof. reflexivity. Qed.

(* ---- substitutions that agree with theta merge ---- *)

Definition dom_in (s : subs) (ps : list string) : Prop := forall p v, In (p, v) s -> In p ps.

Lemma agrees_nil theta : agrees [] theta. Proof. intros p v []. Qed.
Lemma dom_nil ps : dom_in [] ps. Proof. intros p v []. Qed.

Lemma merge_agrees theta ps o : forall s,
  agrees s theta -> agrees o theta -> dom_in s ps -> dom_in o ps ->
  exists r, merge s o = Some r /\ agrees r theta /\ dom_in r ps.
Proof.
  induction o as [|[p v] o IH]; simpl; intros s As Ao Ds Do.
  - eauto.
  - assert (Hv : v = value_of theta p) by (apply Ao; left; reflexivity).
    assert (Ao' : agrees o theta) by (intros q w Hq; apply Ao; right; exact Hq).
    assert (Do' : dom_in o ps) by (intros q w Hq; eapply Do; right; exact Hq).
    destruct (lookup s p) as [w|] eqn:E.
    + apply lookup_in in E. apply As in E. subst w v. rewrite value_eqb_refl. apply IH; auto.
    + apply IH; auto.
      * intros q w Hq. apply in_app_or in Hq. destruct Hq as [Hq|[Hq|[]]]; [apply As; exact Hq|].
        inversion Hq; subst. reflexivity.
      * intros q w Hq. apply in_app_or in Hq. destruct Hq as [Hq|[Hq|[]]]; [eapply Ds; exact Hq|].
        inversion Hq; subst. eapply Do. left; reflexivity.
Qed.

Lemma dom_in_incl s ps qs : dom_in s ps -> incl ps qs -> dom_in s qs.
Proof. intros H I p v Hp. apply I. eapply H; eauto. Qed.

(* the per-child statement *)
Definition found (theta : subs) (x : term) : Prop :=
  cwf theta x = true ->
  exists s, sup x (apply theta x) = Some s /\ agrees s theta /\ dom_in s (params x).

Lemma kids_complete theta (f : term -> term -> option subs) xs :
  Forall (fun x => cwf theta x = true ->
            exists s, f x (apply theta x) = Some s /\ agrees s theta /\ dom_in s (params x)) xs ->
  forallb (cwf theta) xs = true ->
  forall acc ps, agrees acc theta -> dom_in acc ps -> incl (flat_map params xs) ps ->
  exists r, kids_with f acc xs (map (apply theta) xs) = Some r /\ agrees r theta /\ dom_in r ps.
Proof.
  induction 1 as [|x xs Hx Hxs IH]; intros Hc acc ps Aa Da Hi; simpl.
  - eauto.
  - simpl in Hc. apply andb_true_iff in Hc. destruct Hc as [C1 C2].
    destruct (Hx C1) as (s & Hs & As & Ds). rewrite Hs.
    simpl in Hi. assert (I1 : incl (params x) ps) by (intros q Hq; apply Hi; apply in_or_app; left; exact Hq).
    assert (I2 : incl (flat_map params xs) ps) by (intros q Hq; apply Hi; apply in_or_app; right; exact Hq).
    destruct (merge_agrees theta ps s acc Aa As Da (dom_in_incl _ _ _ Ds I1)) as (acc' & Hm & Aa' & Da').
    rewrite Hm. apply IH; auto.
Qed.

(* apply on a node that satisfies cwf and is not a parameter keeps the node *)
Lemma apply_cwf_node theta l ks :
  ty_param (Node l ks) = None -> ex_param (Node l ks) = None ->
  forallb (cwf theta) ks = true ->
  apply theta (Node l ks) = Node l (map (apply theta) ks).
Proof.
  intros H1 H2 Hc. rewrite apply_eq. unfold apply_node. rewrite H1, H2.
  destruct (is_kind "GType" l); [|reflexivity].
  destruct ks as [|c [|]]; try reflexivity.
  destruct (ty_param c) as [p|] eqn:Ec; [|reflexivity].
  simpl in Hc. rewrite andb_true_r in Hc. destruct c as [lc kc]. rewrite cwf_eq, Ec in Hc.
  destruct (lookup theta p) as [[v|v|]|]; try reflexivity. discriminate.
Qed.

Lemma is_wrap_false_parts l : is_wrap l = false -> is_ty_wrap l = false /\ is_ex_group l = false.
Proof. unfold is_wrap. intro H. apply orb_false_iff in H. exact H. Qed.


Lemma apply_abi_ok theta abi : abi_ok abi abi = true -> apply theta abi = abi.
Proof.
  destruct abi as [l [|x [|]]]; unfold abi_ok; intro H; try discriminate.
  - apply apply_leaf.
  - do 4 (apply andb_true_iff in H; destruct H as [H ?]).
    apply label_eqb_kind in H.
    rewrite apply_by_kind; try (eapply kind_excl; [exact H|reflexivity]).
    cbn [map]. rewrite apply_abi by assumption. reflexivity.
Qed.

(* a node that satisfies cwf and is of a kind that is never a parameter *)
Lemma apply_cwf_kind theta l ks :
  is_kind "TPath" l = false -> is_kind "EPath" l = false -> cwf theta (Node l ks) = true ->
  apply theta (Node l ks) = Node l (map (apply theta) ks).
Proof.
  intros K1 K2 Hc. rewrite cwf_eq in Hc.
  rewrite (ty_param_kind _ _ K1), (ex_param_kind _ _ K2) in Hc.
  apply andb_true_iff in Hc. destruct Hc as [Hc _]. apply andb_true_iff in Hc. destruct Hc as [_ Hks].
  apply apply_cwf_node; auto using ty_param_kind, ex_param_kind.
Qed.

Lemma garg_complete theta (f : term -> term -> option subs) x :
  cwf theta x = true -> garg_with f x (apply theta x) = f x (apply theta x).
Proof.
  destruct x as [lx kx]. intro Hc. unfold garg_with.
  destruct (apply theta (Node lx kx)) as [ly ky] eqn:Ey.
  destruct (is_kind "GType" lx) eqn:G; [|reflexivity].
  rewrite apply_cwf_kind in Ey; try assumption; try (eapply kind_excl; [exact G|reflexivity]).
  inversion Ey; subst ly ky.
  rewrite (kind_excl "GType" "GConst" lx G eq_refl). reflexivity.
Qed.

Lemma is_eq_agrees theta s ps :
  agrees s theta -> dom_in s ps -> forallb (self_bound theta) ps = true -> is_eq s = true.
Proof.
  intros As Ds Hb. unfold is_eq. apply forallb_forall. intros [p v] Hp. cbn [snd].
  pose proof (As _ _ Hp) as Hv. pose proof (Ds _ _ Hp) as Hd.
  rewrite forallb_forall in Hb. specialize (Hb _ Hd). unfold self_bound in Hb.
  subst v. unfold value_of. destruct (lookup theta p) as [[?|?|]|]; try discriminate; reflexivity.
Qed.

Lemma omerge_agrees theta ps s o :
  agrees s theta -> agrees o theta -> dom_in s ps -> dom_in o ps ->
  exists r, omerge (Some s) (Some o) = Some r /\ agrees r theta /\ dom_in r ps.
Proof. intros. cbn [omerge]. apply merge_agrees; assumption. Qed.

Ltac incl_tac := intros ?q ?Hq; cbn [flat_map]; rewrite ?in_app_iff in *; tauto.

Theorem sup_complete theta a : found theta a.
Proof.
  induction a as [la ka IH] using term_ind'. unfold found. intro Hc.
  rewrite cwf_eq in Hc.
  destruct (ty_param (Node la ka)) as [p|] eqn:Etp.
  { (* type parameter *)
    pose proof (ty_param_inv _ _ Etp) as Ea. rewrite params_eq, Etp.
    rewrite apply_eq. unfold apply_node. rewrite Etp. unfold bound_term.
    assert (Hid : sup (Node la ka) (Node la ka) = Some [(p, VIdentity)]) by (apply sup_identity_at; exact Etp).
    destruct (lookup theta p) as [[v|v|]|] eqn:El; try discriminate.
    - apply andb_true_iff in Hc. destruct Hc as [Hw Hne].
      apply negb_true_iff in Hw. apply negb_true_iff in Hne.
      destruct (is_wrap_false_parts _ Hw) as [W1 W2].
      exists [(p, VType v)]. repeat split.
      + rewrite Ea in *. destruct v as [lv kv]. unfold mk_ty_param. rewrite sup_eq. unfold sup_step.
        change (is_ty_wrap (K "TPath" "")) with false. change (is_type_kind (K "TPath" "")) with true.
        change (is_ex_group (K "TPath" "")) with false. change (is_expr_kind (K "TPath" "")) with false.
        cbn [tlabel] in W1. rewrite W1. cbv iota. cbn [andb].
        unfold mk_ty_param in Etp. rewrite Etp. unfold param_vs, subs_ty.
        destruct (ty_param (Node lv kv)) as [q|] eqn:Eq; [|reflexivity].
        destruct (String.eqb p q) eqn:Epq; [|reflexivity].
        apply String.eqb_eq in Epq; subst q. apply ty_param_inv in Eq.
        rewrite Eq, term_eqb_refl in Hne. discriminate.
      + intros q w [Hq|[]]. inversion Hq; subst. unfold value_of. rewrite El. reflexivity.
      + intros q w [Hq|[]]. inversion Hq; subst. left; reflexivity.
    - exists [(p, VIdentity)]. repeat split; auto.
      + intros q w [Hq|[]]. inversion Hq; subst. unfold value_of. rewrite El. reflexivity.
      + intros q w [Hq|[]]. inversion Hq; subst. left; reflexivity.
    - exists [(p, VIdentity)]. repeat split; auto.
      + intros q w [Hq|[]]. inversion Hq; subst. unfold value_of. rewrite El. reflexivity.
      + intros q w [Hq|[]]. inversion Hq; subst. left; reflexivity. }
  destruct (ex_param (Node la ka)) as [p|] eqn:Eep.
  { pose proof (ex_param_inv _ _ Eep) as Ea. rewrite params_eq, Etp, Eep.
    rewrite apply_eq. unfold apply_node. rewrite Etp, Eep. unfold bound_term.
    assert (Hid : sup (Node la ka) (Node la ka) = Some [(p, VIdentity)]) by (apply sup_identity_at_expr; exact Eep).
    destruct (lookup theta p) as [[v|v|]|] eqn:El; try discriminate.
    - apply andb_true_iff in Hc. destruct Hc as [Hc Hek].
      apply andb_true_iff in Hc. destruct Hc as [Hw Hne].
      apply negb_true_iff in Hw. apply negb_true_iff in Hne.
      destruct (is_wrap_false_parts _ Hw) as [W1 W2].
      exists [(p, VExpr v)]. repeat split.
      + rewrite Ea in *. destruct v as [lv kv]. unfold mk_ex_param. rewrite sup_eq. unfold sup_step.
        change (is_ty_wrap (K "EPath" "")) with false. change (is_type_kind (K "EPath" "")) with false.
        change (is_ex_group (K "EPath" "")) with false. change (is_expr_kind (K "EPath" "")) with true.
        cbn [tlabel] in W2, Hek. rewrite W2. cbv iota. cbn [andb].
        assert (Ht : ty_param (Node (K "EPath" "") [Node (K "ONone" "") []; mk_path_ident p]) = None) by reflexivity.
        unfold mk_ex_param in Eep. rewrite Ht, Eep, Hek. unfold param_vs, subs_ex.
        destruct (ex_param (Node lv kv)) as [q|] eqn:Eq; [|reflexivity].
        destruct (String.eqb p q) eqn:Epq; [|reflexivity].
        apply String.eqb_eq in Epq; subst q. apply ex_param_inv in Eq.
        rewrite Eq, term_eqb_refl in Hne. discriminate.
      + intros q w [Hq|[]]. inversion Hq; subst. unfold value_of. rewrite El. reflexivity.
      + intros q w [Hq|[]]. inversion Hq; subst. left; reflexivity.
    - exists [(p, VIdentity)]. repeat split; auto.
      + intros q w [Hq|[]]. inversion Hq; subst. unfold value_of. rewrite El. reflexivity.
      + intros q w [Hq|[]]. inversion Hq; subst. left; reflexivity.
    - exists [(p, VIdentity)]. repeat split; auto.
      + intros q w [Hq|[]]. inversion Hq; subst. unfold value_of. rewrite El. reflexivity.
      + intros q w [Hq|[]]. inversion Hq; subst. left; reflexivity. }
  apply andb_true_iff in Hc. destruct Hc as [Hc Hk]. apply andb_true_iff in Hc. destruct Hc as [Hw Hks].
  apply negb_true_iff in Hw. destruct (is_wrap_false_parts _ Hw) as [W1 W2].
  rewrite (apply_cwf_node _ _ _ Etp Eep Hks). rewrite params_eq, Etp, Eep.
  rewrite sup_eq. unfold sup_step. rewrite W1, W2. rewrite !andb_false_r. rewrite Etp, Eep.
  pose proof (kids_complete theta sup ka IH Hks [] (flat_map params ka)
                (agrees_nil _) (dom_nil _) (incl_refl _)) as (r & Hr & Ar & Dr).
  destruct (is_kind "Lifetime" la) eqn:K1.
  { destruct ka as [|]; [|discriminate]. cbn [map]. rewrite lifetime_ok_refl.
    exists []. repeat split; auto using agrees_nil, dom_nil. }
  destruct (is_kind "QSelf" la) eqn:K2.
  { rewrite label_eqb_refl, Hr. rewrite (is_eq_agrees theta r _ Ar Dr Hk). eauto. }
  destruct (is_kind "Path" la) eqn:K3.
  { rewrite label_eqb_refl, map_length, Nat.eqb_refl. cbn [andb].
    destruct (path_param (Node la ka)); [discriminate|]. eauto. }
  destruct (is_kind "AAngle" la) eqn:K4.
  { rewrite label_eqb_refl.
    apply (kids_complete theta (garg_with sup) ka); auto using agrees_nil, dom_nil, incl_refl.
    eapply Forall_impl; [|exact IH]. intros x Hx Cx. rewrite garg_complete by exact Cx. exact (Hx Cx). }
  destruct (is_kind "TBareFn" la) eqn:K5.
  { destruct ka as [|lt [|abi [|ins [|out [|]]]]]; try discriminate.
    apply andb_true_iff in Hk. destruct Hk as [Habi Hins].
    cbn [map]. rewrite label_eqb_refl.
    cbn [forallb] in Hks. repeat (apply andb_true_iff in Hks; destruct Hks as [? Hks]).
    inversion IH as [|? ? I1 IH1]; subst. inversion IH1 as [|? ? I2 IH2]; subst.
    inversion IH2 as [|? ? I3 IH3]; subst. inversion IH3 as [|? ? I4 IH4]; subst.
    rewrite (apply_abi_ok _ _ Habi), Habi.
    destruct ins as [li ki]. cbn [tlabel] in Hins.
    destruct (I1 ltac:(assumption)) as (s1 & E1 & A1 & D1).
    destruct (I3 ltac:(assumption)) as (s3 & E3 & A3 & D3).
    destruct (I4 ltac:(assumption)) as (s4 & E4 & A4 & D4).
    rewrite E1, E3, E4.
    rewrite (apply_cwf_kind theta li ki);
      try (eapply kind_excl; [exact Hins|reflexivity]); try assumption.
    cbn [tkids]. rewrite map_length, Nat.eqb_refl. cbn [andb].
    set (ps := flat_map params [lt; abi; Node li ki; out]).
    assert (D1' : dom_in s1 ps) by (eapply dom_in_incl; [exact D1|subst ps; incl_tac]).
    assert (D3' : dom_in s3 ps) by (eapply dom_in_incl; [exact D3|subst ps; incl_tac]).
    assert (D4' : dom_in s4 ps) by (eapply dom_in_incl; [exact D4|subst ps; incl_tac]).
    destruct (omerge_agrees theta ps s1 s3 A1 A3 D1' D3') as (r13 & E13 & A13 & D13).
    rewrite E13. apply omerge_agrees; assumption. }
  destruct (is_kind "EBinary" la) eqn:K6.
  { destruct ka as [|l1 [|r1 [|]]]; try discriminate.
    cbn [map]. rewrite label_eqb_refl.
    cbn [forallb] in Hks. repeat (apply andb_true_iff in Hks; destruct Hks as [? Hks]).
    inversion IH as [|? ? I1 IH1]; subst. inversion IH1 as [|? ? I2 IH2]; subst.
    destruct (I1 ltac:(assumption)) as (s1 & E1 & A1 & D1).
    destruct (I2 ltac:(assumption)) as (s2 & E2 & A2 & D2).
    rewrite E1, E2.
    set (ps := flat_map params [l1; r1]).
    apply omerge_agrees; auto; (eapply dom_in_incl; [eassumption|subst ps; incl_tac]). }
  destruct (is_kind "EMethodCall" la) eqn:K7.
  { destruct ka as [|rc [|tf args]]; try discriminate.
    rewrite label_eqb_refl, map_length, Nat.eqb_refl. cbn [map andb].
    cbn [forallb] in Hks. apply andb_true_iff in Hks. destruct Hks as [C1 Hks].
    apply andb_true_iff in Hks. destruct Hks as [C2 C3].
    inversion IH as [|? ? I1 IH1]; subst. inversion IH1 as [|? ? I2 IH2]; subst.
    destruct (I1 C1) as (s1 & E1 & A1 & D1).
    destruct (I2 C2) as (s2 & E2 & A2 & D2).
    set (ps := flat_map params (rc :: tf :: args)).
    assert (D1' : dom_in s1 ps) by (eapply dom_in_incl; [exact D1|subst ps; incl_tac]).
    assert (D2' : dom_in s2 ps) by (eapply dom_in_incl; [exact D2|subst ps; incl_tac]).
    destruct (kids_complete theta sup args IH2 C3 [] ps (agrees_nil _) (dom_nil _))
      as (ra & Era & Ara & Dra); [subst ps; incl_tac|].
    rewrite E1, Era.
    assert (Htf : exists s, (if is_kind "ONone" (tlabel tf) || is_kind "ONone" (tlabel (apply theta tf))
                             then Some [] else sup tf (apply theta tf)) = Some s
                            /\ agrees s theta /\ dom_in s ps).
    { destruct (is_kind "ONone" (tlabel tf) || is_kind "ONone" (tlabel (apply theta tf))).
      - exists []. auto using agrees_nil, dom_nil.
      - eauto. }
    destruct Htf as (st & Est & Ast & Dst). rewrite Est.
    destruct (omerge_agrees theta ps s1 st A1 Ast D1' Dst) as (r1t & E1t & A1t & D1t).
    cbn [omerge] in E1t |- *. rewrite E1t. apply omerge_agrees; assumption. }
  rewrite label_eqb_refl. eauto.
Qed.
