(* proofs/ParamNames.v -- the canonical identifier `_ŠČ<k>` determines k: the decimal printer of
   Param.v is injective, so distinct canonical numbers (ParamProofs: the numbering is injective)
   give distinct canonical NAMES. *)
From Coq Require Import List String Ascii Bool Arith Lia.
Import ListNotations.
From DI Require Import Syntax Param.
From DI.proofs Require Import Basics ParamProofs.

Fixpoint parse_acc (a : nat) (s : string) : nat :=
  match s with
  | EmptyString => a
  | String c r => parse_acc (a * 10 + (nat_of_ascii c - 48)) r
  end.

Lemma parse_acc_app s t : forall a, parse_acc a (s ++ t) = parse_acc (parse_acc a s) t.
Proof. induction s as [|c s IH]; intro a; [reflexivity|]. cbn [append parse_acc]. apply IH. Qed.

Lemma append_assoc_local (a b c : string) : ((a ++ b) ++ c = a ++ (b ++ c))%string.
Proof. induction a as [|x a IH]; [reflexivity|]. cbn [append]. rewrite IH. reflexivity. Qed.

Lemma digits_of_app fuel : forall n acc, digits_of fuel n acc = (digits_of fuel n EmptyString ++ acc)%string.
Proof.
  induction fuel as [|fuel IH]; intros n acc; [reflexivity|]. cbn [digits_of].
  destruct (Nat.ltb n 10); [reflexivity|].
  rewrite (IH (n / 10) (String _ acc)), (IH (n / 10) (String _ EmptyString)).
  rewrite append_assoc_local. reflexivity.
Qed.

Lemma digit_value m : m < 10 -> nat_of_ascii (ascii_of_nat (48 + m)) - 48 = m.
Proof. intro H. rewrite nat_ascii_embedding by lia. lia. Qed.

(* with enough fuel the printer prints n *)
Lemma parse_digits : forall n fuel, n < fuel -> parse_acc 0 (digits_of fuel n EmptyString) = n.
Proof.
  induction n as [n IH] using lt_wf_ind. intros [|fuel] Hf; [lia|]. cbn [digits_of].
  destruct (Nat.ltb_spec n 10) as [Hlt|Hge].
  - cbn [parse_acc]. rewrite digit_value by (apply Nat.mod_upper_bound; lia).
    rewrite Nat.mod_small by exact Hlt. lia.
  - rewrite digits_of_app, parse_acc_app.
    assert (Hdiv : n / 10 < n) by (apply Nat.div_lt; lia).
    rewrite (IH (n / 10) Hdiv fuel) by lia.
    cbn [parse_acc]. rewrite digit_value by (apply Nat.mod_upper_bound; lia).
    pose proof (Nat.div_mod n 10). lia.
Qed.

Theorem string_of_nat_inj a b : string_of_nat a = string_of_nat b -> a = b.
Proof.
  unfold string_of_nat. intro H.
  rewrite <- (parse_digits a (S a)) by lia. rewrite <- (parse_digits b (S b)) by lia.
  rewrite H. reflexivity.
Qed.

Lemma append_inj_l (p a b : string) : (p ++ a = p ++ b)%string -> a = b.
Proof. induction p as [|c p IH]; cbn [append]; intro H; [exact H|]. inversion H. auto. Qed.

Theorem canon_name_inj a b : canon_name a = canon_name b -> a = b.
Proof. unfold canon_name. intro H. apply string_of_nat_inj. exact (append_inj_l _ _ _ H). Qed.

(* distinct parameters of a block receive distinct canonical names *)
Theorem canonical_names_distinct b :
  NoDup (map (fun e => canon_name (snd e)) (indexed (index_block b))).
Proof.
  pose proof (index_block_injective b) as H.
  induction (indexed (index_block b)) as [|e l IH]; cbn [map] in *; [constructor|].
  inversion H as [|? ? Hnotin Hnd]; subst. constructor; [|apply IH; exact Hnd].
  intro Hin. apply in_map_iff in Hin. destruct Hin as (e' & He & Hin').
  apply canon_name_inj in He. apply Hnotin. rewrite <- He. apply in_map. exact Hin'.
Qed.
