(* proofs/RustSemProofs.v -- sizedness in the specification of "block applies". *)
From Coq Require Import List String Ascii Bool Arith Lia.
Import ListNotations.
From DI Require Import Syntax Tokens Bounds Subs Superset Spec RustSem.

(* a block that did not relax Sized on a parameter never applies to a query that
   instantiates that parameter with an unsized type *)
Theorem unrelaxed_requires_sized W blk q s p v :
  applies W blk q = true ->
  sup (block_header blk) q = Some s ->
  In p (block_type_params blk) ->
  relaxed (block_bounds blk) p = false ->
  lookup (ground_subs s) p = Some (VType v) ->
  unsized_ty v = false.
Proof.
  unfold applies. intros H Hs Hin Hr Hl. rewrite Hs in H.
  apply andb_true_iff in H. destruct H as [H _].
  rewrite forallb_forall in H. specialize (H p Hin). rewrite Hr, Hl in H. simpl in H.
  apply negb_true_iff in H. exact H.
Qed.

(* relaxing is the only way sizedness enters: the sizedness conjunct of a relaxed
   parameter holds for every instantiation *)
Theorem relaxed_admits_unsized blk p (rho : subs) :
  relaxed (block_bounds blk) p = true ->
  (relaxed (block_bounds blk) p ||
   match lookup rho p with Some (VType v) => negb (unsized_ty v) | _ => true end) = true.
Proof. intro H. rewrite H. reflexivity. Qed.

From DI.proofs Require Import Basics SupersetSound.

(* a block only ever applies to queries whose (trait arguments, self type) are an instance
   of its own header: it never answers for different trait arguments *)
Theorem applies_only_instances W blk q :
  applies W blk q = true ->
  exists s, sup (block_header blk) q = Some s /\ equivb (apply s (block_header blk)) q = true.
Proof.
  unfold applies. destruct (sup (block_header blk) q) as [s|] eqn:E; [|discriminate].
  intros _. exists s. split; auto. apply sup_sound; exact E.
Qed.
