(* proofs/HygieneProofs.v -- trait fidelity of the assembly and scope hygiene. *)
From Coq Require Import List String Bool Arith.
Import ListNotations.
From DI Require Import Hygiene.

(* the emitted tokens start with exactly the user's trait tokens; the rest is one anonymous const *)
Theorem assemble_trait_prefix t h i m :
  firstn (List.length t) (assemble t h i m) = t /\
  skipn (List.length t) (assemble t h i m) = anon_const h i m.
Proof.
  unfold assemble. split.
  - rewrite firstn_app, Nat.sub_diag, firstn_all. simpl. apply app_nil_r.
  - rewrite skipn_app, Nat.sub_diag, skipn_all. reflexivity.
Qed.

(* in inherent mode nothing but the anonymous const is emitted *)
Theorem assemble_inherent h i m : assemble [] h i m = anon_const h i m.
Proof. reflexivity. Qed.

(* an invocation adds exactly the trait's name to its module (nothing in inherent mode),
   whatever helpers it generates *)
Theorem names_added tn helpers :
  declared (expansion_items tn helpers) = match tn with Some n => [n] | None => [] end.
Proof. destruct tn; reflexivity. Qed.

Lemma declared_app a b : declared (a ++ b) = declared a ++ declared b.
Proof. unfold declared. apply flat_map_app. Qed.

(* any number of invocations next to arbitrary user items: the names declared in the module
   are the user's own items plus the traits of the invocations -- helper names never appear,
   so they can collide neither with each other nor with user items *)
Theorem no_helper_leaks user (invs : list (option string * list string)) :
  declared (user ++ flat_map (fun inv => expansion_items (fst inv) (snd inv)) invs) =
  declared user ++ flat_map (fun inv => match fst inv with Some n => [n] | None => [] end) invs.
Proof.
  rewrite declared_app. f_equal.
  induction invs as [|[tn hs] invs IH]; simpl; [reflexivity|].
  rewrite declared_app, names_added, IH. reflexivity.
Qed.
