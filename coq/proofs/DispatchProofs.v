(* proofs/DispatchProofs.v -- exact coverage, overlap, unique selection, from the grouping
   invariant. *)
From Coq Require Import List Bool.
Import ListNotations.
From DI Require Import Dispatch.

Section Proofs.
  Variables Q V : Type.
  Variable keyvals : Q -> option V.
  Variable members : list (member Q V).
  Hypothesis GI : grouping_invariant Q V keyvals members.

  (* C02: the trait is implemented through the family iff some member block applies *)
  Theorem exact_coverage q :
    main_applies Q V keyvals members q = true <->
    exists m, In m members /\ m_applies Q V m q = true.
  Proof.
    unfold main_applies. split.
    - destruct (keyvals q) as [v|]; [|discriminate]. intro H.
      apply existsb_exists in H. destruct H as (m & Hin & H).
      unfold helper_applies in H. apply andb_true_iff in H. destruct H as [H _]. eauto.
    - intros (m & Hin & H). destruct (GI m q Hin H) as (v & Hk & Hr). rewrite Hk.
      apply existsb_exists. exists m. split; auto. unfold helper_applies. rewrite H, Hr. reflexivity.
  Qed.

  (* no narrowing: a member that applies is always reachable *)
  Theorem no_narrowing m q :
    In m members -> m_applies Q V m q = true -> In m (selected Q V keyvals members q).
  Proof.
    intros Hin H. unfold selected. destruct (GI m q Hin H) as (v & Hk & Hr). rewrite Hk.
    apply filter_In. split; auto. unfold helper_applies. rewrite H, Hr. reflexivity.
  Qed.

  (* C04: two different members applying to one query make the helper impls incoherent,
     i.e. rustc (which only accepts what it can prove disjoint) rejects the expansion *)
  Theorem overlap_incoherent m1 m2 q :
    In m1 members -> In m2 members -> m1 <> m2 ->
    m_applies Q V m1 q = true -> m_applies Q V m2 q = true ->
    ~ helpers_coherent Q V members.
  Proof.
    intros H1 H2 Hne A1 A2 Hc.
    destruct (GI m1 q H1 A1) as (v1 & K1 & R1). destruct (GI m2 q H2 A2) as (v2 & K2 & R2).
    rewrite K1 in K2. inversion K2; subst v2.
    apply Hne. apply (Hc q v1); auto; unfold helper_applies.
    - rewrite A1, R1. reflexivity.
    - rewrite A2, R2. reflexivity.
  Qed.

  (* C01: in a coherent expansion the selected member is the unique block that applies *)
  Theorem dispatch_sound q m :
    helpers_coherent Q V members ->
    In m (selected Q V keyvals members q) ->
    In m members /\ m_applies Q V m q = true /\
    forall m', In m' members -> m_applies Q V m' q = true -> m' = m.
  Proof.
    intros Hc Hsel. unfold selected in Hsel. destruct (keyvals q) as [v|] eqn:Hk; [|contradiction].
    apply filter_In in Hsel. destruct Hsel as [Hin H].
    pose proof H as H0. unfold helper_applies in H0. apply andb_true_iff in H0. destruct H0 as [A R].
    repeat split; auto. intros m' Hin' A'.
    destruct (GI m' q Hin' A') as (v' & K' & R'). rewrite Hk in K'. inversion K'; subst v'.
    apply (Hc q v); auto. unfold helper_applies. rewrite A', R'. reflexivity.
  Qed.
End Proofs.

(* ---- block order: the meaning of the expansion does not depend on member order ---- *)
From Coq Require Import Permutation.

Section Perm.
  Variables Q V : Type.
  Variable keyvals : Q -> option V.

  Lemma existsb_perm {A} (f : A -> bool) l l' : Permutation l l' -> existsb f l = existsb f l'.
  Proof.
    induction 1; simpl; auto.
    - rewrite IHPermutation; reflexivity.
    - destruct (f x), (f y); reflexivity.
    - congruence.
  Qed.

  Theorem coverage_perm ms ms' q : Permutation ms ms' ->
    main_applies Q V keyvals ms q = main_applies Q V keyvals ms' q.
  Proof.
    intro H. unfold main_applies. destruct (keyvals q); auto. apply existsb_perm; exact H.
  Qed.

  Lemma filter_perm {A} (f : A -> bool) l l' : Permutation l l' -> Permutation (filter f l) (filter f l').
  Proof.
    induction 1; simpl; auto.
    - destruct (f x); auto.
    - destruct (f x), (f y); auto. apply perm_swap.
    - eapply perm_trans; eauto.
  Qed.

  Theorem selected_perm ms ms' q : Permutation ms ms' ->
    Permutation (selected Q V keyvals ms q) (selected Q V keyvals ms' q).
  Proof.
    intro H. unfold selected. destruct (keyvals q); auto. apply filter_perm; exact H.
  Qed.
End Perm.
