(* proofs/SearchRows.v -- every family the search returns carries exactly one row of payloads per
   member, under every one of its keys; hence the generator emits exactly one helper impl per
   member of every family (a block that was placed appears once in the expansion, never zero
   times and never twice). *)
From Coq Require Import List String Bool Arith Lia.
Import ListNotations.
From DI Require Import Syntax Bounds Subs Superset Substitute Group Search Gen.
From DI.proofs Require Import SearchProofs SearchFlat SearchNested.

(* the invariant: under every key, as many rows as members *)
Definition rows_ok (e : term * (abg * list nat)) : Prop :=
  Forall (fun kv => List.length (snd kv) = List.length (snd (snd e))) (ab_bounds (fst (snd e))).

Section IMap.
  Context {Kt Vt : Type}.
  Variable eqk : Kt -> Kt -> bool.
  Variable P : Vt -> Prop.

  Lemma im_get_forall m k v : Forall (fun kv => P (snd kv)) m -> im_get eqk m k = Some v -> P v.
  Proof.
    induction 1 as [|[k' v'] m Hx _ IH]; cbn [im_get]; [discriminate|].
    destruct (eqk k' k); [intro H; inversion H; subst; exact Hx|exact IH].
  Qed.

  Lemma im_insert_forall m k v : Forall (fun kv => P (snd kv)) m -> P v ->
    Forall (fun kv => P (snd kv)) (im_insert eqk m k v).
  Proof.
    induction 1 as [|[k' v'] m Hx Hm IH]; cbn [im_insert]; intro Hv; [constructor; [exact Hv|constructor]|].
    destruct (eqk k' k); constructor; auto.
  Qed.

  Lemma im_update_forall m k d f : Forall (fun kv => P (snd kv)) m -> P (f d) -> (forall v, P v -> P (f v)) ->
    Forall (fun kv => P (snd kv)) (im_update eqk m k d f).
  Proof.
    induction 1 as [|[k' v'] m Hx Hm IH]; cbn [im_update]; intros Hd Hf; [constructor; [exact Hd|constructor]|].
    destruct (eqk k' k); constructor; auto. apply Hf. exact Hx.
  Qed.
End IMap.

(* a fresh family: one member, one row under every key *)
Lemma abg_new_rows ib i gid : rows_ok (gid, (abg_new ib, [i])).
Proof.
  unfold rows_ok, abg_new. cbn [fst snd ab_bounds List.length].
  assert (G : forall l acc, Forall (fun kv : tbid * list arow => List.length (snd kv) = 1) acc ->
            Forall (fun kv : tbid * list arow => List.length (snd kv) = 1)
              (fold_left (fun acc e =>
                 im_update key_eqb acc (fst e) [[]]
                   (fun rows => match rows with
                                | r0 :: rest => row_extend r0 (snd e) :: rest
                                | [] => [row_extend [] (snd e)]
                                end)) l acc)).
  { induction l as [|e l IH]; cbn [fold_left]; intros acc Ha; [exact Ha|]. apply IH.
    apply (im_update_forall key_eqb (fun rows : list arow => List.length rows = 1)); [exact Ha|reflexivity|].
    intros [|r0 [|r1 rest]] Hv; cbn in *; try discriminate; reflexivity. }
  apply G. constructor.
Qed.

(* joining a member: every key of every resulting group has one row more *)
Lemma intersection_rows g ib s n inter :
  Forall (fun kv : tbid * list arow => List.length (snd kv) = n) (ab_bounds g) ->
  In inter (abg_intersection g ib s) ->
  Forall (fun kv : tbid * list arow => List.length (snd kv) = S n) (ab_bounds inter).
Proof.
  intros Hg Hin. unfold abg_intersection in Hin. apply in_map_iff in Hin.
  destruct Hin as (combo & <- & Hc). cbn [ab_bounds].
  set (per := map _ _) in Hc.
  assert (Hper : Forall (Forall (fun o : option (tbid * list arow) =>
                           match o with Some kv => List.length (snd kv) = S n | None => True end)) per).
  { unfold per. apply Forall_forall. intros opts Ho. apply in_map_iff in Ho. destruct Ho as (e & <- & _).
    destruct (negb (stable_key s (fst (fst e)) (snd (fst e)))); [repeat constructor|].
    apply Forall_forall. intros o Hoin. apply in_map_iff in Hoin. destruct Hoin as (stb & <- & _).
    destruct (im_get key_eqb (ab_bounds g) stb) as [rows|] eqn:Eg; [|exact I].
    cbn [snd]. rewrite app_length. cbn [List.length].
    pose proof (im_get_forall key_eqb (fun rows : list arow => List.length rows = n) _ _ _ Hg Eg) as Hr. cbn in Hr. lia. }
  (* every element of a member of the cartesian product comes from the corresponding factor *)
  assert (Hcombo : Forall (fun o : option (tbid * list arow) =>
                     match o with Some kv => List.length (snd kv) = S n | None => True end) combo).
  { clear -Hper Hc. revert combo Hc. induction Hper as [|xs rest Hxs _ IH]; cbn [cprod]; intros combo Hc.
    - destruct Hc as [<-|[]]. constructor.
    - apply in_flat_map in Hc. destruct Hc as (x & Hx & Hc). apply in_map_iff in Hc.
      destruct Hc as (tl & <- & Htl). constructor; [|apply IH; exact Htl].
      rewrite Forall_forall in Hxs. apply Hxs. exact Hx. }
  assert (G : forall l acc, Forall (fun o : option (tbid * list arow) =>
                              match o with Some kv => List.length (snd kv) = S n | None => True end) l ->
            Forall (fun kv : tbid * list arow => List.length (snd kv) = S n) acc ->
            Forall (fun kv : tbid * list arow => List.length (snd kv) = S n)
              (fold_left (fun m o => match o with
                                     | Some kv => im_insert key_eqb m (fst kv) (snd kv)
                                     | None => m
                                     end) l acc)).
  { induction l as [|o l IH]; cbn [fold_left]; intros acc Hl Ha; [exact Ha|].
    inversion Hl as [|? ? Ho Hl']; subst. apply IH; [exact Hl'|].
    destruct o as [kv|]; [|exact Ha].
    apply (im_insert_forall key_eqb (fun rows : list arow => List.length rows = S n)); assumption. }
  apply G; [exact Hcombo|constructor].
Qed.

(* replacing one family of a grouping keeps the invariant of the others *)
Lemma im_insert_rows (groups : gmap) gid v :
  Forall rows_ok groups -> (forall k, rows_ok (k, v)) -> Forall rows_ok (im_insert term_eqb groups gid v).
Proof.
  induction 1 as [|[k' v'] m Hx Hm IH]; cbn [im_insert]; intro Hv; [constructor; [apply Hv|constructor]|].
  destruct (term_eqb k' gid); constructor; auto; try apply Hv.
Qed.

Lemma rows_ok_key_irrelevant k k' v : rows_ok (k, v) -> rows_ok (k', v).
Proof. exact (fun H => H). Qed.

(* joining an existing family, for any continuation that preserves the invariant *)
Lemma join_fold_rows (tryf : list gmap * list (term * nat) -> gmap -> list gmap * list (term * nat))
      (sub : list (term * list (term * subs))) (gid : term) (curr : nat * ibounds) (groups : gmap) :
  (forall st g', Forall (Forall rows_ok) (fst st) -> Forall rows_ok g' -> Forall (Forall rows_ok) (fst (tryf st g'))) ->
  Forall rows_ok groups ->
  forall gl (st : list gmap * list (term * nat)),
  (forall gk, In gk gl -> rows_ok gk) -> Forall (Forall rows_ok) (fst st) ->
  Forall (Forall rows_ok)
    (fst (fold_left (fun (st : list gmap * list (term * nat)) (gk : term * (abg * list nat)) =>
       let g_id := fst gk in
       let g := snd gk in
       let subs_opt :=
         match im_get term_eqb (subsets_of sub g_id) gid with
         | Some s => Some s
         | None => if term_eqb g_id gid then sup g_id gid else None
         end in
       match subs_opt with
       | None => st
       | Some s =>
           fold_left (fun (st : list gmap * list (term * nat)) (inter : abg) =>
                        tryf st (im_insert term_eqb groups g_id (inter, snd g ++ [fst curr])))
                     (abg_intersection (fst g) (snd curr) s) st
       end) gl st)).
Proof.
  intros Htry Hg. induction gl as [|gk gl IHg]; cbn [fold_left]; intros st Hgl Hst; [exact Hst|].
  apply IHg; [intros x Hx; apply Hgl; right; exact Hx|]. cbv zeta.
  destruct (match im_get term_eqb (subsets_of sub (fst gk)) gid with
            | Some s => Some s
            | None => if term_eqb (fst gk) gid then sup (fst gk) gid else None
            end) as [s|]; [|exact Hst].
  assert (Hgk : rows_ok gk) by (apply Hgl; left; reflexivity).
  assert (G3 : forall inters (st : list gmap * list (term * nat)),
            (forall i, In i inters -> In i (abg_intersection (fst (snd gk)) (snd curr) s)) ->
            Forall (Forall rows_ok) (fst st) ->
            Forall (Forall rows_ok)
              (fst (fold_left (fun (st : list gmap * list (term * nat)) (inter : abg) =>
                      tryf st (im_insert term_eqb groups (fst gk) (inter, snd (snd gk) ++ [fst curr])))
                    inters st))).
  { induction inters as [|inter inters IHi]; cbn [fold_left]; intros st0 Hsub Hs0; [exact Hs0|].
    apply IHi; [intros i Hi; apply Hsub; right; exact Hi|].
    apply Htry; [exact Hs0|].
    apply im_insert_rows; [exact Hg|]. intro k. unfold rows_ok. cbn [fst snd].
    rewrite app_length. cbn [List.length]. rewrite Nat.add_1_r.
    apply (intersection_rows (fst (snd gk)) (snd curr) s); [exact Hgk|apply Hsub; left; reflexivity]. }
  apply G3; [auto|exact Hst].
Qed.

Section RecRows.
  Variable sub : list (term * list (term * subs)).
  Variable its : items.

  Theorem rec_rows fuel : forall gid impls sp groups,
    Forall rows_ok groups -> Forall (Forall rows_ok) (fst (rec sub its fuel gid impls sp groups)).
  Proof.
    induction fuel as [|fuel IH]; intros gid impls sp groups Hg; [constructor|].
    destruct impls as [|curr other].
    - rewrite SearchNested.rec_nil.
      (* unlock: a fold whose accumulator only ever holds candidates that satisfy the invariant *)
      assert (G : forall l (st : list gmap * list (term * nat)), Forall (Forall rows_ok) (fst st) ->
                Forall (Forall rows_ok)
                  (fst (fold_left (fun (st : list gmap * list (term * nat)) (sg : term * subs) =>
                     let sgid := fst sg in
                     let sp1 := dec_count (snd st) sgid in
                     match im_get term_eqb sp1 sgid with
                     | Some O =>
                         fold_left (fun (st' : list gmap * list (term * nat)) (gm : gmap) =>
                                      let '(res, sp') := rec sub its fuel sgid (blocks_of its sgid) sp1 gm in
                                      (fst st' ++ res, sp'))
                                   (fst st) ([], sp1)
                     | _ => (fst st, sp1)
                     end) l st))).
      { induction l as [|sg l IHl]; cbn [fold_left]; intros st Hst; [exact Hst|]. apply IHl. cbv zeta.
        destruct (im_get term_eqb (dec_count (snd st) (fst sg)) (fst sg)) as [[|c]|]; try exact Hst.
        assert (G2 : forall cands (st' : list gmap * list (term * nat)),
                  Forall (Forall rows_ok) cands -> Forall (Forall rows_ok) (fst st') ->
                  Forall (Forall rows_ok)
                    (fst (fold_left (fun (st' : list gmap * list (term * nat)) (gm : gmap) =>
                            let '(res, sp') := rec sub its fuel (fst sg) (blocks_of its (fst sg))
                                                   (dec_count (snd st) (fst sg)) gm in
                            (fst st' ++ res, sp')) cands st'))).
        { induction cands as [|gm cands IHc]; cbn [fold_left]; intros st' Hc Hs; [exact Hs|].
          inversion Hc as [|? ? Hgm Hc']; subst. apply IHc; [exact Hc'|].
          pose proof (IH (fst sg) (blocks_of its (fst sg)) (dec_count (snd st) (fst sg)) gm Hgm) as Hr.
          destruct (rec sub its fuel (fst sg) (blocks_of its (fst sg)) (dec_count (snd st) (fst sg)) gm) as [res sp'].
          cbn [fst] in *. apply Forall_app. split; assumption. }
        apply G2; [exact Hst|constructor]. }
      apply G. cbn [fst]. constructor; [exact Hg|constructor].
    - rewrite SearchNested.rec_cons. cbv zeta.
      set (tryf := fun (st : list gmap * list (term * nat)) (groups' : gmap) =>
                     let '(res, sp') := rec sub its fuel gid other sp groups' in
                     match res with [] => st | _ => (fst st ++ res, sp') end).
      assert (Htry : forall st groups', Forall (Forall rows_ok) (fst st) -> Forall rows_ok groups' ->
                     Forall (Forall rows_ok) (fst (tryf st groups'))).
      { intros st groups' Hst Hg'. unfold tryf.
        pose proof (IH gid other sp groups' Hg') as Hr.
        destruct (rec sub its fuel gid other sp groups') as [res sp']. cbn [fst] in Hr.
        destruct res as [|r0 res]; [exact Hst|]. cbn [fst]. apply Forall_app. split; assumption. }
      match goal with
      | |- Forall _ (fst (match fst ?S2 with [] => _ | _ :: _ => _ end)) =>
          assert (H2 : Forall (Forall rows_ok) (fst S2))
      end.
      2:{ match goal with
          | |- Forall _ (fst (match fst ?S2 with [] => _ | _ :: _ => _ end)) => destruct (fst S2) eqn:E2
          end.
          - cbn [fst]. apply Forall_nil.
          - first [exact H2 | rewrite E2; exact H2 | rewrite <- E2; exact H2 | rewrite E2 in H2; exact H2]. }
      assert (H1 : Forall (Forall rows_ok)
                     (fst (fold_left (fun (st : list gmap * list (term * nat)) (gk : term * (abg * list nat)) =>
                        let g_id := fst gk in
                        let g := snd gk in
                        let subs_opt :=
                          match im_get term_eqb (subsets_of sub g_id) gid with
                          | Some s => Some s
                          | None => if term_eqb g_id gid then sup g_id gid else None
                          end in
                        match subs_opt with
                        | None => st
                        | Some s =>
                            fold_left (fun (st : list gmap * list (term * nat)) (inter : abg) =>
                                         tryf st (im_insert term_eqb groups g_id (inter, snd g ++ [fst curr])))
                                      (abg_intersection (fst g) (snd curr) s) st
                        end) groups ([], sp)))).
      { apply (join_fold_rows tryf sub gid curr groups Htry Hg); [|constructor].
        intros gk Hin. rewrite Forall_forall in Hg. apply Hg. exact Hin. }
      destruct (im_has term_eqb groups gid); [exact H1|].
      apply (Htry _ (groups ++ [(gid, (abg_new (snd curr), [fst curr]))]) H1).
      apply Forall_app. split; [exact Hg|]. constructor; [apply abg_new_rows|constructor].
  Qed.
End RecRows.

(* the driver: pruning removes keys, never rows *)
Lemma prune_rows e : rows_ok e -> rows_ok (fst e, (abg_prune (fst (snd e)), snd (snd e))).
Proof.
  unfold rows_ok. cbn [fst snd ab_bounds abg_prune]. intro H.
  apply Forall_forall. intros kv Hin. apply filter_In in Hin. destruct Hin as [Hin _].
  rewrite Forall_forall in H. apply H. exact Hin.
Qed.

Lemma candidate_ok_rows gm : forall acc r,
  fold_left (fun acc e =>
    match acc with
    | None => None
    | Some done =>
        let g := abg_prune (fst (snd e)) in
        if abg_is_empty g then None
        else if abg_is_overlapping g then None
        else Some (done ++ [(fst e, (g, snd (snd e)))])
    end) gm acc = Some r ->
  Forall rows_ok gm -> exists done, acc = Some done /\ (Forall rows_ok done -> Forall rows_ok r).
Proof.
  induction gm as [|e gm IH]; cbn [fold_left]; intros acc r H Hgm.
  - exists r. split; auto.
  - inversion Hgm as [|? ? He Hgm']; subst.
    apply IH in H; [|exact Hgm']. destruct H as (done' & Hd & Himp).
    destruct acc as [done|]; [|discriminate]. exists done. split; [reflexivity|].
    intro Hf. apply Himp.
    destruct (abg_is_empty (abg_prune (fst (snd e)))); [discriminate|].
    destruct (abg_is_overlapping (abg_prune (fst (snd e)))); [discriminate|].
    inversion Hd; subst done'. apply Forall_app. split; [exact Hf|].
    constructor; [|constructor]. apply (prune_rows e He).
Qed.

Theorem search_rows fuel blocks gm : search fuel blocks = Some gm -> Forall rows_ok gm.
Proof.
  unfold search.
  set (its := bucket blocks). set (st := make_sets (map fst its)).
  set (roots := map fst (filter (fun e => Nat.eqb (snd e) 0) (supersets st))).
  assert (G : forall roots acc,
            (forall g, fst acc = Some g -> Forall rows_ok g) ->
            forall g, fst (fold_left (fun acc root =>
              match acc with
              | (None, sp) => (None, sp)
              | (Some prev, sp) =>
                  let '(cands, sp') := rec (subsets st) its fuel root
                                           (match im_get term_eqb its root with Some m => m | None => [] end) sp prev in
                  (choose (flat_map (fun c => match candidate_ok c with Some c' => [c'] | None => [] end) cands), sp')
              end) roots acc) = Some g -> Forall rows_ok g).
  { induction roots0 as [|root rs IH]; cbn [fold_left]; intros acc Hacc g Hg; [auto|].
    eapply IH; [|exact Hg]. clear IH Hg g.
    destruct acc as [[prev|] sp]; [|cbn; intros; discriminate].
    pose proof (rec_rows (subsets st) its fuel root
                  (match im_get term_eqb its root with Some m => m | None => [] end) sp prev
                  (Hacc prev eq_refl)) as Hr.
    destruct (rec (subsets st) its fuel root _ sp prev) as [cands sp'].
    cbn [fst] in *. intros g Hg. apply choose_in in Hg.
    apply in_flat_map in Hg. destruct Hg as (c0 & Hc0 & Hc).
    destruct (candidate_ok c0) as [c'|] eqn:E; [|contradiction].
    destruct Hc as [<-|[]]. unfold candidate_ok in E.
    rewrite Forall_forall in Hr.
    destruct (candidate_ok_rows c0 (Some []) c' E (Hr c0 Hc0)) as (done & Hd & Himp).
    inversion Hd; subst. apply Himp. constructor. }
  intro H. eapply G; [|exact H]. cbn. intros g Hg. inversion Hg; subst. constructor.
Qed.

(* ---- consequence for the generator: one helper impl per member ---- *)
Lemma omap_length {A B} (f : A -> option B) l out : omap f l = Some out -> List.length out = List.length l.
Proof.
  revert out. induction l as [|x l IH]; cbn [omap]; intros out H; [inversion H; reflexivity|].
  destruct (f x); [|discriminate]. destruct (omap f l) as [ys|]; [|discriminate].
  inversion H; subst. cbn [List.length]. rewrite (IH ys eq_refl). reflexivity.
Qed.

Lemma nrows_eq g n : ab_bounds g <> [] ->
  Forall (fun kv : tbid * list arow => List.length (snd kv) = n) (ab_bounds g) -> abg_nrows g = n.
Proof.
  unfold abg_nrows. destruct (ab_bounds g) as [|e r]; [congruence|]. intros _ H.
  apply Forall_cons_iff in H. destruct H as [He Hr]. rewrite He. clear He.
  induction Hr as [|e' r He' _ IH]; cbn [fold_left]; [reflexivity|]. rewrite He', Nat.min_id. exact IH.
Qed.

Theorem one_helper_impl_per_member fuel blocks gm out :
  search fuel blocks = Some gm -> gen_helper_impls blocks gm = Some out ->
  Forall2 (fun fam e => List.length fam = List.length (snd (snd e))) out gm.
Proof.
  intros Hs Hg.
  pose proof (search_rows fuel blocks gm Hs) as Hrows.
  pose proof (search_families_ok fuel blocks gm Hs) as Hok.
  unfold gen_helper_impls in Hg.
  assert (G : forall (l : list (nat * (term * (abg * list nat)))) out,
            Forall (fun ie => rows_ok (snd ie) /\ family_ok (snd ie)) l ->
            omap (fun ie =>
                    let idx := fst ie in
                    let e := snd ie in
                    let g := fst (snd e) in
                    let members := snd (snd e) in
                    match members with
                    | [] => Some []
                    | m0 :: _ =>
                        match nth_error blocks m0 with
                        | None => None
                        | Some first_blk =>
                            omap (fun mr => match nth_error blocks (fst mr) with
                                            | Some blk => gen_helper_impl idx first_blk (abg_idents g) (snd mr) blk
                                            | None => None
                                            end)
                                 (combine members (abg_payloads g))
                        end
                    end) l = Some out ->
            Forall2 (fun fam ie => List.length fam = List.length (snd (snd (snd ie)))) out l).
  { induction l as [|ie l IH]; cbn [omap]; intros out0 Hl H0; [inversion H0; constructor|].
    apply Forall_cons_iff in Hl. destruct Hl as [[Hr Hf] Hl'].
    destruct (match snd (snd (snd ie)) with [] => Some [] | m0 :: _ => _ end) as [fam|] eqn:Ef; [|discriminate].
    destruct (omap _ l) as [rest|] eqn:Er; [|discriminate]. inversion H0; subst out0.
    constructor; [|exact (IH rest Hl' eq_refl)].
    destruct (snd (snd (snd ie))) as [|m0 ms] eqn:Em; [inversion Ef; reflexivity|].
    destruct (nth_error blocks m0); [|discriminate].
    apply omap_length in Ef. rewrite Ef, combine_length.
    unfold abg_payloads. rewrite map_length, seq_length.
    destruct Hf as [Hne _]. unfold abg_is_empty in Hne.
    rewrite (nrows_eq (fst (snd (snd ie))) (List.length (m0 :: ms))).
    - apply Nat.min_id.
    - destruct (ab_bounds (fst (snd (snd ie)))); [discriminate|congruence].
    - unfold rows_ok in Hr. rewrite Em in Hr. exact Hr. }
  assert (Hl : Forall (fun ie : nat * (term * (abg * list nat)) => rows_ok (snd ie) /\ family_ok (snd ie))
                 (combine (seq 0 (List.length gm)) gm)).
  { apply Forall_forall. intros [i e] Hin. apply in_combine_r in Hin. cbn [snd].
    rewrite Forall_forall in Hrows, Hok. split; auto. }
  pose proof (G _ out Hl Hg) as HF.
  assert (Hlen : forall (o : list (list term)) (idxs : list nat), List.length idxs = List.length gm ->
            Forall2 (fun (fam : list term) (ie : nat * (term * (abg * list nat))) => List.length fam = List.length (snd (snd (snd ie)))) o (combine idxs gm) ->
            Forall2 (fun (fam : list term) (e : term * (abg * list nat)) => List.length fam = List.length (snd (snd e))) o gm).
  { clear. induction gm as [|e gm IH]; intros o [|i idxs] Hl H; cbn [combine] in *; try discriminate.
    - inversion H; constructor.
    - inversion H; subst. constructor; [assumption|]. apply (IH _ idxs); [cbn in Hl; lia|assumption]. }
  apply (Hlen _ (seq 0 (List.length gm))); [apply seq_length|exact HF].
Qed.
