(* proofs/GenProofs.v -- the generated helper impl is the user's block verbatim (generics, self
   type, where-clause, items; item visibilities dropped in inherent mode) with only the trait
   path replaced: the modelling assumption of Dispatch.v, now a theorem about Gen.v. *)
From Coq Require Import List String Bool.
Import ListNotations.
From DI Require Import Syntax Bounds Group Search Gen.

Theorem gen_helper_verbatim idx first keys row lb gen tr self wh li items h :
  gen_helper_impl idx first keys row (Node lb [gen; tr; self; wh; Node li items]) = Some h ->
  exists lo' p items',
    h = Node lb [gen; Node lo' [p]; self; wh; Node li items'] /\ is_kind "OSome" lo' = true /\
    (items' = items \/ (tr = Node (tlabel tr) [] /\ items' = map strip_vis items)).
Proof.
  unfold gen_helper_impl. destruct first as [lf [|f1 [|f2 [|f3 [|f4 [|f5 [|]]]]]]]; try discriminate.
  destruct tr as [lo [|p [|]]]; try discriminate.
  - destruct f3 as [lt [|q [|[lp segs] [|]]]]; try discriminate.
    destruct (split_last segs) as [[init [ls [|[la xs] [|]]]]|]; try discriminate.
    destruct (is_kind "TPath" lt && is_kind "AAngle" la); [|discriminate].
    intro H. inversion H; subst. eexists _, _, _. split; [reflexivity|]. split; [reflexivity|]. right. split; reflexivity.
  - destruct (is_kind "OSome" lo) eqn:E; [|discriminate].
    intro H. inversion H; subst. eexists _, _, _. split; [reflexivity|]. split; [exact E|]. left; reflexivity.
Qed.

(* whatever path the block wrote for the main trait (or the type), the helper impl names the
   helper trait by one bare segment: `_<Name><idx>`, with the row in front of the last segment's
   own arguments (fix F33): the helper trait is only nameable inside the generated const block *)
Theorem helper_path_bare idx row lp segs init ls args :
  split_last segs = Some (init, Node ls [args]) ->
  exists args', helper_path idx row (Node lp segs) =
                Node (K "Path" "") [Node (K "Seg" (helper_ident (ld ls) idx)) [args']].
Proof. intro H. unfold helper_path. rewrite H. eexists. reflexivity. Qed.
