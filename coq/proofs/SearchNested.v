(* proofs/SearchNested.v -- acceptance of a nested member by the search function: n blocks with a
   general header H0 (one key, pairwise non-unifiable payloads) followed by one block with a
   more specific header H1 (H0 generalises H1, not conversely) whose bound re-expresses to the
   family's key and whose payload is not unifiable with any of the others: the search returns
   ONE family under H0 with n + 1 members and rows [p_0] .. [p_(n-1)], [p'] -- it prefers the
   joint grouping to the alternative in which the nested block is a family of its own. *)
From Coq Require Import List String Ascii Bool Arith Lia.
Import ListNotations.
From DI Require Import Syntax Tokens Bounds Subs Superset Substitute Spec RustSem Group Search.
From DI.proofs Require Import Basics SupersetSound SupersetComplete SubstituteProofs BoundsProofs SearchFlat.

Lemma term_eqb_false_sym a b : term_eqb a b = false -> term_eqb b a = false.
Proof.
  intro H. destruct (term_eqb b a) eqn:E; [|reflexivity].
  apply term_eqb_eq in E. subst. rewrite term_eqb_refl in H. discriminate.
Qed.

Lemma list_as_nth_map {A} (xs : list A) d : xs = map (fun i => nth i xs d) (seq 0 (List.length xs)).
Proof. induction xs as [|x xs IH]; simpl; [reflexivity|]. f_equal. rewrite <- seq_shift, map_map. exact IH. Qed.

(* ---- a family with a single key whose rows bind the one associated type ---- *)
Definition single_key (B Tk : term) (a : string) (xs : list term) : abg :=
  {| ab_bounds := [((B, Tk), map (fun x => [(a, x)]) xs)]; ab_unsized := [] |}.

Lemma payloads_single B Tk a xs : xs <> [] -> tb_eqb Tk Tk = true ->
  abg_payloads (single_key B Tk a xs) = map (fun x => [Some x]) xs.
Proof.
  intros Hne Hk. unfold abg_payloads, abg_idents, abg_nrows, single_key.
  cbn [ab_bounds flat_map fst snd app fold_left].
  assert (Hids : fold_left (fun acc r => fold_left (fun acc av => str_set_insert acc (fst av)) r acc)
                           (map (fun x => [(a, x)]) xs) [] = [a]).
  { destruct xs as [|x xs]; [congruence|]. cbn [map fold_left fst]. unfold str_set_insert at 2. cbn [existsb app].
    induction xs as [|y xs IH]; [reflexivity|]. cbn [map fold_left fst]. unfold str_set_insert at 2.
    cbn [existsb]. rewrite String.eqb_refl. cbn [orb]. apply IH. discriminate. }
  rewrite Hids. cbn [map app]. rewrite map_length.
  transitivity (map (fun x : term => [Some x]) (map (fun i => nth i xs (Node (K "" "") [])) (seq 0 (List.length xs))));
    [|rewrite <- list_as_nth_map; reflexivity].
  rewrite map_map. apply map_ext_in. intros i Hi. apply in_seq in Hi. cbn [map fst snd im_get].
  unfold key_eqb. cbn [fst snd]. rewrite term_eqb_refl, Hk. cbn [andb].
  rewrite nth_error_map. rewrite (nth_error_nth' xs (Node (K "" "") [])) by lia. cbn [option_map im_get].
  rewrite String.eqb_refl. reflexivity.
Qed.

Lemma not_overlapping_single B Tk a xs : xs <> [] -> tb_eqb Tk Tk = true ->
  (forall i j x y, i <> j -> nth_error xs i = Some x -> nth_error xs j = Some y -> sup x y = None) ->
  abg_is_overlapping (single_key B Tk a xs) = false.
Proof.
  intros Hne Hk Hrows. unfold abg_is_overlapping. rewrite payloads_single by assumption.
  rewrite map_length.
  destruct (existsb _ _) eqn:E; [|reflexivity]. exfalso.
  apply existsb_exists in E. destruct E as ([i ri] & Hi & E).
  apply existsb_exists in E. destruct E as ([j rj] & Hj & E). cbn [fst snd] in E.
  apply andb_true_iff in E. destruct E as [Eij Eg]. apply negb_true_iff in Eij. apply Nat.eqb_neq in Eij.
  assert (Hrow : forall m r, In (m, r) (combine (seq 0 (List.length xs)) (map (fun x => [Some x]) xs)) ->
                             exists x, nth_error xs m = Some x /\ r = [Some x]).
  { intros m r Hm. apply (In_nth _ _ (0, [])) in Hm. destruct Hm as (k & Hk' & Hnth).
    rewrite combine_length, seq_length, map_length, Nat.min_id in Hk'.
    rewrite combine_nth in Hnth by (rewrite seq_length, map_length; reflexivity).
    rewrite seq_nth in Hnth by lia. injection Hnth as Hmk Hr. cbn [plus] in Hmk. subst m r.
    exists (nth k xs (Node (K "" "") [])). split.
    - apply nth_error_nth'. exact Hk'.
    - rewrite (nth_indep _ [] ((fun x : term => [Some x]) (Node (K "" "") []))) by (rewrite map_length; exact Hk').
      exact (map_nth (fun x : term => [Some x]) xs (Node (K "" "") []) k). }
  destruct (Hrow _ _ Hi) as (x & Hx & ->). destruct (Hrow _ _ Hj) as (y & Hy & ->).
  unfold row_generalises in Eg. cbn [all2b] in Eg. rewrite (Hrows i j x y Eij Hx Hy) in Eg. discriminate.
Qed.

Lemma prune_single B Tk a xs : xs <> [] -> abg_prune (single_key B Tk a xs) = single_key B Tk a xs.
Proof.
  intro Hne. unfold abg_prune, single_key. cbn [ab_bounds ab_unsized filter snd].
  destruct xs as [|x xs]; [congruence|]. cbn [map existsb orb]. reflexivity.
Qed.

(* one-step unfoldings of the search recursion *)
Lemma rec_nil sub its f gid sp groups :
  rec sub its (S f) gid [] sp groups =
  fold_left (fun st sg =>
    let sgid := fst sg in
    let sp1 := dec_count (snd st) sgid in
    match im_get term_eqb sp1 sgid with
    | Some O =>
        fold_left (fun st' gm =>
                     let '(res, sp') := rec sub its f sgid (blocks_of its sgid) sp1 gm in
                     (fst st' ++ res, sp'))
                  (fst st) ([], sp1)
    | _ => (fst st, sp1)
    end) (subsets_of sub gid) ([groups], sp).
Proof. reflexivity. Qed.

Lemma rec_cons sub its f gid curr other sp groups :
  rec sub its (S f) gid (curr :: other) sp groups =
  let cb := snd curr in
  let try (st : list gmap * list (term * nat)) (groups' : gmap) :=
    let '(res, sp') := rec sub its f gid other sp groups' in
    match res with
    | [] => st
    | _ => (fst st ++ res, sp')
    end in
  let st1 :=
    fold_left (fun st gk =>
      let g_id := fst gk in
      let g := snd gk in
      let subs_opt :=
        match im_get term_eqb (subsets_of sub g_id) gid with
        | Some s => Some s
        | None => if term_eqb g_id gid then sup g_id gid else None
        end in
      match subs_opt with
      | None => st
      | Some s =>
          fold_left (fun st inter =>
                       try st (im_insert term_eqb groups g_id (inter, snd g ++ [fst curr])))
                    (abg_intersection (fst g) cb s) st
      end) groups ([], sp) in
  let st2 :=
    if im_has term_eqb groups gid then st1
    else try st1 (groups ++ [(gid, (abg_new cb, [fst curr]))]) in
  match fst st2 with
  | [] => ([], sp)
  | _ => st2
  end.
Proof. reflexivity. Qed.

Section Nested.
  Variables H0 H1 B B1 : term.
  Variable a : string.
  Variable n : nat.
  Variables blk T p : nat -> term.
  Variables blk1 T1 T1' p1 : term.
  Variable sigma : subs.

  Let ib (i : nat) : ibounds := {| ib_bounds := [((B, T i), [(a, p i)])]; ib_unsized := [] |}.
  Let ib1 : ibounds := {| ib_bounds := [((B1, T1), [(a, p1)])]; ib_unsized := [] |}.
  Let blocks := map blk (seq 0 n) ++ [blk1].

  Hypothesis Hn : 0 < n.
  Hypothesis Hnodup : NoDup blocks.
  Hypothesis Hgid : forall i, i < n -> gid_of (blk i) = H0.
  Hypothesis Hgid1 : gid_of blk1 = H1.
  Hypothesis Hb : forall i, i < n -> find_bounds (blk i) = ib i.
  Hypothesis Hb1 : find_bounds blk1 = ib1.
  Hypothesis Hkey : forall i j, i < n -> j < n -> tb_eqb (T i) (T j) = true.
  Hypothesis Hrows : forall i j, i < n -> j < n -> i <> j -> sup (p i) (p j) = None.
  (* the header order *)
  Hypothesis Hne : term_eqb H0 H1 = false.
  Hypothesis Hsup01 : sup H0 H1 = Some sigma.
  Hypothesis Hsup10 : sup H1 H0 = None.
  (* the nested block's bound re-expresses to the family's key *)
  Hypothesis Hstable : stable_key sigma B1 T1 = true.
  Hypothesis Hsubst : subst_key sigma B1 T1 = [(B, T1')].
  Hypothesis Hkey1 : tb_eqb (T (n - 1)) T1' = true.
  Hypothesis Hrows1 : forall i, i < n -> sup (p i) p1 = None /\ sup p1 (p i) = None.
  (* identity substitution of the general header *)
  Variable sid : subs.
  Hypothesis Hsid : sup H0 H0 = Some sid.
  Hypothesis Hsid_id : all_identity sid.

  Let sub : list (term * list (term * subs)) := [(H0, [(H1, sigma)]); (H1, [])].
  Let its : items := [(H0, impls_from B a n T p 0); (H1, [(n, ib1)])].
  Let sp0 : list (term * nat) := [(H0, 0); (H1, 1)].
  Let sp1 : list (term * nat) := [(H0, 0); (H1, 0)].

  Definition abg_joint : abg :=
    {| ab_bounds := [((B, T1'), rows_upto a p n ++ [[(a, p1)]])]; ab_unsized := [] |}.
  Definition joint : gmap := [(H0, (abg_joint, seq 0 n ++ [n]))].
  Definition separate : gmap := [(H0, (abg_upto B a T p n, seq 0 n)); (H1, (abg_new ib1, [n]))].

  (* ---- bucketing and the header order ---- *)
  Lemma bucket_nested : bucket blocks = its.
  Proof.
    rewrite (bucket_nodup blocks Hnodup). unfold blocks. rewrite fold_left_app.
    assert (G : forall k, k <= n ->
              fold_left bucket_step (map blk (seq 0 k)) ([], 0)
              = (if Nat.eqb k 0 then [] else [(H0, map (fun i => (i, ib i)) (seq 0 k))], k)).
    { induction k as [|k IH]; intro Hk; [reflexivity|].
      rewrite seq_S, map_app, fold_left_app, IH by lia. cbn [map fold_left plus].
      unfold bucket_step. cbn [fst snd Nat.eqb]. rewrite Hgid, Hb by lia.
      destruct k as [|k']; [reflexivity|]. cbn [Nat.eqb im_update]. rewrite term_eqb_refl, map_app. reflexivity. }
    rewrite (G n (le_n n)). cbn [fold_left]. unfold bucket_step. cbn [fst snd].
    rewrite Hgid1, Hb1. assert (En : Nat.eqb n 0 = false) by (apply Nat.eqb_neq; lia). rewrite En.
    cbn [im_update]. rewrite Hne. cbn [im_update app fst].
    unfold its, impls_from. rewrite Nat.sub_0_r. reflexivity.
  Qed.

  Lemma make_sets_nested : make_sets [H0; H1] = {| supersets := sp0; subsets := sub |}.
  Proof.
    unfold make_sets. cbn [flat_map map app fold_left fst snd].
    rewrite !term_eqb_refl, Hne, (term_eqb_false_sym _ _ Hne), Hsup01, Hsup10.
    cbn [supersets subsets im_update im_insert]. rewrite ?term_eqb_refl, ?Hne. cbn [im_update im_insert].
    rewrite ?term_eqb_refl. reflexivity.
  Qed.

  (* ---- the nested block against the family ---- *)
  Lemma intersection_nested :
    abg_intersection (abg_upto B a T p n) ib1 sigma = [abg_joint].
  Proof.
    unfold abg_intersection, abg_upto, ib1, abg_joint.
    cbn [ib_unsized ib_bounds ab_unsized ab_bounds fold_left fst snd].
    cbn [im_update row_extend fold_left im_insert fst snd map].
    rewrite Hstable. cbn [negb]. rewrite Hsubst. cbn [map im_get].
    assert (Ek : key_eqb (B, T (n - 1)) (B, T1') = true).
    { unfold key_eqb. cbn [fst snd]. rewrite term_eqb_refl, Hkey1. reflexivity. }
    rewrite Ek. cbn [cprod flat_map map app fold_left im_insert fst snd]. reflexivity.
  Qed.

  (* ---- the unlock call after the n blocks of H0 ---- *)
  Lemma unlock_nested fuel : 2 < fuel ->
    rec sub its fuel H0 [] sp0 (groups_upto H0 B a T p n) = ([joint; separate], sp1).
  Proof.
    intro Hf. destruct fuel as [|[|[|fuel]]]; try lia.
    rewrite (groups_upto_pos H0 B a n T p Hn n Hn).
    assert (Hne' := term_eqb_false_sym _ _ Hne).
    assert (S0 : subsets_of sub H0 = [(H1, sigma)]).
    { unfold subsets_of, sub. cbn [im_get]. rewrite term_eqb_refl. reflexivity. }
    assert (S1 : subsets_of sub H1 = []).
    { unfold subsets_of, sub. cbn [im_get]. rewrite Hne, term_eqb_refl. reflexivity. }
    assert (D1 : dec_count sp0 H1 = sp1).
    { unfold dec_count, sp0, sp1. cbn [im_update]. rewrite Hne, term_eqb_refl. reflexivity. }
    assert (G1 : im_get term_eqb sp1 H1 = Some 0).
    { unfold sp1. cbn [im_get]. rewrite Hne, term_eqb_refl. reflexivity. }
    assert (B1' : blocks_of its H1 = [(n, ib1)]).
    { unfold blocks_of, its. cbn [im_get]. rewrite Hne, term_eqb_refl. reflexivity. }
    (* the two leaves: unlock of H1 has nothing to do *)
    assert (Leaf : forall g, rec sub its (S fuel) H1 [] sp1 g = ([g], sp1)).
    { intro g. rewrite rec_nil, S1. reflexivity. }
    rewrite rec_nil, S0. cbn [fold_left fst snd]. rewrite D1, G1. cbn [fold_left fst snd].
    rewrite B1'. rewrite rec_cons. cbv zeta. cbn [fold_left fst snd].
    rewrite S0. cbn [im_get]. rewrite term_eqb_refl.
    rewrite intersection_nested. cbn [fold_left im_insert]. rewrite term_eqb_refl.
    rewrite !Leaf. cbn [app fst snd].
    unfold im_has. cbn [im_get]. rewrite Hne. cbn [app fst snd]. reflexivity.
  Qed.

  Hypothesis Hk11 : tb_eqb T1 T1 = true.

  Lemma joint_single : abg_joint = single_key B T1' a (map p (seq 0 n) ++ [p1]).
  Proof. unfold abg_joint, single_key, rows_upto. rewrite map_app, map_map. reflexivity. Qed.

  Lemma upto_single : abg_upto B a T p n = single_key B (T (n - 1)) a (map p (seq 0 n)).
  Proof. unfold abg_upto, single_key, rows_upto. rewrite map_map. reflexivity. Qed.

  Lemma new1_single : abg_new ib1 = single_key B1 T1 a [p1].
  Proof. reflexivity. Qed.

  Lemma Hk1'1' : tb_eqb T1' T1' = true.
  Proof. eapply tb_eqb_trans; [apply tb_eqb_sym; exact Hkey1|exact Hkey1]. Qed.

  Lemma seq_ne : map p (seq 0 n) <> [].
  Proof. destruct n; [lia|]. discriminate. Qed.

  Lemma rows_joint_distinct i j x y : i <> j ->
    nth_error (map p (seq 0 n) ++ [p1]) i = Some x -> nth_error (map p (seq 0 n) ++ [p1]) j = Some y ->
    sup x y = None.
  Proof.
    intros Hij Hx Hy.
    assert (L : List.length (map p (seq 0 n)) = n) by (rewrite map_length, seq_length; reflexivity).
    assert (Get : forall k z, nth_error (map p (seq 0 n) ++ [p1]) k = Some z ->
                              (k < n /\ z = p k) \/ (k = n /\ z = p1)).
    { intros k z Hk. destruct (Nat.lt_ge_cases k n) as [Hlt|Hge].
      - left. split; [exact Hlt|]. rewrite nth_error_app1 in Hk by lia.
        rewrite nth_error_map in Hk. rewrite (nth_error_nth' _ 0) in Hk by (rewrite seq_length; lia).
        rewrite seq_nth in Hk by lia. cbn in Hk. congruence.
      - right. rewrite nth_error_app2 in Hk by lia. rewrite L in Hk.
        destruct (k - n) as [|d] eqn:E; cbn in Hk; [|destruct d; discriminate].
        split; [lia|congruence]. }
    destruct (Get _ _ Hx) as [[Hi ->]|[Hi ->]], (Get _ _ Hy) as [[Hj ->]|[Hj ->]].
    - apply Hrows; assumption.
    - apply (Hrows1 i Hi).
    - apply (Hrows1 j Hj).
    - lia.
  Qed.

  Lemma rows_upto_distinct i j x y : i <> j ->
    nth_error (map p (seq 0 n)) i = Some x -> nth_error (map p (seq 0 n)) j = Some y -> sup x y = None.
  Proof.
    intros Hij Hx Hy. apply (rows_joint_distinct i j x y Hij).
    - rewrite nth_error_app1; [exact Hx|]. apply nth_error_Some. congruence.
    - rewrite nth_error_app1; [exact Hy|]. apply nth_error_Some. congruence.
  Qed.

  Theorem nested_member_accepted fuel : n + 2 < fuel ->
    search fuel blocks = Some joint /\
    abg_payloads abg_joint = map (fun x => [Some x]) (map p (seq 0 n) ++ [p1]).
  Proof.
    intro Hf. split.
    - assert (Hself : im_get term_eqb (subsets_of sub H0) H0 = None).
      { unfold subsets_of, sub. cbn [im_get]. rewrite term_eqb_refl. cbn [im_get].
        rewrite (term_eqb_false_sym _ _ Hne). reflexivity. }
      pose proof (rec_blocks H0 B a n T p Hn Hkey sid Hsid Hsid_id sub its Hself sp0 [joint; separate] sp1
                   (fuel - n) (unlock_nested (fuel - n) ltac:(lia)) ltac:(discriminate) n 0 (Nat.add_0_l n)) as R.
      replace (n + (fuel - n)) with fuel in R by lia. cbn [groups_upto] in R.
      unfold search. rewrite bucket_nested.
      assert (E1 : map fst its = [H0; H1]) by reflexivity. rewrite E1, make_sets_nested.
      cbn [supersets subsets].
      assert (E2 : map fst (filter (fun e : term * nat => Nat.eqb (snd e) 0) sp0) = [H0]) by reflexivity.
      rewrite E2. cbn [fold_left].
      assert (E3 : im_get term_eqb its H0 = Some (impls_from B a n T p 0)).
      { unfold its. cbn [im_get]. rewrite term_eqb_refl. reflexivity. }
      rewrite E3, R.
      (* both candidates pass the filter; the joint one is smaller *)
      cbn [flat_map app]. unfold candidate_ok, joint, separate. cbn [fold_left fst snd].
      rewrite joint_single, upto_single, new1_single.
      assert (NJ : map p (seq 0 n) ++ [p1] <> []) by (intro E; apply app_eq_nil in E; destruct E; discriminate).
      assert (N1 : [p1] <> []) by discriminate.
      rewrite (prune_single B T1' a _ NJ), (prune_single B (T (n - 1)) a _ seq_ne), (prune_single B1 T1 a _ N1).
      assert (EE : forall B0 Tk xs, xs <> [] -> abg_is_empty (single_key B0 Tk a xs) = false) by (intros; reflexivity).
      rewrite !EE by assumption || exact seq_ne.
      rewrite (not_overlapping_single B T1' a _ NJ Hk1'1' rows_joint_distinct).
      rewrite (not_overlapping_single B (T (n - 1)) a _ seq_ne (Hkey (n - 1) (n - 1) ltac:(lia) ltac:(lia)) rows_upto_distinct).
      rewrite (not_overlapping_single B1 T1 a [p1] N1 Hk11).
      2:{ intros i j x y Hij Hx Hy. destruct i as [|[|i]], j as [|[|j]]; cbn in Hx, Hy; try discriminate; lia. }
      cbn [app choose fold_left List.length Nat.leb fst]. reflexivity.
    - rewrite joint_single. apply payloads_single; [|exact Hk1'1'].
      intro E. apply app_eq_nil in E. destruct E; discriminate.
  Qed.
End Nested.

(* the closed statement *)
Theorem nested_member_search (H0 H1 B B1 : term) (a : string) (n : nat) (blk T p : nat -> term)
        (blk1 T1 T1' p1 : term) (sigma : subs) :
  0 < n ->
  NoDup (map blk (seq 0 n) ++ [blk1]) ->
  (forall i, i < n -> gid_of (blk i) = H0) -> gid_of blk1 = H1 ->
  (forall i, i < n -> find_bounds (blk i) = {| ib_bounds := [((B, T i), [(a, p i)])]; ib_unsized := [] |}) ->
  find_bounds blk1 = {| ib_bounds := [((B1, T1), [(a, p1)])]; ib_unsized := [] |} ->
  (forall i j, i < n -> j < n -> tb_eqb (T i) (T j) = true) ->
  (forall i j, i < n -> j < n -> i <> j -> sup (p i) (p j) = None) ->
  term_eqb H0 H1 = false -> sup H0 H1 = Some sigma -> sup H1 H0 = None -> cwf [] H0 = true ->
  stable_key sigma B1 T1 = true -> subst_key sigma B1 T1 = [(B, T1')] ->
  tb_eqb (T (n - 1)) T1' = true -> tb_eqb T1 T1 = true ->
  (forall i, i < n -> sup (p i) p1 = None /\ sup p1 (p i) = None) ->
  forall fuel, n + 2 < fuel ->
  exists g, search fuel (map blk (seq 0 n) ++ [blk1]) = Some [(H0, (g, seq 0 n ++ [n]))] /\
            abg_payloads g = map (fun x => [Some x]) (map p (seq 0 n) ++ [p1]).
Proof.
  intros Hn Hnd Hgid Hgid1 Hb Hb1 Hkey Hrows Hne H01 H10 Hcwf Hst Hsu Hk1 Hk11 Hrows1 fuel Hf.
  destruct (sup_refl_identity H0 Hcwf) as (sid & Hsid & Hid).
  exists (abg_joint B a n p T1' p1).
  eapply nested_member_accepted; eauto.
Qed.
