(* proofs/ParamOrder.v -- the canonical numbering does not depend on the order in which a block
   declares its generic parameters: for blocks that differ only by a permutation of the generics
   list (parameters with distinct names), the indexer assigns the same numbers in the same
   order, hence the canonical header, where-clause and items are identical and the canonical
   generics list is the permuted list, renamed alike. *)
From Coq Require Import List String Ascii Bool Arith Lia Permutation.
Import ListNotations.
From DI Require Import Syntax Param.
From DI.proofs Require Import Basics ParamProofs.

Definition st_equiv (a b : pstate) : Prop :=
  indexed a = indexed b /\ counter a = counter b /\ Permutation (unindexed a) (unindexed b).

Lemma st_equiv_refl a : st_equiv a a.
Proof. repeat split; auto. Qed.

Lemma existsb_perm {A} (f : A -> bool) l l' : Permutation l l' -> existsb f l = existsb f l'.
Proof.
  induction 1 as [|x l l' _ IH|x y l|l l' l'' _ IH1 _ IH2]; cbn [existsb]; auto.
  - rewrite IH. reflexivity.
  - destruct (f x), (f y); reflexivity.
  - rewrite IH1. exact IH2.
Qed.

Lemma filter_perm {A} (f : A -> bool) l l' : Permutation l l' -> Permutation (filter f l) (filter f l').
Proof.
  induction 1 as [|x l l' _ IH|x y l|l l' l'' _ IH1 _ IH2]; cbn [filter]; auto.
  - destruct (f x); auto.
  - destruct (f x), (f y); auto. apply perm_swap.
  - eapply perm_trans; eassumption.
Qed.

Lemma flat_map_perm {A B} (f : A -> list B) l l' : Permutation l l' -> Permutation (flat_map f l) (flat_map f l').
Proof.
  induction 1 as [|x l l' _ IH|x y l|l l' l'' _ IH1 _ IH2]; cbn [flat_map]; auto.
  - apply Permutation_app_head. exact IH.
  - rewrite !app_assoc. apply Permutation_app_tail. apply Permutation_app_comm.
  - eapply perm_trans; eassumption.
Qed.

Lemma try_index_equiv a b k n : st_equiv a b ->
  st_equiv (fst (try_index a k n)) (fst (try_index b k n)) /\ snd (try_index a k n) = snd (try_index b k n).
Proof.
  intros (Hi & Hc & Hp). unfold try_index, is_unindexed.
  rewrite (existsb_perm _ _ _ Hp).
  destruct (existsb _ (unindexed b)); cbn [fst snd]; [|repeat split; auto].
  repeat split; cbn [indexed counter unindexed]; try congruence.
  apply filter_perm. exact Hp.
Qed.

Lemma fold_equiv (ks : list term) :
  Forall (fun t => forall a b, st_equiv a b -> st_equiv (index_term a t) (index_term b t)) ks ->
  forall a b, st_equiv a b -> st_equiv (fold_left index_term ks a) (fold_left index_term ks b).
Proof. induction 1 as [|t ks Ht _ IH]; cbn [fold_left]; intros a b H; [exact H|]. apply IH. apply Ht. exact H. Qed.

Theorem index_term_equiv t : forall a b, st_equiv a b -> st_equiv (index_term a t) (index_term b t).
Proof.
  induction t as [l ks IH] using term_ind'. intros a b H.
  pose proof (fold_equiv ks IH) as Hfold.
  rewrite !index_term_eq.
  destruct (is_kind "Lifetime" l || is_kind "PredLifetime" l).
  { apply Hfold. apply try_index_equiv. exact H. }
  destruct (is_kind "TPath" l || is_kind "EPath" l); [|apply Hfold; exact H].
  destruct ks as [|q [|p [|x r]]]; try (apply Hfold; exact H).
  inversion IH as [|? ? Hq IH1]; subst. inversion IH1 as [|? ? Hp _]; subst.
  cbv zeta. apply Hp.
  pose proof (Hq a b H) as H1.
  destruct (no_qself q); [|exact H1].
  destruct (first_seg p) as [[n bare]|]; [|exact H1].
  destruct (try_index_equiv _ _ PTy n H1) as [He Hs].
  rewrite (try_index_pair (index_term a q) PTy n), (try_index_pair (index_term b q) PTy n), Hs.
  destruct (snd (try_index (index_term b q) PTy n)); [exact He|].
  destruct bare; [|exact H1].
  apply try_index_equiv. exact H1.
Qed.

Lemma fold_terms_equiv ts : forall a b, st_equiv a b ->
  st_equiv (fold_left index_term ts a) (fold_left index_term ts b).
Proof. induction ts as [|t ts IH]; cbn [fold_left]; intros a b H; [exact H|]. apply IH. apply index_term_equiv. exact H. Qed.

(* ---- looking a parameter up in a permuted generics list ---- *)
Lemma find_hd_filter {A} (f : A -> bool) l : find f l = hd_error (filter f l).
Proof. induction l as [|x l IH]; [reflexivity|]. cbn [find filter]. destruct (f x); [reflexivity|exact IH]. Qed.

Lemma perm_short {A} (l l' : list A) : Permutation l l' -> List.length l <= 1 -> l = l'.
Proof.
  intros Hp Hl. destruct l as [|x [|y r]]; cbn [List.length] in Hl; try lia.
  - apply Permutation_nil in Hp. symmetry. exact Hp.
  - apply Permutation_length_1_inv in Hp. symmetry. exact Hp.
Qed.

Definition gp_matches (k : pkind) (n : string) (gp : term) : bool :=
  match gp_decl gp with
  | Some (k', n') => pkind_eqb k' k && String.eqb n' n
  | None => false
  end.

Lemma pkind_eqb_true a b : pkind_eqb a b = true -> a = b.
Proof. destruct a, b; simpl; intro H; try discriminate; reflexivity. Qed.

Lemma at_most_one gps k n : NoDup (declared gps) -> List.length (filter (gp_matches k n) gps) <= 1.
Proof.
  induction gps as [|gp gps IH]; cbn [filter List.length]; intro Hnd; [lia|].
  unfold declared in Hnd. cbn [flat_map] in Hnd. fold (declared gps) in Hnd.
  unfold gp_matches at 1.
  destruct (gp_decl gp) as [[k' n']|] eqn:Ed; cbn [app] in Hnd.
  - inversion Hnd as [|? ? Hnotin Hnd']; subst.
    destruct (pkind_eqb k' k && String.eqb n' n) eqn:Em; [|apply IH; exact Hnd'].
    apply andb_true_iff in Em. destruct Em as [Ek En].
    apply pkind_eqb_true in Ek. apply String.eqb_eq in En. subst k' n'.
    assert (Hnil : filter (gp_matches k n) gps = []).
    { destruct (filter (gp_matches k n) gps) as [|y r] eqn:Ef; [reflexivity|]. exfalso.
      assert (Hy : In y (filter (gp_matches k n) gps)) by (rewrite Ef; left; reflexivity).
      apply filter_In in Hy. destruct Hy as [Hy Hm]. unfold gp_matches in Hm.
      destruct (gp_decl y) as [[k2 n2]|] eqn:Ey; [|discriminate].
      apply andb_true_iff in Hm. destruct Hm as [E1 E2].
      apply pkind_eqb_true in E1. apply String.eqb_eq in E2. subst.
      apply Hnotin. unfold declared. apply in_flat_map. exists y. split; [exact Hy|]. rewrite Ey. left. reflexivity. }
    rewrite Hnil. cbn [List.length]. lia.
  - apply IH. exact Hnd.
Qed.

Lemma find_gp_perm gps gps' k n : Permutation gps gps' -> NoDup (declared gps) ->
  find (gp_matches k n) gps = find (gp_matches k n) gps'.
Proof.
  intros Hp Hnd. rewrite !find_hd_filter.
  rewrite (perm_short _ _ (filter_perm (gp_matches k n) _ _ Hp) (at_most_one gps k n Hnd)). reflexivity.
Qed.

Section Order.
  Variables gps gps' : list term.
  Hypothesis Hperm : Permutation gps gps'.
  Hypothesis Hnd : NoDup (declared gps).

  Lemma visit_indexed_equiv a b preds : st_equiv a b ->
    st_equiv (visit_indexed a gps preds) (visit_indexed b gps' preds).
  Proof.
    intro H. unfold visit_indexed. apply fold_terms_equiv.
    destruct H as (Hi & Hc & Hp). rewrite Hi.
    set (todo := filter _ (indexed b)).
    assert (H0 : st_equiv {| unindexed := unindexed a; indexed := indexed b; counter := counter a |}
                          {| unindexed := unindexed b; indexed := indexed b; counter := counter b |}).
    { repeat split; auto. }
    rewrite <- Hi at 1.
    replace {| unindexed := unindexed a; indexed := indexed a; counter := counter a |}
      with {| unindexed := unindexed a; indexed := indexed b; counter := counter a |} by (rewrite Hi; reflexivity).
    revert H0.
    generalize {| unindexed := unindexed a; indexed := indexed b; counter := counter a |}
               {| unindexed := unindexed b; indexed := indexed b; counter := counter b |}.
    induction todo as [|e todo IH]; cbn [fold_left]; intros s s' Hs; [exact Hs|].
    apply IH.
    change (fun gp : term => match gp_decl gp with
                             | Some (k, n) => pkind_eqb k (fst (fst e)) && String.eqb n (snd (fst e))
                             | None => false
                             end) with (gp_matches (fst (fst e)) (snd (fst e))).
    rewrite <- (find_gp_perm gps gps' _ _ Hperm Hnd).
    destruct (find _ gps) as [gp|]; [apply fold_terms_equiv; exact Hs|exact Hs].
  Qed.

  Lemma index_loop_equiv fuel : forall a b preds, st_equiv a b ->
    st_equiv (index_loop fuel a gps preds) (index_loop fuel b gps' preds).
  Proof.
    induction fuel as [|fuel IH]; intros a b preds H; [exact H|]. cbn [index_loop].
    pose proof (visit_indexed_equiv a b preds H) as Hv.
    destruct H as (_ & _ & Hp). destruct Hv as (Hi' & Hc' & Hp').
    rewrite (Permutation_length Hp), (Permutation_length Hp').
    destruct (Nat.eqb _ _); [repeat split; assumption|]. apply IH. repeat split; assumption.
  Qed.

  (* the block with its generics list permuted receives the same numbering *)
  Theorem index_block_decl_order lb lg tr self lw preds items :
    indexed (index_block (Node lb [Node lg gps'; tr; self; Node lw preds; items])) =
    indexed (index_block (Node lb [Node lg gps; tr; self; Node lw preds; items])).
  Proof.
    unfold index_block. rewrite <- (Permutation_length Hperm). symmetry.
    apply index_loop_equiv. repeat apply index_term_equiv.
    repeat split; auto. cbn [unindexed]. unfold declared. apply flat_map_perm. exact Hperm.
  Qed.

  (* hence the canonical block is the same except that its generics list is the permuted list *)
  Theorem canon_decl_order lb lg tr self lw preds items :
    let b := Node lb [Node lg gps; tr; self; Node lw preds; items] in
    let b' := Node lb [Node lg gps'; tr; self; Node lw preds; items] in
    let ix := indexed (index_block b) in
    canon b = Node lb [Node lg (map (ren_gp ix) gps); ren ix tr; ren ix self; ren ix (Node lw preds); ren ix items] /\
    canon b' = Node lb [Node lg (map (ren_gp ix) gps'); ren ix tr; ren ix self; ren ix (Node lw preds); ren ix items].
  Proof.
    cbv zeta. split; [reflexivity|]. unfold canon. rewrite index_block_decl_order. reflexivity.
  Qed.
End Order.
