(* proofs/Basics.v -- induction principle for the rose tree, boolean equalities, and the
   algebra of [merge]. *)
From Coq Require Import List String Ascii Bool Arith Lia.
Import ListNotations.
From DI Require Import Syntax Subs.

Section TermInd.
  Variable P : term -> Prop.
  Hypothesis H : forall l ks, Forall P ks -> P (Node l ks).
  Fixpoint term_ind' (t : term) : P t :=
    match t with
    | Node l ks =>
        H l ks ((fix go (xs : list term) : Forall P xs :=
                   match xs with
                   | [] => Forall_nil P
                   | x :: xs' => Forall_cons x (term_ind' x) (go xs')
                   end) ks)
    end.
End TermInd.

Lemma label_eqb_eq a b : label_eqb a b = true -> a = b.
Proof.
  destruct a as [ka da], b as [kb db]; unfold label_eqb; simpl; intro H.
  apply andb_true_iff in H; destruct H as [H1 H2].
  apply String.eqb_eq in H1; apply String.eqb_eq in H2; subst; reflexivity.
Qed.

Lemma label_eqb_refl a : label_eqb a a = true.
Proof. destruct a; unfold label_eqb; simpl; rewrite !String.eqb_refl; reflexivity. Qed.

Lemma is_kind_eq k l : is_kind k l = true -> lk l = k.
Proof. unfold is_kind; apply String.eqb_eq. Qed.

Lemma all2_with_eq {A} (f : A -> A -> bool) xs :
  Forall (fun x => forall y, f x y = true -> x = y) xs ->
  forall ys, all2_with f xs ys = true -> xs = ys.
Proof.
  induction 1 as [|x xs Hx Hxs IH]; intros [|y ys] H; simpl in H; try discriminate; auto.
  apply andb_true_iff in H; destruct H as [H1 H2].
  f_equal; auto.
Qed.

Lemma all2_with_refl {A} (f : A -> A -> bool) xs :
  Forall (fun x => f x x = true) xs -> all2_with f xs xs = true.
Proof. induction 1; simpl; auto. rewrite H; auto. Qed.

Lemma term_eqb_unfold la ka lb kb :
  term_eqb (Node la ka) (Node lb kb) = label_eqb la lb && all2_with term_eqb ka kb.
Proof. reflexivity. Qed.

Lemma term_eqb_eq a : forall b, term_eqb a b = true -> a = b.
Proof.
  induction a as [la ka IH] using term_ind'; intros [lb kb] H.
  rewrite term_eqb_unfold in H. apply andb_true_iff in H; destruct H as [H1 H2].
  apply label_eqb_eq in H1; subst lb. f_equal.
  eapply all2_with_eq; eauto.
Qed.

Lemma term_eqb_refl a : term_eqb a a = true.
Proof.
  induction a as [la ka IH] using term_ind'.
  rewrite term_eqb_unfold, label_eqb_refl; simpl.
  apply all2_with_refl; assumption.
Qed.

Lemma value_eqb_eq v w : value_eqb v w = true -> v = w.
Proof.
  destruct v, w; simpl; intro H; try discriminate; try reflexivity;
    apply term_eqb_eq in H; subst; reflexivity.
Qed.

Lemma value_eqb_refl v : value_eqb v v = true.
Proof. destruct v; simpl; auto using term_eqb_refl. Qed.

(* ---- substitutions ---- *)

Definition ext (s s' : subs) : Prop :=
  forall p v, lookup s p = Some v -> lookup s' p = Some v.

Lemma ext_refl s : ext s s. Proof. intros p v H; exact H. Qed.
Lemma ext_trans s1 s2 s3 : ext s1 s2 -> ext s2 s3 -> ext s1 s3.
Proof. intros H1 H2 p v H; auto. Qed.
Lemma ext_nil s : ext [] s. Proof. intros p v H; discriminate. Qed.

Lemma lookup_app s p v q :
  lookup (s ++ [(p, v)]) q =
  match lookup s q with
  | Some w => Some w
  | None => if String.eqb p q then Some v else None
  end.
Proof.
  induction s as [|[r w] s IH]; simpl.
  - reflexivity.
  - destruct (String.eqb r q); auto.
Qed.

Lemma merge_ext_l o : forall s r, merge s o = Some r -> ext s r.
Proof.
  induction o as [|[p v] o IH]; simpl; intros s r H.
  - inversion H; subst; apply ext_refl.
  - destruct (lookup s p) as [w|] eqn:E.
    + destruct (value_eqb v w); [eauto | discriminate].
    + apply IH in H. intros q u Hq. apply H. rewrite lookup_app, Hq. reflexivity.
Qed.

Lemma merge_ext_r o : forall s r, merge s o = Some r -> ext o r.
Proof.
  induction o as [|[p v] o IH]; simpl; intros s r H q u Hq; simpl in Hq; [discriminate|].
  destruct (String.eqb p q) eqn:Epq.
  - apply String.eqb_eq in Epq; subst q. inversion Hq; subst u; clear Hq.
    destruct (lookup s p) as [w|] eqn:E.
    + destruct (value_eqb v w) eqn:Ev; [|discriminate].
      apply value_eqb_eq in Ev; subst w.
      eapply merge_ext_l; eauto.
    + eapply merge_ext_l; eauto. rewrite lookup_app, E, String.eqb_refl. reflexivity.
  - destruct (lookup s p) as [w|] eqn:E.
    + destruct (value_eqb v w); [|discriminate]. eapply IH; eauto.
    + eapply IH; eauto.
Qed.

Lemma omerge_some a b r :
  omerge a b = Some r -> exists x y, a = Some x /\ b = Some y /\ merge x y = Some r.
Proof. destruct a, b; simpl; intro H; try discriminate; eauto. Qed.

(* every binding of a merge comes from one of the two sides *)
Lemma merge_dom o : forall s r p, merge s o = Some r ->
  lookup r p <> None -> lookup s p <> None \/ lookup o p <> None.
Proof.
  induction o as [|[q v] o IH]; simpl; intros s r p H Hp.
  - inversion H; subst; auto.
  - destruct (lookup s q) as [w|] eqn:E.
    + destruct (value_eqb v w); [|discriminate].
      destruct (IH _ _ _ H Hp); auto. right. destruct (String.eqb q p); congruence.
    + destruct (IH _ _ _ H Hp) as [H1|H1].
      * rewrite lookup_app in H1. destruct (lookup s p); auto.
        destruct (String.eqb q p) eqn:Eq; [|congruence]. right; congruence.
      * right. destruct (String.eqb q p); congruence.
Qed.

Lemma merge_values o : forall s r p v, merge s o = Some r ->
  lookup r p = Some v -> lookup s p = Some v \/ lookup o p = Some v.
Proof.
  induction o as [|[q w] o IH]; simpl; intros s r p v H Hp.
  - inversion H; subst; auto.
  - destruct (lookup s q) as [w'|] eqn:E.
    + destruct (value_eqb w w') eqn:Ev; [|discriminate].
      apply value_eqb_eq in Ev; subst w'.
      destruct (IH _ _ _ _ H Hp) as [H1|H1]; auto.
      destruct (String.eqb q p) eqn:Eq; auto.
      apply String.eqb_eq in Eq; subst q.
      left. (* o binds p later, but s already binds it: r agrees with s *)
      pose proof (merge_ext_l _ _ _ H p w E). congruence.
    + destruct (IH _ _ _ _ H Hp) as [H1|H1].
      * rewrite lookup_app in H1. destruct (lookup s p) eqn:Es; auto.
        destruct (String.eqb q p) eqn:Eq; [|discriminate]. right; exact H1.
      * destruct (String.eqb q p) eqn:Eq; auto.
        apply String.eqb_eq in Eq; subst q. right.
        pose proof (merge_ext_l _ _ _ H p w) as Hx.
        rewrite lookup_app, E, String.eqb_refl in Hx. specialize (Hx eq_refl). congruence.
Qed.
