(* proofs/SearchProofs.v -- what every grouping returned by the search model satisfies by
   construction of the driver: each family has at least one dispatch key and no row of payloads
   generalises another one (the macro never emits two helper impls rustc could not tell apart
   by their rows). *)
From Coq Require Import List String Bool Arith.
Import ListNotations.
From DI Require Import Syntax Subs Superset Group Search.

Definition family_ok (e : term * (abg * list nat)) : Prop :=
  abg_is_empty (fst (snd e)) = false /\ abg_is_overlapping (fst (snd e)) = false.

Lemma candidate_ok_fold gm : forall acc r,
  fold_left (fun acc e =>
    match acc with
    | None => None
    | Some done =>
        let g := abg_prune (fst (snd e)) in
        if abg_is_empty g then None
        else if abg_is_overlapping g then None
        else Some (done ++ [(fst e, (g, snd (snd e)))])
    end) gm acc = Some r ->
  exists done, acc = Some done /\ (Forall family_ok done -> Forall family_ok r).
Proof.
  induction gm as [|e gm IH]; simpl; intros acc r H.
  - exists r. split; auto.
  - apply IH in H. destruct H as (done' & Hd & Himp).
    destruct acc as [done|]; [|discriminate]. exists done. split; [reflexivity|].
    intro Hf. apply Himp.
    destruct (abg_is_empty (abg_prune (fst (snd e)))) eqn:E1; [discriminate|].
    destruct (abg_is_overlapping (abg_prune (fst (snd e)))) eqn:E2; [discriminate|].
    inversion Hd; subst done'. apply Forall_app. split; [exact Hf|].
    constructor; [|constructor]. split; assumption.
Qed.

Lemma candidate_ok_spec gm r : candidate_ok gm = Some r -> Forall family_ok r.
Proof.
  unfold candidate_ok. intro H. apply candidate_ok_fold in H.
  destruct H as (done & Hd & Himp). inversion Hd; subst. apply Himp. constructor.
Qed.

Lemma choose_fold_in (r : list gmap) : forall c,
  In (fold_left (fun acc n => if Nat.leb (List.length n) (List.length acc) then n else acc) r c) (c :: r).
Proof.
  induction r as [|n r IH]; simpl; intro c; [left; reflexivity|].
  destruct (Nat.leb (List.length n) (List.length c)).
  - destruct (IH n) as [H|H]; [right; left; exact H | right; right; exact H].
  - destruct (IH c) as [H|H]; [left; exact H | right; right; exact H].
Qed.

Lemma choose_in cands c : choose cands = Some c -> In c cands.
Proof.
  destruct cands as [|c0 r]; simpl; [discriminate|]. intro H. inversion H; subst. apply choose_fold_in.
Qed.

Lemma filtered_ok (cands : list gmap) c :
  In c (flat_map (fun c => match candidate_ok c with Some c' => [c'] | None => [] end) cands) ->
  Forall family_ok c.
Proof.
  intro H. apply in_flat_map in H. destruct H as (c0 & _ & Hc).
  destruct (candidate_ok c0) as [c'|] eqn:E; [|contradiction].
  destruct Hc as [Hc|[]]. subst c'. eapply candidate_ok_spec; eauto.
Qed.

Theorem search_families_ok fuel blocks gm :
  search fuel blocks = Some gm -> Forall family_ok gm.
Proof.
  unfold search.
  set (its := bucket blocks). set (st := make_sets (map fst its)).
  set (roots := map fst (filter (fun e => Nat.eqb (snd e) 0) (supersets st))).
  assert (G : forall roots acc,
            (forall g, fst acc = Some g -> Forall family_ok g) ->
            forall g, fst (fold_left (fun acc root =>
              match acc with
              | (None, sp) => (None, sp)
              | (Some prev, sp) =>
                  let '(cands, sp') := rec (subsets st) its fuel root
                                           (match im_get term_eqb its root with Some m => m | None => [] end) sp prev in
                  (choose (flat_map (fun c => match candidate_ok c with Some c' => [c'] | None => [] end) cands), sp')
              end) roots acc) = Some g -> Forall family_ok g).
  { induction roots0 as [|root rs IH]; simpl; intros acc Hacc g Hg; [auto|].
    eapply IH; [|exact Hg]. clear IH Hg g.
    destruct acc as [[prev|] sp]; [|simpl; intros; discriminate].
    destruct (rec (subsets st) its fuel root _ sp prev) as [cands sp'] eqn:Er.
    simpl. intros g Hg. apply choose_in in Hg. eapply filtered_ok; eauto. }
  intro H. eapply G; [|exact H]. simpl. intros g Hg. inversion Hg; subst. constructor.
Qed.
