(* proofs/FlatSemantics.v -- the link between the syntactic side (blocks, their bounds) and the
   semantic grouping invariant of Dispatch.v, for a flat family: n blocks with one header whose
   only bound is the key bound `B: Tr<.., A = p_i>`.  With
     keyvals q  = the value of <B as Tr>::A at q (when the header matches and the bound holds)
     member i   = (RustSem.applies W (blk i), "p_i instantiated at q generalises the value")
   the grouping invariant holds, hence (DispatchProofs) the main impl's coverage is exact. *)
From Coq Require Import List String Bool Arith Lia.
Import ListNotations.
From DI Require Import Syntax Tokens Bounds Subs Superset Substitute Spec RustSem Dispatch.
From DI.proofs Require Import Basics DispatchProofs.

Section FlatSem.
  Variable W : world.
  Variables Hd B TR : term.
  Variable a : string.
  Variable n : nat.
  Variables blk T p : nat -> term.

  Hypothesis Hhdr : forall i, i < n -> block_header (blk i) = Hd.
  Hypothesis Hbb : forall i, i < n ->
    block_bounds (blk i) = [{| b_ty := B; b_maybe := false; b_path := T i |}].
  Hypothesis Htr : forall i, i < n -> trait_ref (T i) = TR.
  Hypothesis Hbind : forall i, i < n -> path_bindings (T i) = [(a, p i)].
  Hypothesis Hns : forall rho, is_sized_path (apply rho TR) = false.

  (* the value of the key projection <B as TR>::a at the query *)
  Definition keyvals (q : term) : option term :=
    match sup Hd q with
    | None => None
    | Some s =>
        let rho := ground_subs s in
        let tau := apply rho B in
        let tr := apply rho TR in
        if ground tau && ground tr && holds W tau tr then assoc W tau tr a else None
    end.

  Definition member_of (i : nat) : member term term :=
    {| m_applies := applies W (blk i);
       m_row := fun q v => match sup Hd q with
                           | Some s => is_some (sup (apply (ground_subs s) (p i)) v)
                           | None => false
                           end |}.

  Theorem flat_grouping_invariant :
    grouping_invariant term term keyvals (map member_of (seq 0 n)).
  Proof.
    intros m q Hm Happ. apply in_map_iff in Hm. destruct Hm as (i & <- & Hi). apply in_seq in Hi.
    assert (Hin : i < n) by lia. cbn [member_of m_applies m_row] in *.
    unfold applies in Happ. rewrite (Hhdr i Hin) in Happ.
    unfold keyvals. destruct (sup Hd q) as [s|] eqn:Es; [|discriminate].
    apply andb_true_iff in Happ. destruct Happ as [_ Hsolve].
    rewrite (Hbb i Hin) in Hsolve. cbn [List.length solve_bounds] in Hsolve.
    cbn [check_bounds b_maybe b_ty b_path] in Hsolve.
    rewrite (Htr i Hin), (Hbind i Hin) in Hsolve.
    set (rho := ground_subs s) in *.
    destruct (ground (apply rho B) && ground (apply rho TR)) eqn:Eg.
    - rewrite Hns in Hsolve.
      destruct (holds W (apply rho B) (apply rho TR)) eqn:Eh; [|discriminate].
      destruct (assoc W (apply rho B) (apply rho TR) a) as [v|] eqn:Ea; [|discriminate].
      destruct (sup (apply rho (p i)) v) as [s'|] eqn:Ep; [|discriminate].
      exists v. cbn [andb]. split; [reflexivity|]. rewrite Ep. reflexivity.
    - cbn [List.length Nat.eqb] in Hsolve. discriminate.
  Qed.

  (* hence: the trait is implemented through the family exactly for the queries some block
     applies to (Dispatch.v's exact coverage, instantiated) *)
  Corollary flat_exact_coverage q :
    main_applies term term keyvals (map member_of (seq 0 n)) q = true <->
    exists i, i < n /\ applies W (blk i) q = true.
  Proof.
    rewrite (exact_coverage term term keyvals (map member_of (seq 0 n)) flat_grouping_invariant q).
    split.
    - intros (m & Hm & Ha). apply in_map_iff in Hm. destruct Hm as (i & <- & Hi). apply in_seq in Hi.
      exists i. split; [lia|exact Ha].
    - intros (i & Hi & Ha). exists (member_of i). split; [|exact Ha].
      apply in_map. apply in_seq. lia.
  Qed.
End FlatSem.
