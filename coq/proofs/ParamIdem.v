(* proofs/ParamIdem.v -- "canonicalising twice changes nothing", the resolver's half.
   The second canonicalisation of a block runs the resolver with the index list of the
   canonical block.  If the indexer numbers the canonical block as it numbered the original
   (the parameter that received number i is now called `_ŠČi`, and still receives number i),
   that list is [cix ix].  This file proves that the resolver run with [cix ix] leaves every
   term already resolved with [ix] unchanged, for ANY term and ANY index list with distinct
   numbers, provided no name the first pass left as written is spelled like one of the block's
   own canonical names (a user type called `_ŠČ0`: the reserved prefix, finding F15).
   The hypothesis of the corollary (the indexer is stable) is an equation between two
   computed index lists; it is checked on every generated block by `check C13` (oracle iv). *)
From Coq Require Import List String Ascii Bool Arith Lia.
Import ListNotations.
From DI Require Import Syntax Param.
From DI.proofs Require Import Basics ParamProofs ParamAlpha ParamNames ParamCanon.

Definition cix (ix : list (pkind * string * nat)) : list (pkind * string * nat) :=
  map (fun e => (fst (fst e), canon_name (snd e), snd e)) ix.

(* the resolver of `canon`, with the index list as a parameter *)
Definition resolve_with (ix : list (pkind * string * nat)) (b : term) : term :=
  match b with
  | Node lb [Node lg gps; tr; self; wh; items] =>
      Node lb [Node lg (map (ren_gp ix) gps); ren ix tr; ren ix self; ren ix wh; ren ix items]
  | _ => b
  end.

Lemma canon_resolve_with b : canon b = resolve_with (indexed (index_block b)) b.
Proof. reflexivity. Qed.

Lemma new_name_some_in ix k m n :
  new_name ix k m = Some n -> exists e, In e ix /\ fst (fst e) = k /\ snd (fst e) = m /\ n = canon_name (snd e).
Proof.
  unfold new_name. destruct (find _ ix) as [e|] eqn:Ef; [|discriminate].
  intro H. inversion H; subst. apply find_some in Ef. destruct Ef as [Hin Hb].
  apply andb_true_iff in Hb. destruct Hb as [Hk Hn].
  apply pkind_eqb_eq in Hk. apply String.eqb_eq in Hn. exists e. auto.
Qed.

Lemma new_name_cix_fix ix k m m' : new_name (cix ix) k m = Some m' -> m' = m.
Proof.
  intro H. apply new_name_some_in in H. destruct H as (e & Hin & _ & Hm & Hn).
  unfold cix in Hin. apply in_map_iff in Hin. destruct Hin as (e0 & He0 & _). subst e.
  cbn [fst snd] in *. congruence.
Qed.

Lemma new_name_cix_none ix k m :
  (forall e, In e ix -> m <> canon_name (snd e)) -> new_name (cix ix) k m = None.
Proof.
  intro Hf. destruct (new_name (cix ix) k m) eqn:E; [|reflexivity]. exfalso.
  apply new_name_some_in in E. destruct E as (e & Hin & _ & Hm & _).
  unfold cix in Hin. apply in_map_iff in Hin. destruct Hin as (e0 & He0 & Hin0). subst e.
  cbn [fst snd] in Hm. apply (Hf e0 Hin0). symmetry. exact Hm.
Qed.

Lemma nodup_snd_eq {A B} (l : list (A * B)) a b :
  NoDup (map snd l) -> In a l -> In b l -> snd a = snd b -> a = b.
Proof.
  induction l as [|x l IH]; cbn [map]; intros Hnd Ha Hb Hs; [destruct Ha|].
  inversion Hnd as [|? ? Hnotin Hnd']; subst.
  destruct Ha as [Ha|Ha], Hb as [Hb|Hb].
  - congruence.
  - subst x. exfalso. apply Hnotin. rewrite Hs. apply in_map. exact Hb.
  - subst x. exfalso. apply Hnotin. rewrite <- Hs. apply in_map. exact Ha.
  - apply IH; assumption.
Qed.

(* a canonical name is looked up under the kind of the parameter that received it only *)
Lemma new_name_cix_kind ix k k0 m0 n :
  NoDup (map snd ix) ->
  new_name ix k0 m0 = Some n -> k <> k0 -> new_name (cix ix) k n = None.
Proof.
  intros Hnd H0 Hk. apply new_name_some_in in H0. destruct H0 as (e0 & Hin0 & Hk0 & _ & Hn).
  destruct (new_name (cix ix) k n) eqn:E; [|reflexivity]. exfalso.
  apply new_name_some_in in E. destruct E as (e & Hin & Hke & Hm & _).
  unfold cix in Hin. apply in_map_iff in Hin. destruct Hin as (e1 & He1 & Hin1). subst e.
  cbn [fst snd] in *. rewrite Hn in Hm. apply canon_name_inj in Hm.
  assert (e1 = e0) by (apply (nodup_snd_eq ix); assumption). subst e1. congruence.
Qed.

Lemma is_kind_rename_label k l o : is_kind k (rename_label l o) = is_kind k l.
Proof. destruct o; reflexivity. Qed.

Lemma no_qself_ren ix q : no_qself (ren ix q) = no_qself q.
Proof. unfold no_qself. apply is_kind_ren. Qed.

Lemma ren_long ix l a b c ks :
  is_kind "Lifetime" l || is_kind "PredLifetime" l = false ->
  ren ix (Node l (a :: b :: c :: ks)) = Node l (map (ren ix) (a :: b :: c :: ks)).
Proof.
  intro El. rewrite ren_eq, El. cbv zeta. cbn [map].
  destruct (is_kind "TPath" l || is_kind "EPath" l); [|reflexivity].
  destruct (ren ix b) as [lp [|[ls sargs] rest]]; reflexivity.
Qed.

Section Idem.
  Variable ix : list (pkind * string * nat).
  Hypothesis Hnd : NoDup (map snd ix).
  Let ix2 := cix ix.

  Definition fresh (t : term) : Prop :=
    forall k n, In (k, n) (kept ix t) -> forall e, In e ix -> n <> canon_name (snd e).

  Lemma fresh_kid l ks x : fresh (Node l ks) -> In x ks -> fresh x.
  Proof. intros H Hx k n Hin. apply (H k n). apply (kept_kid ix l ks x Hx). exact Hin. Qed.

  Lemma ren2_path_ident n :
    ren ix2 (mk_path_ident n) = mk_path_ident n.
  Proof.
    unfold mk_path_ident.
    rewrite (ren_of_kind ix2 "Path" (K "Path" "")) by reflexivity. cbn [map].
    rewrite (ren_of_kind ix2 "Seg" (K "Seg" n)) by reflexivity. cbn [map].
    rewrite (ren_of_kind ix2 "ANone" (K "ANone" "")) by reflexivity. reflexivity.
  Qed.

  Lemma ren2_onone : ren ix2 (Node (K "ONone" "") []) = Node (K "ONone" "") [].
  Proof. rewrite (ren_of_kind ix2 "ONone" (K "ONone" "")) by reflexivity. reflexivity. Qed.

  (* a renamed bare parameter is a fixed point, whatever its kind *)
  Lemma ren2_param k n :
    k = "TPath"%string \/ k = "EPath"%string ->
    ren ix2 (Node (K k "") [Node (K "ONone" "") []; mk_path_ident n]) =
    Node (K k "") [Node (K "ONone" "") []; mk_path_ident n].
  Proof.
    intro Hk. rewrite ren_eq. cbv zeta. cbn [map]. rewrite ren2_onone, ren2_path_ident.
    assert (El : is_kind "Lifetime" (K k "") || is_kind "PredLifetime" (K k "") = false)
      by (destruct Hk; subst k; reflexivity).
    assert (Ep : is_kind "TPath" (K k "") || is_kind "EPath" (K k "") = true)
      by (destruct Hk; subst k; reflexivity).
    rewrite El, Ep. unfold mk_path_ident.
    change (is_kind "Path" (K "Path" "") && is_kind "Seg" (K "Seg" n) &&
            no_qself (Node (K "ONone" "") [])) with true. cbv iota. cbn [ld K].
    destruct (new_name ix2 PTy n) as [n'|] eqn:E1.
    - apply new_name_cix_fix in E1. subst n'.
      destruct Hk; subst k; reflexivity.
    - rewrite first_seg_node. change (shaped (K "Path" "") (K "Seg" n)) with true. cbv iota.
      cbn [ld K]. change (String.eqb "" "" && true && is_kind "ANone" (K "ANone" "")) with true.
      cbv iota.
      destruct (new_name ix2 PCt n) as [n'|] eqn:E2; [|reflexivity].
      apply new_name_cix_fix in E2. subst n'. reflexivity.
  Qed.

  Lemma ren2_ty_param n : ren ix2 (mk_ty_param n) = mk_ty_param n.
  Proof. apply ren2_param. left. reflexivity. Qed.

  (* `<P>::rest`: the form a renamed `P::rest` takes *)
  Lemma ren2_qself_form k n R :
    k = "TPath"%string \/ k = "EPath"%string ->
    map (ren ix2) R = R ->
    ren ix2 (Node (K k "") [qself0 (mk_ty_param n); Node (K "Path" "::") R]) =
    Node (K k "") [qself0 (mk_ty_param n); Node (K "Path" "::") R].
  Proof.
    intros Hk HR.
    assert (El : is_kind "Lifetime" (K k "") || is_kind "PredLifetime" (K k "") = false)
      by (destruct Hk; subst k; reflexivity).
    assert (Hq : ren ix2 (qself0 (mk_ty_param n)) = qself0 (mk_ty_param n)).
    { unfold qself0. rewrite (ren_of_kind ix2 "OSome" (K "OSome" "")) by reflexivity. cbn [map].
      rewrite (ren_of_kind ix2 "QSelf" (K "QSelf" "0")) by reflexivity. cbn [map].
      rewrite ren2_ty_param. reflexivity. }
    rewrite (ren_path_none ix2 _ _ _ El) by (right; reflexivity).
    rewrite Hq. rewrite (ren_of_kind ix2 "Path" (K "Path" "::")) by reflexivity.
    rewrite HR. reflexivity.
  Qed.

  Lemma ren_idem_path l q p :
    is_kind "Lifetime" l || is_kind "PredLifetime" l = false ->
    is_kind "TPath" l || is_kind "EPath" l = true ->
    (fresh q -> ren ix2 (ren ix q) = ren ix q) ->
    (fresh p -> ren ix2 (ren ix p) = ren ix p) ->
    fresh (Node l [q; p]) ->
    ren ix2 (ren ix (Node l [q; p])) = ren ix (Node l [q; p]).
  Proof.
    intros El Ep IHq IHp Hu.
    assert (Hq : ren ix2 (ren ix q) = ren ix q).
    { apply IHq. apply (fresh_kid l [q; p]); [exact Hu|left; reflexivity]. }
    assert (Hp : ren ix2 (ren ix p) = ren ix p).
    { apply IHp. apply (fresh_kid l [q; p]); [exact Hu|right; left; reflexivity]. }
    destruct (no_qself q) eqn:Enq.
    2:{ rewrite (ren_path_none ix l q p El) by (right; exact Enq).
        rewrite (ren_path_none ix2 l _ _ El) by (right; rewrite no_qself_ren; exact Enq).
        rewrite Hq, Hp. reflexivity. }
    destruct (first_seg p) as [[n bare]|] eqn:Efs.
    2:{ rewrite (ren_path_none ix l q p El) by (left; apply first_seg_ren_none; exact Efs).
        rewrite (ren_path_none ix2 l _ _ El)
          by (left; apply first_seg_ren_none; apply first_seg_ren_none; exact Efs).
        rewrite Hq, Hp. reflexivity. }
    destruct p as [lp [|[ls sargs] rest]]; [discriminate|].
    rewrite first_seg_node in Efs.
    destruct (shaped lp ls) eqn:Esh; [|discriminate].
    inversion Efs as [[Hn Hbare]]. clear Efs.
    assert (Esh0 : shaped lp ls = true) by exact Esh.
    rewrite (ren_shaped ix lp ls _ _ Esh0) in Hp.
    pose proof Hp as Hp0.
    rewrite (ren_shaped ix2 lp ls _ _ Esh0) in Hp.
    inversion Hp as [[HS HR]]. clear Hp.
    rewrite (ren_eq ix l), El, Ep. cbv zeta. cbn [map].
    rewrite (ren_shaped ix lp ls _ _ Esh0).
    set (S := map (ren ix) sargs) in *. set (R := map (ren ix) rest) in *. set (Q := ren ix q) in *.
    assert (EQ : no_qself Q = true) by (unfold Q; rewrite no_qself_ren; exact Enq).
    unfold shaped in Esh. rewrite Esh, EQ. cbn [andb].
    assert (Hbare0 : first_seg (Node lp (Node ls S :: R)) = Some (ld ls, bare)).
    { rewrite first_seg_node, Esh0. f_equal. f_equal. rewrite <- Hbare. f_equal.
      - f_equal. unfold R. destruct rest; reflexivity.
      - unfold S. apply args_none_ren. }
    pose proof Hu as Hu0. unfold fresh in Hu0. rewrite kept_eq in Hu0. cbv zeta in Hu0.
    rewrite El, Ep, Enq in Hu0. rewrite first_seg_node, Esh0, Hbare in Hu0.
    assert (Hkept : forall k', In (PTy, ld ls) (kept ix (Node l [q; Node lp (Node ls sargs :: rest)])) ->
                               new_name ix2 k' (ld ls) = None).
    { intros k' Hin. apply new_name_cix_none. exact (Hu PTy (ld ls) Hin). }
    destruct (new_name ix PTy (ld ls)) as [n1|] eqn:E1.
    - (* a type parameter *)
      destruct R as [|r0 R'] eqn:ER.
      + destruct (is_kind "TPath" l); apply ren2_param; [left|right]; reflexivity.
      + apply ren2_qself_form; [destruct (is_kind "TPath" l); [left|right]; reflexivity|].
        exact HR.
    - rewrite Hbare0.
      assert (Hgeneric : new_name ix2 PTy (ld ls) = None ->
                         (bare = true -> new_name ix2 PCt (ld ls) = None) ->
                         ren ix2 (Node l [Q; Node lp (Node ls S :: R)]) = Node l [Q; Node lp (Node ls S :: R)]).
      { intros H1 H2. rewrite (ren_eq ix2 l), El, Ep. cbv zeta. cbn [map]. rewrite Hq, Hp0.
        rewrite Esh, EQ. cbn [andb]. rewrite H1, Hbare0.
        destruct bare; [|reflexivity]. rewrite (H2 eq_refl). reflexivity. }
      destruct bare.
      + destruct (new_name ix PCt (ld ls)) as [n2|] eqn:E2.
        * (* a const parameter *)
          assert (Hlp : String.eqb (ld lp) "" = true).
          { destruct (String.eqb (ld lp) ""); [reflexivity|discriminate Hbare]. }
          assert (H1 : new_name ix2 PTy n2 = None).
          { apply (new_name_cix_kind ix PTy PCt (ld ls) n2 Hnd E2). discriminate. }
          apply andb_true_iff in Esh. destruct Esh as [EP ES].
          rewrite (ren_eq ix2 l), El, Ep. cbv zeta. cbn [map]. rewrite Hq.
          rewrite (ren_of_kind ix2 "Path" lp _ EP) by reflexivity. cbn [map].
          rewrite (ren_of_kind ix2 "Seg" (K "Seg" n2)) by reflexivity. cbn [map].
          rewrite (ren_of_kind ix2 "ANone" (K "ANone" "")) by reflexivity. cbn [map].
          rewrite EP, EQ. change (is_kind "Seg" (K "Seg" n2)) with true. cbn [andb ld K].
          rewrite H1. rewrite first_seg_node. unfold shaped. rewrite EP.
          change (is_kind "Seg" (K "Seg" n2)) with true. cbn [andb ld K]. rewrite Hlp.
          change (true && true && is_kind "ANone" (K "ANone" "")) with true. cbv iota.
          destruct (new_name ix2 PCt n2) as [n'|] eqn:E3; [|reflexivity].
          apply new_name_cix_fix in E3. subst n'. reflexivity.
        * apply Hgeneric; [apply Hkept|intros _; apply Hkept];
            rewrite kept_eq; cbv zeta; rewrite El, Ep, Enq, first_seg_node, Esh0, Hbare, E1, E2;
            left; reflexivity.
      + apply Hgeneric; [apply Hkept|discriminate].
        rewrite kept_eq; cbv zeta; rewrite El, Ep, Enq, first_seg_node, Esh0, Hbare, E1.
        left; reflexivity.
  Qed.

  Lemma map_ren_idem l ks :
    Forall (fun x => fresh x -> ren ix2 (ren ix x) = ren ix x) ks ->
    fresh (Node l ks) ->
    map (ren ix2) (map (ren ix) ks) = map (ren ix) ks.
  Proof.
    intros IH Hu. rewrite map_map. apply map_ext_in. intros x Hx.
    rewrite Forall_forall in IH. apply IH; [exact Hx|]. apply (fresh_kid l ks); assumption.
  Qed.

  Theorem ren_idem t : fresh t -> ren ix2 (ren ix t) = ren ix t.
  Proof.
    induction t as [l ks IH] using term_ind'. intro Hu.
    pose proof (map_ren_idem l ks IH Hu) as Hmap.
    destruct (is_kind "Lifetime" l || is_kind "PredLifetime" l) eqn:El.
    { rewrite (ren_eq ix), El. cbv zeta.
      set (l' := rename_label l (new_name ix PLt (ld l))).
      assert (El' : is_kind "Lifetime" l' || is_kind "PredLifetime" l' = true)
        by (unfold l'; rewrite !is_kind_rename_label; exact El).
      rewrite (ren_eq ix2), El'. cbv zeta. rewrite Hmap.
      destruct (new_name ix2 PLt (ld l')) as [m|] eqn:E1; [|reflexivity].
      apply new_name_cix_fix in E1. subst m. cbn [rename_label]. rewrite label_eta. reflexivity. }
    destruct (is_kind "TPath" l || is_kind "EPath" l) eqn:Ep.
    { destruct ks as [|q [|p [|x ks]]].
      - rewrite (ren_eq ix), El, Ep. cbn [map]. rewrite (ren_eq ix2), El, Ep. reflexivity.
      - rewrite (ren_eq ix), El, Ep. cbv zeta. cbn [map] in *.
        rewrite (ren_eq ix2), El, Ep. cbv zeta. cbn [map].
        injection Hmap as Hq. rewrite Hq. reflexivity.
      - inversion IH as [|? ? IHq IH1]; subst. inversion IH1 as [|? ? IHp _]; subst.
        apply ren_idem_path; assumption.
      - rewrite (ren_long ix l q p x ks El). cbn [map]. rewrite (ren_long ix2 l _ _ _ _ El).
        f_equal. exact Hmap. }
    apply orb_false_iff in Ep. destruct Ep as [E1 E2].
    rewrite (ren_generic ix l _ El E1 E2), (ren_generic ix2 l _ El E1 E2), Hmap. reflexivity.
  Qed.

  Definition fresh_gp (gp : term) : Prop :=
    forall k n, In (k, n) (kept_gp ix gp) -> forall e, In e ix -> n <> canon_name (snd e).

  Lemma gp_decl_name l ks k n : gp_decl (Node l ks) = Some (k, n) -> n = ld l.
  Proof.
    unfold gp_decl. destruct (is_kind "GPLifetime" l); [intro H; inversion H; reflexivity|].
    destruct (is_kind "GPType" l); [intro H; inversion H; reflexivity|].
    destruct (is_kind "GPConst" l); [intro H; inversion H; reflexivity|discriminate].
  Qed.

  Lemma gp_decl_rename l ks ks' o :
    gp_decl (Node (rename_label l o) ks') =
    match gp_decl (Node l ks) with
    | Some (k, n) => Some (k, match o with Some n' => n' | None => n end)
    | None => None
    end.
  Proof.
    unfold gp_decl. rewrite !is_kind_rename_label.
    destruct (is_kind "GPLifetime" l); [destruct o; reflexivity|].
    destruct (is_kind "GPType" l); [destruct o; reflexivity|].
    destruct (is_kind "GPConst" l); [destruct o; reflexivity|reflexivity].
  Qed.

  Lemma ren_gp_idem gp : fresh_gp gp -> ren_gp ix2 (ren_gp ix gp) = ren_gp ix gp.
  Proof.
    intro Hu. destruct gp as [l ks].
    assert (Hks : map (ren ix2) (map (ren ix) ks) = map (ren ix) ks).
    { rewrite map_map. apply map_ext_in. intros x Hx. apply ren_idem.
      intros k n Hin. apply (Hu k n). unfold kept_gp. apply in_or_app. right.
      cbn [tkids]. apply in_flat_map. exists x. split; assumption. }
    unfold ren_gp at 2.
    destruct (gp_decl (Node l ks)) as [[k n]|] eqn:Eg.
    - destruct (new_name ix k n) as [n'|] eqn:Eo.
      + unfold ren_gp. rewrite (gp_decl_rename l ks _ (Some n')), Eg, Hks, ?Eo.
        destruct (new_name ix2 k n') as [m|] eqn:E1; [|reflexivity].
        apply new_name_cix_fix in E1. subst m. reflexivity.
      + unfold ren_gp. rewrite (gp_decl_rename l ks _ None), Eg, Hks, ?Eo.
        fold ix2. change ix2 with (cix ix). rewrite (new_name_cix_none ix k n); [reflexivity|].
        apply (Hu k n). unfold kept_gp. rewrite Eg, Eo. left. reflexivity.
    - unfold ren_gp. change (rename_label l None) with l.
      pose proof (gp_decl_rename l ks (map (ren ix) ks) None) as Hd. cbn [rename_label] in Hd.
      rewrite Hd, Eg, Hks. reflexivity.
  Qed.
End Idem.

(* ---- the block-level statements ---- *)
Definition fresh_block (b : term) : Prop :=
  let ix := indexed (index_block b) in
  forall k n, In (k, n) (kept_block b) -> forall e, In e ix -> n <> canon_name (snd e).

(* the resolver, run on a canonical block with the canonical index list, changes nothing *)
Theorem resolver_idempotent b :
  fresh_block b ->
  resolve_with (cix (indexed (index_block b))) (canon b) = canon b.
Proof.
  intro Hu.
  destruct b as [lb [|[lg gps] [|tr [|self [|wh [|items [|]]]]]]]; try reflexivity.
  unfold canon, fresh_block, kept_block in *.
  set (ix := indexed (index_block (Node lb [Node lg gps; tr; self; wh; items]))) in *.
  pose proof (index_block_injective (Node lb [Node lg gps; tr; self; wh; items])) as Hnd.
  fold ix in Hnd. cbv zeta in Hu. cbn [resolve_with].
  rewrite !(ren_idem ix Hnd).
  - f_equal. f_equal. f_equal. rewrite map_map. apply map_ext_in. intros gp Hgp.
    apply (ren_gp_idem ix Hnd). intros k n Hin. apply (Hu k n).
    apply in_or_app. left. apply in_flat_map. exists gp. split; assumption.
  - intros k n Hin. apply (Hu k n). repeat (apply in_or_app; right). exact Hin.
  - intros k n Hin. apply (Hu k n). do 3 (apply in_or_app; right). apply in_or_app. left. exact Hin.
  - intros k n Hin. apply (Hu k n). do 2 (apply in_or_app; right). apply in_or_app. left. exact Hin.
  - intros k n Hin. apply (Hu k n). apply in_or_app; right. apply in_or_app. left. exact Hin.
Qed.

(* canonicalising twice changes nothing, given that the indexer numbers the canonical block as
   it numbered the original one *)
Theorem canon_idempotent_if_numbering_stable b :
  fresh_block b ->
  indexed (index_block (canon b)) = cix (indexed (index_block b)) ->
  canon (canon b) = canon b.
Proof.
  intros Hu Hst. rewrite (canon_resolve_with (canon b)), Hst. apply resolver_idempotent. exact Hu.
Qed.

(* ---- the two hypotheses as booleans, evaluated by `check C13` on every generated block ---- *)
Definition fresh_blockb (b : term) : bool :=
  let ix := indexed (index_block b) in
  forallb (fun kn : pkind * string =>
             forallb (fun e : pkind * string * nat => negb (String.eqb (snd kn) (canon_name (snd e)))) ix)
          (kept_block b).

Definition entry_eqb (a b : pkind * string * nat) : bool :=
  pkind_eqb (fst (fst a)) (fst (fst b)) && String.eqb (snd (fst a)) (snd (fst b)) && Nat.eqb (snd a) (snd b).

Fixpoint entries_eqb (a b : list (pkind * string * nat)) : bool :=
  match a, b with
  | [], [] => true
  | x :: a', y :: b' => entry_eqb x y && entries_eqb a' b'
  | _, _ => false
  end.

Definition numbering_stableb (b : term) : bool :=
  entries_eqb (indexed (index_block (canon b))) (cix (indexed (index_block b))).

Lemma fresh_blockb_sound b : fresh_blockb b = true -> fresh_block b.
Proof.
  unfold fresh_blockb, fresh_block. cbv zeta. intros H k n Hin e He.
  rewrite forallb_forall in H. specialize (H (k, n) Hin). rewrite forallb_forall in H.
  specialize (H e He). cbn [snd] in H. apply negb_true_iff in H. apply String.eqb_neq in H. exact H.
Qed.

Lemma entry_eqb_eq a b : entry_eqb a b = true -> a = b.
Proof.
  destruct a as [[ka na] ia], b as [[kb nb] ib]. unfold entry_eqb. cbn [fst snd]. intro H.
  apply andb_true_iff in H. destruct H as [H Hi]. apply andb_true_iff in H. destruct H as [Hk Hn].
  apply pkind_eqb_eq in Hk. apply String.eqb_eq in Hn. apply Nat.eqb_eq in Hi. congruence.
Qed.

Lemma entries_eqb_eq a : forall b, entries_eqb a b = true -> a = b.
Proof.
  induction a as [|x a IH]; intros [|y b] H; cbn [entries_eqb] in H; try discriminate; [reflexivity|].
  apply andb_true_iff in H. destruct H as [H1 H2]. apply entry_eqb_eq in H1. apply IH in H2. congruence.
Qed.

Theorem canon_idempotent_checked b :
  fresh_blockb b = true -> numbering_stableb b = true -> canon (canon b) = canon b.
Proof.
  intros Hf Hs. apply canon_idempotent_if_numbering_stable.
  - apply fresh_blockb_sound. exact Hf.
  - apply entries_eqb_eq. exact Hs.
Qed.
