(* Validate.v -- validate.rs (after fix F7): per family, the first diagnostic the macro
   aborts with, or none.  Items are abstracted to (kind, name, visibility, number of generic
   parameters, has default); impls to (implements a trait? its last path segment, unsafe?,
   items).  No proofs here. *)
From Coq Require Import List String Ascii Bool Arith.
Import ListNotations.

Inductive ikind := IKConst | IKType | IKFn.
Definition ikind_eqb (a b : ikind) : bool :=
  match a, b with IKConst, IKConst | IKType, IKType | IKFn, IKFn => true | _, _ => false end.

Record item := { i_kind : ikind; i_name : string; i_vis : string; i_ngen : nat; i_default : bool }.
Record vimpl := { v_trait : option string; v_unsafe : bool; v_items : list item }.
Record vtrait := { t_name : string; t_unsafe : bool; t_items : list item }.

Inductive diag :=
| DoesntMatchTrait          (* "Doesn't match trait definition" *)
| ExpectedTraitImpl         (* "Expected trait impl, found inherent impl" *)
| MissingInImpl             (* "Missing in one of the impls" *)
| NotInTrait                (* "Not found in trait definition" *)
| ExpectedInherent          (* "Expected inherent impl but found trait" *)
| NotInOneOfImpls           (* "Not found in one of the impls" *)
| GenericsDontMatch         (* "Generics don't match between impls" *)
| VisibilityDoesntMatch.    (* "Visibility doesn't match between impls" (fix F7) *)

(* `second_consts/types/fns`: maps by identifier, a later item of the same kind and name
   overwrites an earlier one *)
Definition find_item (its : list item) (k : ikind) (n : string) : option item :=
  find (fun i => ikind_eqb (i_kind i) k && String.eqb (i_name i) n) (rev its).

Definition remove_item (its : list item) (k : ikind) (n : string) : list item :=
  filter (fun i => negb (ikind_eqb (i_kind i) k && String.eqb (i_name i) n)) its.

(* compare_trait_items *)
Fixpoint cmp_trait_items (titems : list item) (second : list item) : option diag :=
  match titems with
  | [] =>
      (* leftovers: consts, then types, then fns *)
      if existsb (fun i => ikind_eqb (i_kind i) IKConst) second then Some NotInTrait
      else if existsb (fun i => ikind_eqb (i_kind i) IKType) second then Some NotInTrait
      else if existsb (fun i => ikind_eqb (i_kind i) IKFn) second then Some NotInTrait
      else None
  | t :: rest =>
      match find_item second (i_kind t) (i_name t) with
      | Some s =>
          if ikind_eqb (i_kind t) IKConst && negb (Nat.eqb (i_ngen t) (i_ngen s))
          then Some DoesntMatchTrait
          else cmp_trait_items rest (remove_item second (i_kind t) (i_name t))
      | None =>
          if i_default t then cmp_trait_items rest second else Some MissingInImpl
      end
  end.

Fixpoint first_some {A} (l : list (option A)) : option A :=
  match l with
  | [] => None
  | Some x :: _ => Some x
  | None :: r => first_some r
  end.

(* validate_trait_impls *)
Definition validate_trait (t : vtrait) (impls : list vimpl) : option diag :=
  match first_some (map (fun i =>
          match v_trait i with
          | Some n => if negb (String.eqb (t_name t) n) then Some DoesntMatchTrait
                      else if negb (Bool.eqb (t_unsafe t) (v_unsafe i)) then Some DoesntMatchTrait
                      else None
          | None => Some ExpectedTraitImpl
          end) impls) with
  | Some d => Some d
  | None => first_some (map (fun i => cmp_trait_items (t_items t) (v_items i)) impls)
  end.

(* compare_inherent_items *)
Fixpoint cmp_inherent_items (first second : list item) : option diag :=
  match first with
  | [] => match second with [] => None | _ => Some NotInOneOfImpls end
  | f :: rest =>
      match find_item second (i_kind f) (i_name f) with
      | Some s =>
          if ikind_eqb (i_kind f) IKConst && negb (Nat.eqb (i_ngen f) (i_ngen s))
          then Some GenericsDontMatch
          else if negb (String.eqb (i_vis f) (i_vis s)) then Some VisibilityDoesntMatch
          else cmp_inherent_items rest (remove_item second (i_kind f) (i_name f))
      | None => Some NotInOneOfImpls
      end
  end.

(* validate_inherent_impls *)
Definition validate_inherent (impls : list vimpl) : option diag :=
  match first_some (map (fun i => match v_trait i with Some _ => Some ExpectedInherent | None => None end) impls) with
  | Some d => Some d
  | None =>
      match impls with
      | [] => None
      | f :: others => first_some (map (fun o => cmp_inherent_items (v_items f) (v_items o)) others)
      end
  end.

(* the generated inherent impl is a clone of the first member: every item takes the first
   member's visibility (main_trait.rs:110-115) *)
Definition generated_vis (impls : list vimpl) (k : ikind) (n : string) : option string :=
  match impls with
  | f :: _ => option_map i_vis (find_item (v_items f) k n)
  | [] => None
  end.
