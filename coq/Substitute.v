(* Substitute.v -- the `Substitute` impls (reverse substitution) and
   `Substitutions::substitute` (superset.rs:100-138), after fix F4.
   Generic rule: a Type/Expr node that is a value of the substitution is replaced by each
   parameter bound to it (whole-node look-up first); otherwise the node is rebuilt from the
   cartesian product of its children's results (last child varies fastest, as itertools'
   multi_cartesian_product / cartesian_product / iproduct! do).  No proofs here. *)
From Coq Require Import List String Bool.
Import ListNotations.
From DI Require Import Syntax Subs.

Definition rmap := list (value * list string).

Fixpoint rm_lookup (rm : rmap) (v : value) : option (list string) :=
  match rm with
  | [] => None
  | (w, ps) :: rm' => if value_eqb w v then Some ps else rm_lookup rm' v
  end.

Fixpoint rm_push (rm : rmap) (v : value) (p : string) : rmap :=
  match rm with
  | [] => [(v, [p])]
  | (w, ps) :: rm' => if value_eqb w v then (w, ps ++ [p]) :: rm' else (w, ps) :: rm_push rm' v p
  end.

(* superset.rs:113-119 *)
Definition reverse_map0 (s : subs) : rmap :=
  fold_left (fun acc pv => rm_push acc (snd pv) (fst pv)) s [].

(* fix F25: a parameter mapped to itself is also a candidate for the value that spells it:
   for (T => T, U => T) the type `T` can be replaced with `U` or with `T` *)
Definition self_param (v : value) : option string :=
  match v with VType t => ty_param t | VExpr e => ex_param e | VIdentity => None end.

Definition augment (s : subs) (e : value * list string) : value * list string :=
  match self_param (fst e) with
  | Some p => match lookup s p with
              | Some VIdentity => (fst e, snd e ++ [p])
              | _ => e
              end
  | None => e
  end.

Definition reverse_map (s : subs) : rmap := map (augment s) (reverse_map0 s).

Fixpoint cprod {A : Type} (xss : list (list A)) : list (list A) :=
  match xss with
  | [] => [[]]
  | xs :: rest => flat_map (fun x => map (cons x) (cprod rest)) xs
  end.

Definition replaced (mk : string -> term) (t : term) (found : option (list string))
           (descend : list term) : list term :=
  match found with
  | Some [] => [t]
  | Some ps => map mk ps
  | None => descend
  end.

Fixpoint subst (rm : rmap) (t : term) {struct t} : list term :=
  match t with
  | Node l ks =>
      let descend := map (Node l) (cprod (map (subst rm) ks)) in
      if is_type_kind l then
        replaced mk_ty_param (Node l ks) (rm_lookup rm (VType (Node l ks))) descend
      else if is_expr_kind l then
        replaced mk_ex_param (Node l ks) (rm_lookup rm (VExpr (Node l ks))) descend
      else descend
  end.

(* `Substitutions::substitute` on a key (bounded type, trait path): bounded outer,
   trait path inner. *)
Definition subst_key (s : subs) (bounded trait_ : term) : list (term * term) :=
  let rm := reverse_map s in
  flat_map (fun b => map (fun t => (b, t)) (subst rm trait_)) (subst rm bounded).

(* Is the key re-expressible: does no parameter of the specific header that carries a
   non-identity binding of [s] stay in place?  (Outside this class the result still
   mentions parameters of the specific header: finding F1.) *)
Definition is_some {A} (o : option A) : bool := match o with Some _ => true | None => false end.

Fixpoint stable (s : subs) (rm : rmap) (t : term) {struct t} : bool :=
  match t with
  | Node l ks =>
      if (is_type_kind l && is_some (rm_lookup rm (VType (Node l ks))))
         || (is_expr_kind l && is_some (rm_lookup rm (VExpr (Node l ks)))) then true
      else
        let here :=
          match ty_param (Node l ks) with
          | Some q => Some q
          | None => ex_param (Node l ks)
          end in
        match here with
        | Some q => match lookup s q with
                    | Some (VType _) | Some (VExpr _) => false
                    | _ => forallb (stable s rm) ks
                    end
        | None => forallb (stable s rm) ks
        end
  end.

Definition stable_key (s : subs) (bounded trait_ : term) : bool :=
  stable s (reverse_map s) bounded && stable s (reverse_map s) trait_.

(* well-formed substitutions, decidable: one entry per key, keys are parameters, Expr
   values are expressions (what `is_superset` builds on well-sorted input; the harness
   evaluates this on every substitution the implementation reports) *)
Fixpoint nodupb (l : list string) : bool :=
  match l with
  | [] => true
  | x :: r => negb (existsb (String.eqb x) r) && nodupb r
  end.

Definition wf_subsb (s : subs) : bool :=
  nodupb (map fst s) &&
  forallb (fun pv => is_param_ident (fst pv) &&
                     match snd pv with VExpr v => is_expr_kind (tlabel v) | _ => true end) s.

(* ---- the enumeration the re-expression is specified by (C10), stated without the reverse
   map: at a Type / Expr node that is the value of some parameter, the candidates are the
   parameters bound to that value, in the order of the substitution, followed by the
   identity-mapped parameter the node itself spells (if any); one result per choice at every
   replaced node, children combined by the cartesian product; other nodes are rebuilt ---- *)
Definition bound_to (s : subs) (v : value) : list string :=
  map fst (filter (fun pv => value_eqb (snd pv) v) s).

Definition spells_identity (s : subs) (v : value) : list string :=
  match self_param v with
  | Some p => match lookup s p with Some VIdentity => [p] | _ => [] end
  | None => []
  end.

Definition candidates (s : subs) (v : value) : list string :=
  match bound_to s v with
  | [] => []
  | ps => ps ++ spells_identity s v
  end.

Fixpoint subst_spec (s : subs) (t : term) {struct t} : list term :=
  match t with
  | Node l ks =>
      let descend := map (Node l) (cprod (map (subst_spec s) ks)) in
      if is_type_kind l then
        match candidates s (VType (Node l ks)) with
        | [] => descend
        | ps => map mk_ty_param ps
        end
      else if is_expr_kind l then
        match candidates s (VExpr (Node l ks)) with
        | [] => descend
        | ps => map mk_ex_param ps
        end
      else descend
  end.

Definition spec_key (s : subs) (bounded trait_ : term) : list (term * term) :=
  flat_map (fun b => map (fun t => (b, t)) (subst_spec s trait_)) (subst_spec s bounded).
