(* Param.v -- canonicalisation of a block's generic parameters (param.rs:34-148,173-389,
   after fix F22): the indexer numbers parameters by first occurrence in (trait path, self
   type, items), then transitively through the bounds of indexed parameters and the
   where-clause; the resolver renames every occurrence to `_ŠČ<k>`.
   A block is the hook's term  Impl [Generics [GP..]; Opt(trait); self; Where [Pred..]; Items].
   No proofs here. *)
From Coq Require Import List String Ascii Bool Arith.
Import ListNotations.
From DI Require Import Syntax.

Inductive pkind := PLt | PTy | PCt.
Definition pkind_eqb (a b : pkind) : bool :=
  match a, b with PLt, PLt | PTy, PTy | PCt, PCt => true | _, _ => false end.

Record pstate := {
  unindexed : list (pkind * string);
  indexed : list (pkind * string * nat);      (* in order of indexing *)
  counter : nat
}.

Definition is_unindexed (st : pstate) (k : pkind) (n : string) : bool :=
  existsb (fun e => pkind_eqb (fst e) k && String.eqb (snd e) n) (unindexed st).

(* `visit_*_param_ident`: index the name if it is still unindexed; reports success *)
Definition try_index (st : pstate) (k : pkind) (n : string) : pstate * bool :=
  if is_unindexed st k n then
    ({| unindexed := filter (fun e => negb (pkind_eqb (fst e) k && String.eqb (snd e) n)) (unindexed st);
        indexed := indexed st ++ [(k, n, counter st)];
        counter := S (counter st) |}, true)
  else (st, false).

Definition first_seg (p : term) : option (string * bool) :=
  (* identifier of the first segment, and whether the path is a bare identifier
     (`Path::get_ident`): no leading colon, one segment, no arguments *)
  match p with
  | Node lp (Node ls sargs :: rest) =>
      if is_kind "Path" lp && is_kind "Seg" ls then
        Some (ld ls,
              String.eqb (ld lp) "" && (match rest with [] => true | _ => false end) &&
              (match sargs with [Node la []] => is_kind "ANone" la | _ => false end))
      else None
  | _ => None
  end.

(* occurrences in visit order: for a type/expression path the qualified self type is visited
   first, then the path's own first segment is tested, then the path's arguments *)
Definition no_qself (q : term) : bool := is_kind "ONone" (tlabel q).

(* after fix F32 type and expression paths are read alike: after a qualified self the path names
   a trait or an associated item; otherwise the first segment may be a type parameter, and a
   bare name may be a const parameter *)
Fixpoint index_term (st : pstate) (t : term) {struct t} : pstate :=
  match t with
  | Node l ks =>
      if is_kind "Lifetime" l || is_kind "PredLifetime" l then
        fold_left index_term ks (fst (try_index st PLt (ld l)))
      else if is_kind "TPath" l || is_kind "EPath" l then
        match ks with
        | [q; p] =>
            let st1 := index_term st q in
            let st2 :=
              if no_qself q then
                match first_seg p with
                | Some (n, bare) =>
                    let (s, ok) := try_index st1 PTy n in
                    if ok then s else if bare then fst (try_index st1 PCt n) else st1
                | None => st1
                end
              else st1 in
            index_term st2 p
        | _ => fold_left index_term ks st
        end
      else fold_left index_term ks st
  end.

(* declared parameters of the generics list *)
Definition gp_decl (gp : term) : option (pkind * string) :=
  match gp with
  | Node l _ =>
      if is_kind "GPLifetime" l then Some (PLt, ld l)
      else if is_kind "GPType" l then Some (PTy, ld l)
      else if is_kind "GPConst" l then Some (PCt, ld l)
      else None
  end.

Definition declared (gps : list term) : list (pkind * string) :=
  flat_map (fun gp => match gp_decl gp with Some d => [d] | None => [] end) gps.

(* one round of `visit_indexed_params`: the bounds (type) of every indexed type (const)
   parameter in index order, then the whole where-clause *)
Definition visit_indexed (st : pstate) (gps preds : list term) : pstate :=
  let todo := filter (fun e => negb (pkind_eqb (fst (fst e)) PLt)) (indexed st) in
  let st0 := {| unindexed := unindexed st; indexed := indexed st; counter := counter st |} in
  let st1 :=
    fold_left (fun s e =>
                 match find (fun gp => match gp_decl gp with
                                       | Some (k, n) => pkind_eqb k (fst (fst e)) && String.eqb n (snd (fst e))
                                       | None => false
                                       end) gps with
                 | Some gp => fold_left index_term (tkids gp) s
                 | None => s
                 end) todo st0 in
  fold_left index_term preds st1.

Fixpoint index_loop (fuel : nat) (st : pstate) (gps preds : list term) : pstate :=
  match fuel with
  | O => st
  | S fuel' =>
      let st' := visit_indexed st gps preds in
      if Nat.eqb (List.length (unindexed st')) (List.length (unindexed st)) then st'
      else index_loop fuel' st' gps preds
  end.

Definition index_block (b : term) : pstate :=
  match b with
  | Node _ [Node _ gps; tr; self; Node _ preds; items] =>
      let st0 := {| unindexed := declared gps; indexed := []; counter := 0 |} in
      let st1 := index_term (index_term (index_term st0 tr) self) items in
      index_loop (S (List.length gps)) st1 gps preds
  | _ => {| unindexed := []; indexed := []; counter := 0 |}
  end.

(* ---- naming ---- *)
Fixpoint digits_of (fuel n : nat) (acc : string) : string :=
  match fuel with
  | O => acc
  | S fuel' =>
      let d := String (ascii_of_nat (48 + n mod 10)) acc in
      if Nat.ltb n 10 then d else digits_of fuel' (n / 10) d
  end.
Definition string_of_nat (n : nat) : string := digits_of (S n) n EmptyString.

(* `gen_indexed_param_ident` *)
Definition canon_name (k : nat) : string := (param_prefix ++ string_of_nat k)%string.

Definition new_name (ix : list (pkind * string * nat)) (k : pkind) (n : string) : option string :=
  match find (fun e => pkind_eqb (fst (fst e)) k && String.eqb (snd (fst e)) n) ix with
  | Some e => Some (canon_name (snd e))
  | None => None
  end.

(* ---- the resolver (NonPredicateParamResolver) ---- *)
Definition rename_label (l : label) (n : option string) : label :=
  match n with Some n' => K (lk l) n' | None => l end.

Definition qself0 (ty : term) : term :=
  Node (K "OSome" "") [Node (K "QSelf" "0") [ty]].

Fixpoint ren (ix : list (pkind * string * nat)) (t : term) {struct t} : term :=
  match t with
  | Node l ks =>
      let ks' := map (ren ix) ks in
      if is_kind "Lifetime" l || is_kind "PredLifetime" l then
        Node (rename_label l (new_name ix PLt (ld l))) ks'
      else if is_kind "TPath" l || is_kind "EPath" l then
        match ks' with
        | [q'; Node lp (Node ls sargs :: rest)] =>
            if is_kind "Path" lp && is_kind "Seg" ls && no_qself q' then
            match new_name ix PTy (ld ls) with
            | Some n =>
                match rest with
                | [] => if is_kind "TPath" l then mk_ty_param n else mk_ex_param n
                | _ => Node (K (if is_kind "TPath" l then "TPath" else "EPath") "")
                            [qself0 (mk_ty_param n); Node (K "Path" "::") rest]
                end
            | None =>
                match first_seg (Node lp (Node ls sargs :: rest)) with
                | Some (_, true) =>
                    match new_name ix PCt (ld ls) with
                    | Some n => Node l [q'; Node lp [Node (K "Seg" n) [Node (K "ANone" "") []]]]
                    | None => Node l ks'
                    end
                | _ => Node l ks'
                end
            end
            else Node l ks'
        | _ => Node l ks'
        end
      else Node l ks'
  end.

(* specification side: the occurrences the resolver leaves as written (names that are not
   parameters of the block, as far as the resolver is concerned) *)
Fixpoint kept (ix : list (pkind * string * nat)) (t : term) {struct t} : list (pkind * string) :=
  match t with
  | Node l ks =>
      let below := flat_map (kept ix) ks in
      if is_kind "Lifetime" l || is_kind "PredLifetime" l then
        match new_name ix PLt (ld l) with Some _ => below | None => (PLt, ld l) :: below end
      else if is_kind "TPath" l || is_kind "EPath" l then
        match ks with
        | [q; p] =>
            if no_qself q then
            match first_seg p with
            | Some (n, bare) =>
                match new_name ix PTy n with
                | Some _ => below
                | None =>
                    if bare then match new_name ix PCt n with Some _ => below | None => (PTy, n) :: below end
                    else (PTy, n) :: below
                end
            | None => below
            end
            else below
        | _ => below
        end
      else below
  end.

Definition ren_gp (ix : list (pkind * string * nat)) (gp : term) : term :=
  match gp with
  | Node l ks =>
      let n := match gp_decl gp with Some (k, n) => new_name ix k n | None => None end in
      Node (rename_label l n) (map (ren ix) ks)
  end.

Definition kept_gp (ix : list (pkind * string * nat)) (gp : term) : list (pkind * string) :=
  match gp_decl gp with
  | Some (k, n) => match new_name ix k n with Some _ => [] | None => [(k, n)] end
  | None => []
  end ++ flat_map (kept ix) (tkids gp).

(* every name of a block that canonicalisation leaves as written: parameters that are never
   indexed (they keep their names) and names that are not parameters *)
Definition kept_block (b : term) : list (pkind * string) :=
  let ix := indexed (index_block b) in
  match b with
  | Node _ [Node _ gps; tr; self; wh; items] =>
      flat_map (kept_gp ix) gps ++ kept ix tr ++ kept ix self ++ kept ix wh ++ kept ix items
  | _ => []
  end.

(* `resolve_non_predicate_params` *)
Definition canon (b : term) : term :=
  let ix := indexed (index_block b) in
  match b with
  | Node lb [Node lg gps; tr; self; wh; items] =>
      Node lb [Node lg (map (ren_gp ix) gps); ren ix tr; ren ix self; ren ix wh; ren ix items]
  | _ => b
  end.

(* ---- alpha-renaming of a block (specification used by the invariance theorems):
   lifetimes renamed by [rl], type/const parameter occurrences (first path segments) by [rt],
   declarations accordingly; nothing else is touched ---- *)
Section Alpha.
  Variables rl rt : string -> string.

  Definition rk (k : pkind) : string -> string := match k with PLt => rl | _ => rt end.

  Definition rename_first_seg (p : term) : term :=
    match p with
    | Node lp (Node ls sargs :: rest) =>
        if is_kind "Path" lp && is_kind "Seg" ls
        then Node lp (Node (K (lk ls) (rt (ld ls))) sargs :: rest) else p
    | _ => p
    end.

  Fixpoint alpha (t : term) {struct t} : term :=
    match t with
    | Node l ks =>
        let ks' := map alpha ks in
        if is_kind "Lifetime" l || is_kind "PredLifetime" l then Node (K (lk l) (rl (ld l))) ks'
        else if is_kind "TPath" l || is_kind "EPath" l then
          match ks' with
          | [q; p] => if no_qself q then Node l [q; rename_first_seg p] else Node l ks'
          | _ => Node l ks'
          end
        else Node l ks'
    end.

  Definition alpha_gp (gp : term) : term :=
    match gp with
    | Node l ks =>
        match gp_decl gp with
        | Some (k, n) => Node (K (lk l) (rk k n)) (map alpha ks)
        | None => Node l (map alpha ks)
        end
    end.

  Definition alpha_block (b : term) : term :=
    match b with
    | Node lb [Node lg gps; tr; self; Node lw preds; items] =>
        Node lb [Node lg (map alpha_gp gps); alpha tr; alpha self; Node lw (map alpha preds); alpha items]
    | _ => b
    end.

  Definition st_map (st : pstate) : pstate :=
    {| unindexed := map (fun e => (fst e, rk (fst e) (snd e))) (unindexed st);
       indexed := map (fun e => (fst (fst e), rk (fst (fst e)) (snd (fst e)), snd e)) (indexed st);
       counter := counter st |}.
End Alpha.
