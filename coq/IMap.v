(* IMap.v -- the abstraction of every hash table the macro uses (IndexMap / IndexSet with a
   per-process RandomState): insertion-ordered association list whose look-up compares keys
   only when their hashes agree, for an ARBITRARY hash function.  No proofs here. *)
From Coq Require Import List Bool Arith.
Import ListNotations.

Section IMap.
  Variables K V H : Type.
  Variable keq : K -> K -> bool.          (* the key type's Eq *)
  Variable heq : H -> H -> bool.          (* equality of hash values *)
  Variable hf : K -> H.                   (* the hasher: differs from process to process *)

  Definition imap := list (K * V).

  Definition get_h (m : imap) (k : K) : option V :=
    option_map snd (find (fun e => heq (hf (fst e)) (hf k) && keq (fst e) k) m).

  Definition get_plain (m : imap) (k : K) : option V :=
    option_map snd (find (fun e => keq (fst e) k) m).

  (* `insert`: overwrite in place (position kept) or append *)
  Fixpoint insert_h (m : imap) (k : K) (v : V) : imap :=
    match m with
    | [] => [(k, v)]
    | (k', v') :: r =>
        if heq (hf k') (hf k) && keq k' k then (k', v) :: r else (k', v') :: insert_h r k v
    end.

  Fixpoint insert_plain (m : imap) (k : K) (v : V) : imap :=
    match m with
    | [] => [(k, v)]
    | (k', v') :: r => if keq k' k then (k', v) :: r else (k', v') :: insert_plain r k v
    end.
End IMap.
