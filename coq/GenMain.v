(* GenMain.v -- main_trait.rs (header level, after fixes F6, F9, F10/F23, F21, F30): the main
   impl generated for a family -- the trait path and self type of the family's first block, the
   where-clause (the trait's own predicates and parameter bounds with the trait's parameters
   replaced by the block's arguments, omitted defaulted parameters by their defaults; one
   predicate per dispatched type listing the dispatch traits without bindings, `?Sized` where
   some block relaxed it; the relaxed signature parameters that are not dispatched on;
   `Self: Helper<lifetimes, key projections, other arguments>`), after the duplicate-`?Sized`
   pass, and the parameters of the first block that still occur.  Items are not modelled.
   Compared with the macro's own main impls (hook op `mainimpl`) by `check C16` / `C15` / `C17`.
   No proofs here. *)
From Coq Require Import List String Ascii Bool Arith.
Import ListNotations.
From DI Require Import Syntax Tokens Bounds Param Subs Superset Substitute Spec RustSem Group Search Gen.

Definition bare_name (t : term) : option string :=
  (* a type or expression path that is a single identifier without arguments *)
  match t with
  | Node l [Node lq []; Node lp [Node ls [Node la []]]] =>
      if (is_kind "TPath" l || is_kind "EPath" l) && is_kind "ONone" lq && label_eqb lp (K "Path" "") &&
         is_kind "Seg" ls && is_kind "ANone" la
      then Some (ld ls) else None
  | _ => None
  end.

Record maps := { lt_map : list (string * string); ty_map : list (string * term); ct_map : list (string * term) }.

Fixpoint sget {A} (m : list (string * A)) (k : string) : option A :=
  match m with
  | [] => None
  | (k', v) :: r => if String.eqb k' k then Some v else sget r k
  end.

Definition is_lit_or_block (e : term) : bool := is_kind "ELit" (tlabel e) || is_kind "EBlock" (tlabel e).

(* NonPredicateParamResolver with arbitrary replacements (main-trait parameter resolution) *)
Fixpoint resolve (m : maps) (t : term) {struct t} : term :=
  match t with
  | Node l ks =>
      let ks' := map (resolve m) ks in
      if is_kind "Lifetime" l || is_kind "PredLifetime" l then
        match sget (lt_map m) (ld l) with Some n => Node (K (lk l) n) ks' | None => Node l ks' end
      else if is_kind "GType" l then
        (* a const parameter standing as a generic argument and given a value that is no name *)
        match ks with
        | [c] =>
            match bare_name c with
            | Some x =>
                match sget (ty_map m) x, sget (ct_map m) x with
                | None, Some v =>
                    match bare_name v with
                    | Some _ => Node l ks'
                    | None => if is_lit_or_block v then Node (K "GConst" "") [v] else Node l ks'
                    end
                | _, _ => Node l ks'
                end
            | None => Node l ks'
            end
        | _ => Node l ks'
        end
      else if is_kind "TPath" l then
        match ks' with
        | [q'; Node lp (Node ls sargs :: rest)] =>
            if no_qself q' then        (* after a qualified self the path names a trait or an item (fix F32) *)
            match sget (ty_map m) (ld ls) with
            | Some ty =>
                match rest with
                | [] => ty
                | _ => Node (K "TPath" "") [Node (K "OSome" "") [Node (K "QSelf" "0") [ty]]; Node (K "Path" "::") rest]
                end
            | None =>
                match bare_name (Node l ks'), sget (ct_map m) (ld ls) with
                | Some _, Some v =>
                    match bare_name v with
                    | Some y => Node l [q'; Node lp [Node (K "Seg" y) sargs]]
                    | None => Node l ks'
                    end
                | _, _ => Node l ks'
                end
            end
            else Node l ks'
        | _ => Node l ks'
        end
      else if is_kind "EPath" l then
        match ks' with
        | [q'; Node lp (Node ls sargs :: rest)] =>
            if no_qself q' then
            match sget (ty_map m) (ld ls), rest with
            | Some ty, _ :: _ =>
                Node (K "EPath" "") [Node (K "OSome" "") [Node (K "QSelf" "0") [ty]]; Node (K "Path" "::") rest]
            | _, _ =>
            (* a const parameter is a value: only a bare name refers to it (fix F32) *)
            match bare_name (Node l ks'), sget (ct_map m) (ld ls) with
            | Some _, Some v =>
                match bare_name v with
                | Some y => Node l [q'; Node lp (Node (K "Seg" y) sargs :: rest)]
                | None => if is_lit_or_block v || is_kind "EParen" (tlabel v) then v
                          else Node (K "EParen" "") [v]
                end
            | _, _ => Node l ks'
            end
            end
            else Node l ks'
        | _ => Node l ks'
        end
      else Node l ks'
  end.

(* ---- parameter maps from the trait's parameters and the block's trait arguments ---- *)
Definition last_args (p : term) : list term :=
  match p with
  | Node _ segs =>
      match split_last segs with
      | Some (_, Node _ [Node la xs]) => if is_kind "AAngle" la then xs else []
      | _ => []
      end
  end.

Definition opt_kid (o : term) : option term :=
  match o with Node l [x] => if is_kind "OSome" l then Some x else None | _ => None end.

Fixpoint zip_params (tps args : list term) (m : maps) : option maps :=
  match tps, args with
  | _, [] => Some m
  | [], _ :: _ => None
  | tp :: tps', arg :: args' =>
      let n := ld (tlabel tp) in
      let m' :=
        if is_kind "GPLifetime" (tlabel tp) && is_kind "Lifetime" (tlabel arg) then
          Some {| lt_map := lt_map m ++ [(n, ld (tlabel arg))]; ty_map := ty_map m; ct_map := ct_map m |}
        else if is_kind "GPTypeD" (tlabel tp) && is_kind "GType" (tlabel arg) then
          match tkids arg with
          | [ty] => Some {| lt_map := lt_map m; ty_map := (n, ty) :: filter (fun e => negb (String.eqb (fst e) n)) (ty_map m); ct_map := ct_map m |}
          | _ => None
          end
        else if is_kind "GPConstD" (tlabel tp) && is_kind "GConst" (tlabel arg) then
          match tkids arg with
          | [e] => Some {| lt_map := lt_map m; ty_map := ty_map m; ct_map := (n, e) :: filter (fun e' => negb (String.eqb (fst e') n)) (ct_map m) |}
          | _ => None
          end
        else if is_kind "GPConstD" (tlabel tp) && is_kind "GType" (tlabel arg) then
          match tkids arg with
          | [ty] => match bare_name ty with
                    | Some x => Some {| lt_map := lt_map m; ty_map := ty_map m;
                                        ct_map := (n, mk_ex_param x) :: filter (fun e' => negb (String.eqb (fst e') n)) (ct_map m) |}
                    | None => None
                    end
          | _ => None
          end
        else None in
      match m' with Some m'' => zip_params tps' args' m'' | None => None end
  end.

Definition default_maps (omitted : list term) : maps :=
  {| lt_map := [];
     ty_map := flat_map (fun tp => if is_kind "GPTypeD" (tlabel tp) then
                                     match tkids tp with d :: _ => match opt_kid d with Some ty => [(ld (tlabel tp), ty)] | None => [] end | _ => [] end
                                   else []) omitted;
     ct_map := flat_map (fun tp => if is_kind "GPConstD" (tlabel tp) then
                                     match tkids tp with [_; d] => match opt_kid d with Some e => [(ld (tlabel tp), e)] | None => [] end | _ => [] end
                                   else []) omitted |}.

(* does the type mention a parameter of the impl (any identifier with the reserved prefix)? *)
Fixpoint mentions_param (t : term) {struct t} : bool :=
  match t with
  | Node l ks => is_param_ident (ld l) || existsb mentions_param ks
  end.

(* predicates the trait's parameters contribute (after fix F31): `'a: bounds`; `P: bounds` when P
   is given a bare parameter of the block; the bounds without `?Sized` when P is given a type
   built from parameters of the block; nothing when the type mentions no parameter (the compiler
   checks the bound itself) *)
Definition param_preds (m : maps) (tps : list term) : list term :=
  flat_map (fun tp =>
    let n := ld (tlabel tp) in
    if is_kind "GPLifetime" (tlabel tp) then [Node (K "PredLifetime" n) (tkids tp)]
    else if is_kind "GPTypeD" (tlabel tp) then
      let bounds := match tkids tp with _ :: bs => bs | [] => [] end in
      match sget (ty_map m) n with
      | Some ty =>
          if negb (mentions_param ty) then []
          else match ty_param ty with
               | Some _ => [Node (K "PredType" "") (mk_ty_param n :: bounds)]
               | None =>
                   let bs := filter (fun b => negb (is_kind "BTrait" (tlabel b) && negb (String.eqb (ld (tlabel b)) ""))) bounds in
                   match bs with [] => [] | _ => [Node (K "PredType" "") (mk_ty_param n :: bs)] end
               end
      | None => [Node (K "PredType" "") (mk_ty_param n :: bounds)]
      end
    else []) tps.

(* ---- the predicates of the dispatch keys ---- *)
Definition maybe_sized : term := Node (K "BTrait" "?") [Node (K "ONone" "") []; mk_path_ident "Sized"].
Definition plain_bound (tr : term) : term := Node (K "BTrait" "") [Node (K "ONone" "") []; strip_bindings tr].

Definition key_groups (ids : list (tbid * string)) : list (term * list term) :=
  fold_left (fun acc id =>
               let '((b, tr), _) := id in
               im_update term_eqb acc b []
                 (fun trs => if existsb (fun t => tb_eqb t tr) trs then trs else trs ++ [tr])) ids [].

(* does the type node occur in the term? *)
Fixpoint occurs_ty (x : term) (t : term) {struct t} : bool :=
  term_eqb x t || match t with Node _ ks => existsb (occurs_ty x) ks end.

Definition is_signature_param (first_blk u : term) : bool :=
  match first_blk with
  | Node _ [_; tr; self; _; _] =>
      (occurs_ty u tr || occurs_ty u self) && match bare_name u with Some _ => is_kind "TPath" (tlabel u) | None => false end
  | _ => false
  end.

Definition helper_bound (idx : nat) (first_blk : term) (ids : list (tbid * string)) : option term :=
  let projs := map (fun id => let '((b, tr), a) := id in projection_arg b tr a) ids in
  match first_blk with
  | Node _ [_; tr; self; _; _] =>
      let path :=
        match opt_kid tr with
        | Some p => Some p
        | None => match self with
                  | Node lt [_; Node lp segs] =>
                      match split_last segs with
                      | Some (init, Node ls [Node la _]) =>
                          if is_kind "TPath" lt && is_kind "AAngle" la
                          then Some (Node lp (init ++ [Node ls [Node la (inherent_args first_blk)]])) else None
                      | _ => None
                      end
                  | _ => None
                  end
        end in
      match path with
      | Some (Node _ segs) =>
          match split_last segs with
          | Some (_, Node ls _) =>
              let args := last_args (Node (K "Path" "") segs) in
              let lts := filter (fun x => is_kind "Lifetime" (tlabel x)) args in
              let others := filter (fun x => negb (is_kind "Lifetime" (tlabel x))) args in
              Some (Node (K "Path" "") [Node (K "Seg" (helper_ident (ld ls) idx)) [Node (K "AAngle" "") (lts ++ projs ++ others)]])
          | None => None
          end
      | None => None
      end
  | _ => None
  end.

Definition key_preds (idx : nat) (first_blk : term) (g : abg) : option (list term) :=
  let ids := abg_idents g in
  let dispatched (u : term) := existsb (fun id => term_eqb (fst (fst id)) u) ids in
  match helper_bound idx first_blk ids with
  | None => None
  | Some hb =>
      Some (map (fun bt => Node (K "PredType" "")
                             (fst bt :: (if existsb (term_eqb (fst bt)) (ab_unsized g) then [maybe_sized] else []) ++
                                        map plain_bound (snd bt)))
                (key_groups ids) ++
            flat_map (fun u => if negb (dispatched u) && is_signature_param first_blk u
                               then [Node (K "PredType" "") [u; maybe_sized]] else []) (ab_unsized g) ++
            [Node (K "PredType" "") [Node (K "TPath" "") [Node (K "ONone" "") []; mk_path_ident "Self"];
                                     Node (K "BTrait" "") [Node (K "ONone" "") []; hb]]])
  end.

(* remove_duplicate_maybe_sized *)
Definition is_maybe (b : term) : bool := is_kind "BTrait" (tlabel b) && negb (String.eqb (ld (tlabel b)) "").

Definition dedup_maybe (preds : list term) : list term :=
  let step (st : list term * list term) (pr : term) : list term * list term :=
    let '(unsized, out) := st in
    match pr with
    | Node l (bt :: bs) =>
        if is_kind "PredType" l then
          let is_unsized := existsb (term_eqb bt) unsized in
          let '(bs', first_left) :=
            fold_left (fun (acc : list term * bool) (b : term) =>
                         let '(kept, first) := acc in
                         if is_maybe b then (if first then kept ++ [b] else kept, false)
                         else (kept ++ [b], first)) bs ([], negb is_unsized) in
          (if negb is_unsized && negb first_left then unsized ++ [bt] else unsized,
           match bs' with [] => out | _ => out ++ [Node l (bt :: bs')] end)
        else (unsized, out ++ [pr])
    | _ => (unsized, out ++ [pr])
    end in
  snd (fold_left step preds ([], [])).

(* ---- which parameters of the first block still occur ---- *)
Fixpoint names_in (t : term) {struct t} : list string :=
  match t with
  | Node l ks =>
      (if is_kind "Lifetime" l || is_kind "PredLifetime" l then [ld l] else []) ++
      (if is_kind "TPath" l || is_kind "EPath" l then
         match ks with
         | [_; Node _ (Node ls _ :: _)] => [ld ls]
         | _ => []
         end
       else []) ++ flat_map names_in ks
  end.

Definition kept_params (first_blk : term) (used : list string) : list term :=
  match first_blk with
  | Node _ (Node _ gps :: _) =>
      flat_map (fun gp =>
        let n := ld (tlabel gp) in
        if existsb (String.eqb n) used then
          if is_kind "GPConst" (tlabel gp) then [gp] else [Node (tlabel gp) []]
        else []) gps
  | _ => []
  end.

Definition trait_unsafe (tdef : term) : bool :=
  (* data = "name;true|false" *)
  let fix after (s : string) : string :=
    match s with
    | EmptyString => EmptyString
    | String c r => if Ascii.eqb c ";"%char then r else after r
    end in
  String.eqb (after (ld (tlabel tdef))) "true".

Definition gen_main_impl (tdef : term) (idx : nat) (first_blk : term) (g : abg) : option term :=
  match first_blk with
  | Node lb [gen; tr; self; wh; items] =>
      let base_preds : option (list term) :=
        match opt_kid tr, tdef with
        | Some p, Node lt [Node _ tps; Node _ tpreds] =>
            if is_kind "Trait" lt then
              let args := last_args p in
              match zip_params tps args (default_maps (skipn (List.length args) tps)) with
              | Some m => Some (map (resolve m) (tpreds ++ param_preds m tps))
              | None => None
              end
            else None
        | None, _ => Some []
        | _, _ => None
        end in
      match base_preds, key_preds idx first_blk g with
      | Some bp, Some kp =>
          let preds := dedup_maybe (bp ++ kp) in
          let used := names_in tr ++ names_in self ++ flat_map names_in preds in
          let unsafety := (if opt_kid tr then (if trait_unsafe tdef then "unsafe" else "") else ld lb)%string in
          Some (Node (K "Impl" unsafety)
                  [Node (K "Generics" "") (kept_params first_blk used); tr; self;
                   Node (K "Where" "") preds; Node (K "Items" "") []])
      | _, _ => None
      end
  | _ => None
  end.

Definition before_semi (s : string) : string :=
  (fix go (s : string) : string :=
     match s with
     | EmptyString => EmptyString
     | String c r => if Ascii.eqb c ";"%char then EmptyString else String c (go r)
     end) s.

Definition after_semi (s : string) : string :=
  (fix go (s : string) : string :=
     match s with
     | EmptyString => EmptyString
     | String c r => if Ascii.eqb c ";"%char then r else go r
     end) s.

(* ---- the items of the main impl: every item forwards to the helper trait's item of the same
   name through `<Self as Helper<..>>::item` (ImplItemResolver); in trait mode the types and
   signatures are the trait's with its parameters replaced by the block's arguments
   (gen_dummy_impl_from_trait_definition), in inherent mode the first block's own ---- *)
Definition self_type : term := Node (K "TPath" "") [Node (K "ONone" "") []; mk_path_ident "Self"].
Definition fwd_kids (hb : term) (name : string) : list term :=
  [Node (K "OSome" "") [Node (K "QSelf" "1as") [self_type]];
   match hb with Node lp segs => Node lp (segs ++ [Node (K "Seg" name) [Node (K "ANone" "") []]]) end].
Definition fwd_expr (hb : term) (name : string) : term := Node (K "EPath" "") (fwd_kids hb name).
Definition fwd_type (hb : term) (name : string) : term := Node (K "TPath" "") (fwd_kids hb name).

Definition name_expr (n : string) : term := Node (K "EPath" "") [Node (K "ONone" "") []; mk_path_ident n].

Definition call_args (inputs : term) : list term :=
  map (fun a => if is_kind "Recv" (tlabel a) then name_expr "self" else name_expr (ld (tlabel a))) (tkids inputs).

Definition fwd_body (hb : term) (name : string) (inputs : term) : term :=
  Node (K "Block" "") [Node (K "ECall" "") (fwd_expr hb name :: call_args inputs)].

Definition item_name (d : string) : string := after_semi d.

Definition gen_main_items (tdef titems : term) (idx : nat) (first_blk : term) (g : abg) : option term :=
  match first_blk, helper_bound idx first_blk (abg_idents g) with
  | Node lb [gen; tr; self; wh; Node li items], Some hb =>
      match opt_kid tr, tdef with
      | Some p, Node lt [Node _ tps; _] =>
          if is_kind "Trait" lt then
            let args := last_args p in
            match zip_params tps args (default_maps (skipn (List.length args) tps)) with
            | Some m =>
                Some (Node (K "Items" "")
                  (map (fun ti =>
                          let n := ld (tlabel ti) in
                          let d := String ";" n in
                          if is_kind "TIConst" (tlabel ti) then
                            Node (K "IConst" d) (map (resolve m) (tkids ti) ++ [fwd_expr hb n])
                          else if is_kind "TIType" (tlabel ti) then
                            Node (K "IType" d) [fwd_type hb n]
                          else
                            Node (K "IFn" d) (map (resolve m) (tkids ti) ++
                                              [fwd_body hb n (nth 0 (tkids ti) (Node (K "List" "") []))]))
                       (tkids titems)))
            | None => None
            end
          else None
      | None, _ =>
          Some (Node (K "Items" "")
            (map (fun it =>
                    let n := item_name (ld (tlabel it)) in
                    if is_kind "IConst" (tlabel it) then
                      Node (tlabel it) (removelast (tkids it) ++ [fwd_expr hb n])
                    else if is_kind "IType" (tlabel it) then Node (tlabel it) [fwd_type hb n]
                    else
                      Node (tlabel it) (removelast (tkids it) ++
                                        [fwd_body hb n (nth 0 (tkids it) (Node (K "List" "") []))])) items))
      | _, _ => None
      end
  | _, _ => None
  end.

(* the items of the helper trait: the trait's own items (a clone of the definition); in inherent
   mode the signatures of the first block's items (gen_inherent_impl_items) *)
Definition gen_helper_items (titems : term) (first_blk : term) : option term :=
  match first_blk with
  | Node _ [_; tr; _; _; Node _ items] =>
      match opt_kid tr with
      | Some _ => Some titems
      | None =>
          Some (Node (K "TraitItems" "")
            (map (fun it =>
                    let n := item_name (ld (tlabel it)) in
                    if is_kind "IConst" (tlabel it) then Node (K "TIConst" n) (removelast (tkids it))
                    else if is_kind "IType" (tlabel it) then Node (K "TIType" n) []
                    else Node (K "TIFn" n) (removelast (tkids it))) items))
      end
  | _ => None
  end.

Definition gen_helper_items_render (titems : term) (blocks : list term) : option term :=
  match search (4 * List.length blocks + 8) blocks with
  | None => None
  | Some gm =>
      option_map (fun ms => Node (K "HelperItems" "") ms)
        (omap (fun e =>
                 match snd (snd e) with
                 | m0 :: _ => match nth_error blocks m0 with
                              | Some fb => gen_helper_items titems fb
                              | None => None
                              end
                 | [] => None
                 end) gm)
  end.

Definition gen_main_items_render (tdef titems : term) (blocks : list term) : option term :=
  match search (4 * List.length blocks + 8) blocks with
  | None => None
  | Some gm =>
      option_map (fun ms => Node (K "MainItems" "") ms)
        (omap (fun ie =>
                 let e := snd ie in
                 match snd (snd e) with
                 | m0 :: _ => match nth_error blocks m0 with
                              | Some fb => gen_main_items tdef titems (fst ie) fb (fst (snd e))
                              | None => None
                              end
                 | [] => None
                 end)
              (combine (seq 0 (List.length gm)) gm))
  end.

Definition gen_main_render (tdef : term) (blocks : list term) : option term :=
  match search (4 * List.length blocks + 8) blocks with
  | None => None
  | Some gm =>
      option_map (fun ms => Node (K "MainImpls" "") ms)
        (omap (fun ie =>
                 let e := snd ie in
                 match snd (snd e) with
                 | m0 :: _ => match nth_error blocks m0 with
                              | Some fb => gen_main_impl tdef (fst ie) fb (fst (snd e))
                              | None => None
                              end
                 | [] => None
                 end)
              (combine (seq 0 (List.length gm)) gm))
  end.

(* ---- helper_trait.rs (header level, after fixes F12, F29): the helper trait of a family ---- *)
Fixpoint insert_gp_by_name (gp : term) (sorted : list term) : list term :=
  match sorted with
  | [] => [gp]
  | x :: r => if String.leb (ld (tlabel x)) (ld (tlabel gp)) then x :: insert_gp_by_name gp r else gp :: x :: r
  end.
Definition sort_gps_by_name (gps : list term) : list term := fold_left (fun acc gp => insert_gp_by_name gp acc) gps [].

Definition gen_helper_trait (tdef : term) (idx : nat) (first_blk : term) (g : abg) : option term :=
  let nkeys := List.length (abg_idents g) in
  let base : option (list term * list term * string * string) :=
    match first_blk with
    | Node lb [Node _ gps; tr; self; _; _] =>
        match opt_kid tr, tdef with
        | Some _, Node lt [Node _ tps; Node _ tpreds] =>
            if is_kind "Trait" lt then Some (tps, tpreds, before_semi (ld lt), after_semi (ld lt)) else None
        | None, _ =>
            match self with
            | Node lty [_; Node _ segs] =>
                match split_last segs with
                | Some (_, Node ls _) =>
                    if is_kind "TPath" lty then
                      let bare := map (fun gp =>
                        let n := ld (tlabel gp) in
                        if is_kind "GPLifetime" (tlabel gp) then Node (K "GPLifetime" n) []
                        else if is_kind "GPConst" (tlabel gp) then Node (K "GPConstD" n) (tkids gp ++ [Node (K "ONone" "") []])
                        else Node (K "GPTypeD" n)
                               (Node (K "ONone" "") [] ::
                                (if existsb (term_eqb (mk_ty_param n)) (ab_unsized g) then [maybe_sized] else []))) gps in
                      let lts := filter (fun gp => is_kind "GPLifetime" (tlabel gp)) bare in
                      let others := filter (fun gp => negb (is_kind "GPLifetime" (tlabel gp))) bare in
                      Some (sort_gps_by_name lts ++ sort_gps_by_name others, [], ld ls,
                            if String.eqb (ld lb) "unsafe" then "true"%string else "false"%string)
                    else None
                | None => None
                end
            | _ => None
            end
        | _, _ => None
        end
    | _ => None
    end in
  match base with
  | Some (gps, preds, name, uns) =>
      let start := List.length gps in
      let keys := map (fun i => Node (K "GPTypeD" (Param.canon_name (start + i))) [Node (K "ONone" "") []; maybe_sized])
                      (seq 0 nkeys) in
      let lts := filter (fun gp => is_kind "GPLifetime" (tlabel gp)) gps in
      let others := filter (fun gp => negb (is_kind "GPLifetime" (tlabel gp))) gps in
      Some (Node (K "Trait" (helper_ident name idx ++ ";" ++ uns))
              [Node (K "Generics" "") (lts ++ keys ++ others); Node (K "Where" "") preds])
  | None => None
  end.

Definition gen_helper_traits_render (tdef : term) (blocks : list term) : option term :=
  match search (4 * List.length blocks + 8) blocks with
  | None => None
  | Some gm =>
      option_map (fun ms => Node (K "HelperTraits" "") ms)
        (omap (fun ie =>
                 let e := snd ie in
                 match snd (snd e) with
                 | m0 :: _ => match nth_error blocks m0 with
                              | Some fb => gen_helper_trait tdef (fst ie) fb (fst (snd e))
                              | None => None
                              end
                 | [] => None
                 end)
              (combine (seq 0 (List.length gm)) gm))
  end.
