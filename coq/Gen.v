(* Gen.v -- disjoint.rs (after fixes F24, F27): the helper impl generated for a member of a
   family = the user's canonical block with its trait path replaced by the helper trait, the
   row of payloads prepended to the trait arguments; an unbound cell is the projection
   `<bounded as Trait>::Assoc` of the key, mapped forward through the substitution between the
   family's header and the member's; in inherent mode the helper path is the self type's path
   with the group's parameters (lifetimes, then the others, each sorted) as arguments, mapped
   forward as well, and item visibilities are dropped.
   This is the assumption Dispatch.v makes ("the helper impl is the user's block verbatim plus
   the row"), as a function; compared with the macro's own helper impls by `check C01`.
   No proofs here. *)
From Coq Require Import List String Ascii Bool Arith.
Import ListNotations.
From DI Require Import Syntax Tokens Bounds Subs Superset Substitute Spec RustSem Group Search.

Definition helper_ident (name : string) (idx : nat) : string :=
  ("_" ++ name ++ show_nat idx)%string.

(* `<bounded as trait>::assoc` as a generic argument *)
Definition projection_arg (bounded tr : term) (assoc : string) : term :=
  match strip_bindings tr with
  | Node lp segs =>
      Node (K "GType" "")
        [Node (K "TPath" "")
           [Node (K "OSome" "") [Node (K "QSelf" (show_nat (List.length segs) ++ "as")) [bounded]];
            Node lp (segs ++ [Node (K "Seg" assoc) [Node (K "ANone" "") []]])]]
  end.

Definition fwd (s : option subs) (t : term) : term :=
  match s with Some s' => apply s' t | None => t end.

Definition row_args (s : option subs) (keys : list (tbid * string)) (row : list (option term)) : list term :=
  map (fun kc =>
         match snd kc with
         | Some payload => Node (K "GType" "") [payload]
         | None =>
             let '((bounded, tr), a) := fst kc in
             projection_arg (fwd s bounded) (fwd s (strip_bindings tr)) a
         end) (combine keys row).

(* keep only the last segment: new identifier, row prepended to its arguments *)
Definition helper_path (idx : nat) (row : list term) (p : term) : term :=
  match p with
  | Node lp segs =>
      match split_last segs with
      | Some (init, Node ls [args]) =>
          let args' :=
            match args with
            | Node la xs => if is_kind "AAngle" la then Node la (row ++ xs) else Node (K "AAngle" "") row
            end in
          (* the helper trait is named by its identifier alone, whatever path led to the main
             trait or the type (fix F33) *)
          Node (K "Path" "") [Node (K "Seg" (helper_ident (ld ls) idx)) [args']]
      | _ => p
      end
  end.

(* gen_inherent_self_ty_args: <lifetimes sorted, other parameters sorted> of the first member *)
Fixpoint insert_str (x : string) (sorted : list string) : list string :=
  match sorted with
  | [] => [x]
  | y :: r => if String.leb y x then y :: insert_str x r else x :: y :: r
  end.
Definition sort_strs (l : list string) : list string := fold_left (fun acc x => insert_str x acc) l [].

Definition inherent_args (first_blk : term) : list term :=
  match first_blk with
  | Node _ (Node _ gps :: _) =>
      let lts := flat_map (fun gp => if is_kind "GPLifetime" (tlabel gp) then [ld (tlabel gp)] else []) gps in
      let ps := flat_map (fun gp => if is_kind "GPLifetime" (tlabel gp) then [] else [ld (tlabel gp)]) gps in
      map (fun n => Node (K "Lifetime" n) []) (sort_strs lts) ++
      map (fun n => Node (K "GType" "") [mk_ty_param n]) (sort_strs ps)
  | _ => []
  end.

Definition strip_vis (item : term) : term :=
  match item with
  | Node l ks =>
      let fix after (s : string) : string :=
        match s with
        | EmptyString => EmptyString
        | String c r => if Ascii.eqb c ";"%char then s else after r
        end in
      Node (K (lk l) (after (ld l))) ks
  end.

Definition gen_helper_impl (idx : nat) (first_blk : term) (keys : list (tbid * string))
           (row : list (option term)) (blk : term) : option term :=
  match blk, first_blk with
  | Node lb [gen; tr; self; wh; Node li items], Node _ [_; _; first_self; _; _] =>
      let s := sup (gid_of first_blk) (gid_of blk) in
      let row' := row_args s keys row in
      match tr with
      | Node lo [p] =>
          if is_kind "OSome" lo then
            Some (Node lb [gen; Node lo [helper_path idx row' p]; self; wh; Node li items])
          else None
      | Node lo [] =>
          (* inherent mode *)
          match first_self with
          | Node lt [q; Node lp segs] =>
              match split_last segs with
              | Some (init, Node ls [Node la _]) =>
                  if is_kind "TPath" lt && is_kind "AAngle" la then
                    let p0 := Node lp (init ++ [Node ls [Node la (inherent_args first_blk)]]) in
                    Some (Node lb [gen; Node (K "OSome" "") [helper_path idx row' (fwd s p0)]; self; wh;
                                   Node li (map strip_vis items)])
                  else None
              | _ => None
              end
          | _ => None
          end
      | _ => None
      end
  | _, _ => None
  end.

(* all helper impls of a grouping, family by family, member by member *)
Definition gen_helper_impls (blocks : list term) (gm : gmap) : option (list (list term)) :=
  omap (fun ie =>
          let idx := fst ie in
          let e := snd ie in
          let g := fst (snd e) in
          let members := snd (snd e) in
          match members with
          | [] => Some []
          | m0 :: _ =>
              match nth_error blocks m0 with
              | None => None
              | Some first_blk =>
                  omap (fun mr => match nth_error blocks (fst mr) with
                                  | Some blk => gen_helper_impl idx first_blk (abg_idents g) (snd mr) blk
                                  | None => None
                                  end)
                       (combine members (abg_payloads g))
              end
          end)
       (combine (seq 0 (List.length gm)) gm).

Definition gen_render (blocks : list term) : option term :=
  match search (4 * List.length blocks + 8) blocks with
  | None => None
  | Some gm =>
      option_map (fun fams => Node (K "GenImpls" "") (map (fun f => Node (K "Family" "") f) fams))
                 (gen_helper_impls blocks gm)
  end.
