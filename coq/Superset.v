(* Superset.v -- the `Superset` impls of superset.rs and superset/{ty,path,generics,expr,
   stmt}.rs for the labels of the fragment, as ONE algorithm: a generic rule (equal label,
   equal arity, children matched left to right, results merged) plus the exceptions the
   code makes on purpose.  Models the tree AFTER the fix: commits F2, F3, F5, F18.
   No proofs here. *)
From Coq Require Import List String Bool.
Import ListNotations.
From DI Require Import Syntax Subs.

(* `syn::Lifetime` (superset.rs:220-230): '_ on either side matches anything. *)
Definition lifetime_ok (la lb : label) : bool :=
  String.eqb (ld la) "_" || String.eqb (ld lb) "_" || String.eqb (ld la) (ld lb).

(* commutative binary operators (expr.rs, fix F5) *)
Definition commutative_op (op : string) : bool :=
  existsb (String.eqb op) ["+"; "*"; "^"; "&"; "|"; "=="; "!="]%string.

(* ABI names of two `extern` bare fn types (ty.rs:165-177 after fix F3).
   children of Abi: [name : Opt(LitStr)] ; LitStr's data is the literal's repr. *)
Definition abi_name (abi : term) : option string :=
  match abi with
  | Node _ [Node lo [Node ls []]] => if is_kind "OSome" lo then Some (ld ls) else None
  | _ => None
  end.
Definition c_abi : string := """C"""%string.
Definition abi_names_ok (a b : term) : bool :=
  match abi_name a, abi_name b with
  | Some x, None => String.eqb x c_abi
  | None, Some y => String.eqb y c_abi
  | Some x, Some y => String.eqb x y
  | None, None => true
  end.
(* Opt(Abi) on both sides: Some/Some with compatible names, or None/None *)
Definition abi_shape (x : term) : bool :=
  match x with
  | Node la [Node ln []] => is_kind "Abi" la
  | Node la [Node ln [Node ls []]] => is_kind "Abi" la
  | _ => false
  end.
Definition abi_ok (a b : term) : bool :=
  match a, b with
  | Node la [x], Node lb [y] =>
      label_eqb la (K "OSome" "") && label_eqb lb (K "OSome" "") &&
      abi_shape x && abi_shape y && abi_names_ok x y
  | Node la [], Node lb [] => label_eqb la (K "ONone" "") && label_eqb lb (K "ONone" "")
  | _, _ => false
  end.

(* `zip(xs, ys).try_fold(acc, |acc, (x, y)| acc.merge(f(x, y)?))` after a length check *)
Definition kids_with (f : term -> term -> option subs)
  : subs -> list term -> list term -> option subs :=
  fix go (acc : subs) (xs ys : list term) {struct xs} : option subs :=
    match xs, ys with
    | [], [] => Some acc
    | x :: xs', y :: ys' =>
        match f x y with
        | Some s => match merge acc s with
                    | Some acc' => go acc' xs' ys'
                    | None => None
                    end
        | None => None
        end
    | _, _ => None
    end.

(* one pair of generic arguments (path.rs:170-190 after fix F2): a type parameter in
   argument position may bind a const argument *)
Definition garg_with (f : term -> term -> option subs) (x y : term) : option subs :=
  match x, y with
  | Node lx kx, Node ly ky =>
      if is_kind "GType" lx && is_kind "GConst" ly then
        match kx, ky with
        | [tx], [ey] =>
            match ty_param tx with
            | Some p => if label_eqb ly (K "GConst" "") && is_expr_kind (tlabel ey)
                        then Some (subs_ex p ey) else None
            | None => None
            end
        | _, _ => None
        end
      else f x y
  end.

Definition param_vs (mk : string -> term -> subs) (p : string) (other : option string)
           (b : term) : option subs :=
  match other with
  | Some q => if String.eqb p q then Some (subs_identity p) else Some (mk p b)
  | None => Some (mk p b)
  end.

(* One unfolding of the matcher on [Node la ka] against [Node lb kb].  [rec] is used on
   children of the left term only, [self] is "the same left term against a child of the
   right term" (needed to strip wrappers on the right). *)
Definition sup_step (rec : term -> term -> option subs) (self : term -> option subs)
           (la : label) (ka : list term) (lb : label) (kb : list term) : option subs :=
  let a := Node la ka in
  let b := Node lb kb in
  (* Type::Group / Type::Paren are transparent on either side (ty.rs:10-18) *)
  if is_ty_wrap la then
    match ka with [e] => rec e b | _ => None end
  else if is_type_kind la && is_ty_wrap lb then
    match kb with [e] => self e | _ => None end
  (* Expr::Group is transparent on either side (expr.rs:23-24) *)
  else if is_ex_group la then
    match ka with [e] => rec e b | _ => None end
  else if is_expr_kind la && is_ex_group lb then
    match kb with [e] => self e | _ => None end
  else
  (* a parameter binds anything; against itself it is the identity (ty.rs:20-29,
     expr.rs:39-48) *)
  match ty_param a with
  | Some p => param_vs subs_ty p (ty_param b) b
  | None =>
  match ex_param a with
  | Some p =>
      (* `other` is an `Expr` in the code; on an ill-sorted tree the model answers None *)
      if is_expr_kind lb then param_vs subs_ex p (ex_param b) b else None
  | None =>
  if is_kind "Lifetime" la then
    match ka, kb with
    | [], [] => if is_kind "Lifetime" lb && lifetime_ok la lb then Some [] else None
    | _, _ => None
    end
  else if is_kind "QSelf" la then
    (* path.rs:130-146: only under an all-identity result *)
    if label_eqb la lb then
      match kids_with rec [] ka kb with
      | Some s => if is_eq s then Some s else None
      | None => None
      end
    else None
  else if is_kind "Path" la then
    (* path.rs:3-52 (fix F18: leading colon compared) *)
    if label_eqb la lb && Nat.eqb (List.length ka) (List.length kb) then
      match path_param a, path_param b with
      | Some p, Some q => if String.eqb p q then Some (subs_identity p)
                          else kids_with rec [] ka kb
      | _, _ => kids_with rec [] ka kb
      end
    else None
  else if is_kind "AAngle" la then
    if label_eqb la lb then kids_with (garg_with rec) [] ka kb else None
  else if is_kind "TBareFn" la then
    (* ty.rs:156-189: [lifetimes; abi; inputs; output] *)
    if label_eqb la lb then
      match ka, kb with
      | [lt1; abi1; in1; out1], [lt2; abi2; in2; out2] =>
          if Nat.eqb (List.length (tkids in1)) (List.length (tkids in2)) && abi_ok abi1 abi2 then
            omerge (omerge (rec lt1 lt2) (rec in1 in2)) (rec out1 out2)
          else None
      | _, _ => None
      end
    else None
  else if is_kind "EBinary" la then
    (* expr.rs:359-374 after fix F5 *)
    if label_eqb la lb then
      match ka, kb with
      | [l1; r1], [l2; r2] =>
          match rec l1 l2 with
          | Some s => omerge (Some s) (rec r1 r2)
          | None =>
              if commutative_op (ld la)
              then omerge (rec l1 r2) (rec r1 l2)
              else None
          end
      | _, _ => None
      end
    else None
  else if is_kind "EMethodCall" la then
    (* expr.rs:963-983: [receiver; turbofish; args...], turbofish lenient *)
    if label_eqb la lb && Nat.eqb (List.length ka) (List.length kb) then
      match ka, kb with
      | rc1 :: tf1 :: args1, rc2 :: tf2 :: args2 =>
          let tf :=
            if is_kind "ONone" (tlabel tf1) || is_kind "ONone" (tlabel tf2)
            then Some [] else rec tf1 tf2 in
          omerge (omerge (rec rc1 rc2) tf) (kids_with rec [] args1 args2)
      | _, _ => None
      end
    else None
  else
    (* the generic rule *)
    if label_eqb la lb then kids_with rec [] ka kb else None
  end end.

(* [sup a b]: is [a] a superset of [b]?  Lexicographic structural recursion: the outer
   fixpoint on [a], the inner one on [b]. *)
Fixpoint sup (a : term) {struct a} : term -> option subs :=
  match a with
  | Node la ka =>
      fix sup_a (b : term) {struct b} : option subs :=
        match b with
        | Node lb kb => sup_step sup sup_a la ka lb kb
        end
  end.

(* `ImplGroupId::is_superset` (superset.rs:140-149) is the generic rule on
   GroupId [Opt(trait path); self type]. *)
Definition group_id_sup (a b : term) : option subs := sup a b.
