(* Group.v -- the grouping the macro forms (hook op `groups`) and the executable checker of
   the grouping invariants C11 states: partition, instance, shared keys, exact rows,
   distinguishable rows.  The family SEARCH (lib.rs:784-959) is not re-implemented here:
   its output is validated, per invocation, by [gi_check].  No proofs here. *)
From Coq Require Import List String Ascii Bool Arith.
Import ListNotations.
From DI Require Import Syntax Tokens Bounds Subs Superset Substitute Spec RustSem.

Record key := { k_bounded : term; k_trait : term; k_assoc : string }.
Record group := {
  g_id : term;                              (* GroupId [Opt trait path; self type] *)
  g_members : list nat;                     (* indices into the canonical blocks, input order *)
  g_keys : list key;
  g_rows : list (list (option term))        (* one row per member, one cell per key *)
}.

(* ---- reading the hook's term ---- *)
Definition digit (c : ascii) : option nat :=
  let n := nat_of_ascii c in
  if (48 <=? n) && (n <=? 57) then Some (n - 48) else None.

Fixpoint nat_of_string_acc (s : string) (acc : nat) : option nat :=
  match s with
  | EmptyString => Some acc
  | String c r => match digit c with Some d => nat_of_string_acc r (10 * acc + d) | None => None end
  end.
Definition nat_of_string (s : string) : option nat :=
  match s with EmptyString => None | _ => nat_of_string_acc s 0 end.

Fixpoint omap {A B} (f : A -> option B) (l : list A) : option (list B) :=
  match l with
  | [] => Some []
  | x :: r => match f x, omap f r with Some y, Some ys => Some (y :: ys) | _, _ => None end
  end.

Definition parse_cell (t : term) : option (option term) :=
  match t with
  | Node l [] => if is_kind "ONone" l then Some None else None
  | Node l [x] => if is_kind "OSome" l then Some (Some x) else None
  | _ => None
  end.

Definition parse_group (t : term) : option group :=
  match t with
  | Node _ [gid; Node _ ms; Node _ ks; Node _ rs; _] =>
      match omap (fun m => nat_of_string (ld (tlabel m))) ms,
            omap (fun k => match k with
                           | Node l [b; tr] => Some {| k_bounded := b; k_trait := tr; k_assoc := ld l |}
                           | _ => None
                           end) ks,
            omap (fun r => omap parse_cell (tkids r)) rs with
      | Some ms', Some ks', Some rs' =>
          Some {| g_id := gid; g_members := ms'; g_keys := ks'; g_rows := rs' |}
      | _, _, _ => None
      end
  | _ => None
  end.

Definition parse_groups (t : term) : option (list group) := omap parse_group (tkids t).

(* ---- the invariants ---- *)
Definition nilb {A} (l : list A) : bool := match l with [] => true | _ => false end.

Fixpoint all2b {A B} (f : A -> B -> bool) (xs : list A) (ys : list B) : bool :=
  match xs, ys with
  | [], [] => true
  | x :: xs', y :: ys' => f x y && all2b f xs' ys'
  | _, _ => false
  end.

Definition positive_bounds (blk : term) : list bound :=
  filter (fun b => negb (b_maybe b)) (block_bounds blk).

(* the bounds of a member that the key is a re-expression of *)
Definition bounds_for_key (theta : subs) (bs : list bound) (k : key) : list bound :=
  filter (fun b =>
            stable_key theta (b_ty b) (b_path b) &&
            existsb (fun kt => key_eqb kt (k_bounded k, k_trait k))
                    (subst_key theta (b_ty b) (b_path b))) bs.

Definition bindings_of (bs : list bound) (a : string) : list term :=
  flat_map (fun b => flat_map (fun av => if String.eqb (fst av) a then [snd av] else [])
                              (path_bindings (b_path b))) bs.

(* instance + shared keys + exact rows, for one member *)
Definition member_ok (blocks : list term) (g : group) (mi : nat) (row : list (option term)) : bool :=
  match nth_error blocks mi with
  | None => false
  | Some blk =>
      match sup (g_id g) (block_header blk) with
      | None => false
      | Some theta =>
          let bs := positive_bounds blk in
          all2b (fun k cell =>
                   let ms := bounds_for_key theta bs k in
                   negb (nilb ms) &&
                   match cell with
                   | Some x => existsb (term_eqb x) (bindings_of ms (k_assoc k))
                   | None => nilb (bindings_of ms (k_assoc k))
                   end) (g_keys g) row
      end
  end.

(* row r1 generalises r2 (lib.rs:342-368): position-wise superset, None as wildcard *)
Definition row_generalises (r1 r2 : list (option term)) : bool :=
  all2b (fun c1 c2 => match c1, c2 with
                      | None, _ => true
                      | Some x, Some y => is_some (sup x y)
                      | Some _, None => false
                      end) r1 r2.

Definition rows_distinct_from (r : list (option term)) (others : list (list (option term))) : bool :=
  forallb (fun o => negb (row_generalises r o) && negb (row_generalises o r)) others.

Fixpoint rows_distinct (rows : list (list (option term))) : bool :=
  match rows with
  | [] => true
  | r :: rest => rows_distinct_from r rest && rows_distinct rest
  end.

Definition group_ok (blocks : list term) (g : group) : bool :=
  negb (nilb (g_keys g)) && negb (nilb (g_members g)) &&
  all2b (member_ok blocks g) (g_members g) (g_rows g) &&
  rows_distinct (g_rows g).

Fixpoint natb_in (n : nat) (l : list nat) : bool :=
  match l with [] => false | m :: r => Nat.eqb n m || natb_in n r end.

Fixpoint nodup_nat (l : list nat) : bool :=
  match l with [] => true | n :: r => negb (natb_in n r) && nodup_nat r end.

(* every block (up to textual identity of canonical blocks, which the IndexMap merges)
   is a member of exactly one family *)
Definition first_index (blocks : list term) (b : term) : nat :=
  (fix go (l : list term) (i : nat) : nat :=
     match l with [] => i | x :: r => if term_eqb x b then i else go r (S i) end) blocks 0.

Definition partition_ok (blocks : list term) (gs : list group) : bool :=
  let members := flat_map g_members gs in
  nodup_nat members &&
  forallb (fun b => natb_in (first_index blocks b) members) blocks &&
  forallb (fun m => Nat.ltb m (List.length blocks)) members.

Definition gi_check (blocks : list term) (gs : list group) : bool :=
  partition_ok blocks gs && forallb (group_ok blocks) gs.

(* diagnostic: which check fails first (0 = all hold) *)
Definition gi_diagnose (blocks : list term) (gs : list group) : nat :=
  if negb (partition_ok blocks gs) then 1
  else if negb (forallb (fun g => negb (nilb (g_keys g)) && negb (nilb (g_members g))) gs) then 2
  else if negb (forallb (fun g => all2b (member_ok blocks g) (g_members g) (g_rows g)) gs) then 3
  else if negb (forallb (fun g => rows_distinct (g_rows g)) gs) then 4
  else 0.
