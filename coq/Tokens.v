(* Tokens.v -- `ToTokens` of the fragment as a list of token strings (multi-character
   punctuation is one token, a lifetime is one token 'a).  This is what `Tokenized`
   equality / hashing (lib.rs:57-87) and the hand-written `TraitBound` identity compare.
   Kinds outside the printable sub-fragment are reported by [tok_ok] = false (the harness
   skips them).  No proofs here. *)
From Coq Require Import List String Ascii Bool.
Import ListNotations.
From DI Require Import Syntax.

Definition sep_by {A} (sep : A) : list (list A) -> list A :=
  fix go (xss : list (list A)) : list A :=
    match xss with
    | [] => []
    | [xs] => xs
    | xs :: rest => xs ++ sep :: go rest
    end.

Definition atomic_expr (t : term) : bool :=
  existsb (fun k => is_kind k (tlabel t))
    ["ELit"; "EPath"; "EParen"; "ECall"; "ETuple"; "EArray"; "EIndex"; "EField"; "EMethodCall"]%string.

Definition is_lifetime_arg (t : term) : bool := is_kind "Lifetime" (tlabel t).

(* printable sub-fragment *)
Fixpoint tok_ok (t : term) {struct t} : bool :=
  match t with
  | Node l ks =>
      forallb tok_ok ks &&
      (if is_kind "TPath" l || is_kind "EPath" l then
         match ks with [q; _] => is_kind "ONone" (tlabel q) | _ => false end
       else if is_kind "EBinary" l then forallb atomic_expr ks
       else if is_kind "EUnary" l || is_kind "ECast" l || is_kind "EField" l || is_kind "EIndex" l then
         match ks with e :: _ => atomic_expr e | _ => false end
       else if is_kind "GAssocType" l then
         match ks with [g; _] => is_kind "ONone" (tlabel g) | _ => false end
       else if is_kind "BTrait" l then
         match ks with [lt; _] => is_kind "ONone" (tlabel lt) | _ => false end
       else if is_kind "TRef" l then true
       else
         existsb (fun k => is_kind k l)
           ["Path"; "Seg"; "ANone"; "AAngle"; "GType"; "GConst"; "Lifetime"; "ONone"; "OSome";
            "TPtr"; "TSlice"; "TArray"; "TTuple"; "TParen"; "TNever"; "TInfer"; "TTraitObject";
            "ELit"; "EParen"; "EBlock"; "Block"; "ECall"; "ETuple"; "ERef"]%string)
  end.

Definition brace_const (e : term) : bool :=
  (* print_const_argument: literal, single identifier path and block are printed bare *)
  negb (is_kind "ELit" (tlabel e) || is_kind "EBlock" (tlabel e) ||
        match e with
        | Node l [Node lq []; Node lp [Node ls [Node la []]]] =>
            is_kind "EPath" l && String.eqb (ld lp) "" && is_kind "ANone" la
        | _ => false
        end).

Fixpoint tokens (t : term) {struct t} : list string :=
  match t with
  | Node l ks =>
      let kts := map tokens ks in
      let cat := List.concat kts in
      if is_kind "Path" l then
        (if String.eqb (ld l) "" then [] else ["::"%string]) ++ sep_by "::"%string kts
      else if is_kind "Seg" l then ld l :: cat
      else if is_kind "AAngle" l then
        (* lifetimes first, then the rest, in order (syn path.rs:810-841) *)
        let pairs := combine ks kts in
        let lts := map snd (filter (fun p => is_lifetime_arg (fst p)) pairs) in
        let others := map snd (filter (fun p => negb (is_lifetime_arg (fst p))) pairs) in
        (if String.eqb (ld l) "" then [] else [ld l]) ++
        "<"%string :: sep_by ","%string (lts ++ others) ++ [">"%string]
      else if is_kind "Lifetime" l then [("'" ++ ld l)%string]
      else if is_kind "GConst" l then
        match ks with
        | [e] => if brace_const e then "{"%string :: cat ++ ["}"%string] else cat
        | _ => cat
        end
      else if is_kind "GAssocType" l then
        match kts with
        | [_; ty] => ld l :: "="%string :: ty
        | _ => cat
        end
      else if is_kind "TRef" l then
        match kts with
        | [lt; e] => "&"%string :: lt ++ (if String.eqb (ld l) "mut" then ["mut"%string] else []) ++ e
        | _ => cat
        end
      else if is_kind "TPtr" l then "*"%string :: ld l :: cat
      else if is_kind "TSlice" l then "["%string :: cat ++ ["]"%string]
      else if is_kind "TArray" l then
        match kts with
        | [e; n] => "["%string :: e ++ ";"%string :: n ++ ["]"%string]
        | _ => cat
        end
      else if is_kind "TTuple" l || is_kind "ETuple" l then
        "("%string :: sep_by ","%string kts ++
          (match ks with [_] => [","%string] | _ => [] end) ++ [")"%string]
      else if is_kind "TParen" l || is_kind "EParen" l then "("%string :: cat ++ [")"%string]
      else if is_kind "TNever" l then ["!"%string]
      else if is_kind "TInfer" l then ["_"%string]
      else if is_kind "TTraitObject" l then "dyn"%string :: sep_by "+"%string kts
      else if is_kind "BTrait" l then
        (if String.eqb (ld l) "" then [] else [ld l]) ++ cat
      else if is_kind "ELit" l then [ld l]
      else if is_kind "EBinary" l then
        match kts with
        | [a; b] => a ++ ld l :: b
        | _ => cat
        end
      else if is_kind "EUnary" l then ld l :: cat
      else if is_kind "ECast" l then
        match kts with
        | [e; ty] => e ++ "as"%string :: ty
        | _ => cat
        end
      else if is_kind "EBlock" l then cat
      else if is_kind "Block" l then "{"%string :: cat ++ ["}"%string]
      else if is_kind "ECall" l then
        match kts with
        | f :: args => f ++ "("%string :: sep_by ","%string args ++ [")"%string]
        | _ => cat
        end
      else if is_kind "EIndex" l then
        match kts with
        | [e; i] => e ++ "["%string :: i ++ ["]"%string]
        | _ => cat
        end
      else if is_kind "EField" l then cat ++ ["."%string; ld l]
      else if is_kind "ERef" l then
        "&"%string :: (if String.eqb (ld l) "mut" then ["mut"%string] else []) ++ cat
      else cat   (* TPath/EPath without qself, GType, ONone, OSome, ANone *)
  end.

Definition toks_eqb (a b : list string) : bool := all2_with String.eqb a b.
