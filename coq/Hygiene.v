(* Hygiene.v -- the final assembly of the expansion (lib.rs `disjoint_impls`, the `quote!`
   at the end) and the scoping rule it relies on: items of a block expression (the body of
   `const _: () = { .. };`) cannot be named from outside it.  No proofs here. *)
From Coq Require Import List String Bool.
Import ListNotations.

Definition tokens := list string.

(* #main_trait  const _: () = { #(#helper_traits)* #(#item_impls)* #(#main_trait_impls)* }; *)
Definition anon_const (helpers impls mains : list tokens) : tokens :=
  ["const"; "_"; ":"; "("; ")"; "="; "{"]%string ++ List.concat helpers ++ List.concat impls ++ List.concat mains ++ ["}"; ";"]%string.

Definition assemble (trait_tokens : tokens) (helpers impls mains : list tokens) : tokens :=
  trait_tokens ++ anon_const helpers impls mains.

(* module-level items: named items, and anonymous constants whose bodies hold items *)
Inductive mitem :=
| Named (name : string)
| AnonConst (body : list string).      (* names declared inside the block expression *)

(* the names an item list adds to its module's namespaces *)
Definition declared (items : list mitem) : list string :=
  flat_map (fun i => match i with Named n => [n] | AnonConst _ => [] end) items.

(* what one invocation emits: the user's trait (trait mode) and one anonymous const holding
   every generated helper *)
Definition expansion_items (trait_name : option string) (helper_names : list string) : list mitem :=
  (match trait_name with Some n => [Named n] | None => [] end) ++ [AnonConst helper_names].
