(* Syntax.v -- the model's view of the `syn` AST fragment: one sorted rose tree.
   No proofs here (model files stay executable when a proof breaks).

   A node is [Node l ks]; the label [l] carries the node kind and its atomic data
   (identifier bytes, mutability, operator, literal repr ...), [ks] are the syntactic
   children in syn's field order.  The signature table (kind <-> syn type <-> data <->
   children) is documented in DESIGN.md section 5.1 and implemented once more, on the Rust
   side, by the hook's serializer (src/superset/verif_hook.rs); the round trip
   "source text -> syn::parse -> serializer" is what the model is fed with. *)
From Coq Require Import List String Ascii Bool Arith.
Import ListNotations.

Record label := L { lk : string; ld : string }.

Inductive term := Node (l : label) (ks : list term).

Definition tlabel (t : term) : label := match t with Node l _ => l end.
Definition tkids (t : term) : list term := match t with Node _ ks => ks end.

(* kinds, as written by the serializer *)
Definition K (k : string) (d : string) : label := L k d.
Definition is_kind (k : string) (l : label) : bool := String.eqb (lk l) k.

Definition label_eqb (a b : label) : bool :=
  String.eqb (lk a) (lk b) && String.eqb (ld a) (ld b).

Definition all2_with {A : Type} (f : A -> A -> bool) : list A -> list A -> bool :=
  fix go (xs ys : list A) {struct xs} : bool :=
    match xs, ys with
    | [], [] => true
    | x :: xs', y :: ys' => f x y && go xs' ys'
    | _, _ => false
    end.

Fixpoint term_eqb (a b : term) {struct a} : bool :=
  match a, b with
  | Node la ka, Node lb kb => label_eqb la lb && all2_with term_eqb ka kb
  end.

Fixpoint tsize (t : term) : nat :=
  match t with
  | Node _ ks => S ((fix go (xs : list term) : nat :=
                       match xs with [] => 0 | x :: xs' => tsize x + go xs' end) ks)
  end.


(* The reserved parameter prefix "_ŠČ" = 5F C5 A0 C4 8C (UTF-8 bytes). *)
Definition param_prefix : string :=
  String "_" (String "197" (String "160" (String "196" (String "140" EmptyString)))).

Definition is_param_ident (s : string) : bool := String.prefix param_prefix s.

(* `matches_param_ident(path)`: the path has no leading colon, exactly one segment,
   no arguments, and the identifier starts with the reserved prefix
   (superset.rs:299-307, syn::Path::get_ident). *)
Definition path_param (p : term) : option string :=
  match p with
  | Node lp [Node ls [Node la []]] =>
      if label_eqb lp (K "Path" "") && is_kind "Seg" ls && label_eqb la (K "ANone" "") &&
         is_param_ident (ld ls)
      then Some (ld ls) else None
  | _ => None
  end.

(* a type that is a parameter: TPath [qself; path]; the code tests only the path
   (ty.rs:21); the model also requires qself = ONone: `<X>::_ŠČ0` is outside the fragment
   (rustc rejects it, E0223), see DESIGN 9/C09. *)
Definition ty_param (t : term) : option string :=
  match t with
  | Node l [Node lq []; p] =>
      if label_eqb l (K "TPath" "") && label_eqb lq (K "ONone" "") then path_param p else None
  | _ => None
  end.

Definition ex_param (t : term) : option string :=
  match t with
  | Node l [Node lq []; p] =>
      if label_eqb l (K "EPath" "") && label_eqb lq (K "ONone" "") then path_param p else None
  | _ => None
  end.

(* constructors used by the model when it has to build syntax *)
Definition mk_path_ident (s : string) : term :=
  Node (K "Path" "") [Node (K "Seg" s) [Node (K "ANone" "") []]].
Definition mk_ty_param (s : string) : term :=
  Node (K "TPath" "") [Node (K "ONone" "") []; mk_path_ident s].
Definition mk_ex_param (s : string) : term :=
  Node (K "EPath" "") [Node (K "ONone" "") []; mk_path_ident s].

(* sorts: which labels are syn::Type variants / syn::Expr variants *)
Definition is_type_kind (l : label) : bool :=
  match get 0 (lk l) with Some "T"%char => true | _ => false end.
Definition is_expr_kind (l : label) : bool :=
  match get 0 (lk l) with Some "E"%char => true | _ => false end.

(* transparent wrappers (DESIGN 9: the congruence [equiv]) *)
Definition is_ty_wrap (l : label) : bool := is_kind "TParen" l || is_kind "TGroup" l.
Definition is_ex_group (l : label) : bool := is_kind "EGroup" l.
Definition is_wrap (l : label) : bool := is_ty_wrap l || is_ex_group l.
