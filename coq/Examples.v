(* Examples.v -- concrete terms used by the non-vacuity Examples and witness lemmas.
   Readable constructors for the serializer's encoding (the same trees the hook emits). *)
From Coq Require Import List String Ascii Bool.
Import ListNotations.
From DI Require Import Syntax Subs.

Definition pid (n : string) : string := (param_prefix ++ n)%string.
Definition onone : term := Node (K "ONone" "") [].
Definition osome (t : term) : term := Node (K "OSome" "") [t].
Definition seg (name : string) (args : term) : term := Node (K "Seg" name) [args].
Definition anone : term := Node (K "ANone" "") [].
Definition aangle (args : list term) : term := Node (K "AAngle" "") args.
Definition gty (t : term) : term := Node (K "GType" "") [t].
Definition gconst (e : term) : term := Node (K "GConst" "") [e].
Definition gassoc (name : string) (t : term) : term := Node (K "GAssocType" name) [onone; t].
Definition path1 (name : string) (args : term) : term := Node (K "Path" "") [seg name args].
Definition tC0 (name : string) : term := Node (K "TPath" "") [onone; path1 name anone].
Definition tC (name : string) (args : list term) : term :=
  Node (K "TPath" "") [onone; path1 name (aangle args)].
Definition tP (n : string) : term := mk_ty_param (pid n).
Definition eP (n : string) : term := mk_ex_param (pid n).
Definition eC (name : string) : term := Node (K "EPath" "") [onone; path1 name anone].
Definition eLit (r : string) : term := Node (K "ELit" r) [].
Definition eBin (op : string) (l r : term) : term := Node (K "EBinary" op) [l; r].
Definition tTuple (ts : list term) : term := Node (K "TTuple" "") ts.
Definition tArray (t e : term) : term := Node (K "TArray" "") [t; e].
Definition tRef (lt : string) (t : term) : term :=
  Node (K "TRef" "") [osome (Node (K "Lifetime" lt) []); t].
Definition tParen (t : term) : term := Node (K "TParen" "") [t].
Definition groupid (tr : term) (self : term) : term := Node (K "GroupId" "") [osome tr; self].

(* (_ŠČ0, Vec<_ŠČ1>, &'a _ŠČ0)  and its instance  (Vec<u8>, Vec<_ŠČ1>, &'a Vec<u8>) *)
Definition ex_pat : term :=
  tTuple [tP "0"; tC "Vec" [gty (tP "1")]; tRef "a" (tP "0")].
Definition ex_inst : term :=
  tTuple [tC "Vec" [gty (tC0 "u8")]; tC "Vec" [gty (tP "1")]; tRef "a" (tC "Vec" [gty (tC0 "u8")])].
Definition ex_subs : subs :=
  [(pid "0", VType (tC "Vec" [gty (tC0 "u8")])); (pid "1", VIdentity)].

(* [u8; 1 + _ŠČ0]  vs  [u8; N + 1]  -- the residue F5c *)
Definition f5c_pat : term := tArray (tC0 "u8") (eBin "+" (eLit "1") (eP "0")).
Definition f5c_inst : term := tArray (tC0 "u8") (eBin "+" (eC "N") (eLit "1")).
