(* Spec.v -- specifications the model is proved against; the code has no counterpart of
   these (there is no forward substitution in /repo), so they are independent of it. *)
From Coq Require Import List String Bool.
Import ListNotations.
From DI Require Import Syntax Subs Superset.

Definition bound_term (s : subs) (p : string) (dflt : term) : term :=
  match lookup s p with Some (VType v) => v | Some (VExpr v) => v | _ => dflt end.

(* forward substitution: replace every parameter occurrence by its binding. A type
   parameter in generic-argument position that is bound to an expression turns the
   argument into a const argument (path.rs:173-179). *)
Definition apply_node (s : subs) (l : label) (ks ks' : list term) : term :=
  let t0 := Node l ks in
  match ty_param t0 with
  | Some p => bound_term s p t0
  | None =>
  match ex_param t0 with
  | Some p => bound_term s p t0
  | None =>
    if is_kind "GType" l then
      match ks with
      | [c] => match ty_param c with
               | Some p => match lookup s p with
                           | Some (VExpr v) => Node (K "GConst" "") [v]
                           | _ => Node l ks'
                           end
               | None => Node l ks'
               end
      | _ => Node l ks'
      end
    else Node l ks'
  end end.

Fixpoint apply (s : subs) (t : term) {struct t} : term :=
  match t with
  | Node l ks => apply_node s l ks (map (apply s) ks)
  end.

(* remove the transparent wrappers Type::Paren / Type::Group / Expr::Group everywhere *)
Fixpoint norm (t : term) {struct t} : term :=
  match t with
  | Node l ks =>
      if is_ty_wrap l || is_ex_group l then
        match ks with
        | [e] => norm e
        | _ => Node l (map norm ks)
        end
      else Node l (map norm ks)
  end.

(* parameters occurring in a term, in pre-order (with repetitions) *)
Fixpoint params (t : term) {struct t} : list string :=
  match t with
  | Node l ks =>
      match ty_param (Node l ks) with
      | Some p => [p]
      | None =>
      match ex_param (Node l ks) with
      | Some p => [p]
      | None => flat_map params ks
      end end
  end.

(* The congruence [equiv] of DESIGN section 9, as a boolean: syntactic equality up to the
   identifications the matcher makes on purpose --
   Type::Paren / Type::Group / Expr::Group are transparent; the lifetime '_ is compatible
   with every lifetime; `extern fn` = `extern "C" fn`; a method call's turbofish may be
   omitted on either side; operands of a commutative binary operator may be swapped
   (the residue F5c, see known_findings.json). *)
Definition is_nil (ks : list term) : bool := match ks with [] => true | _ => false end.

(* label-level identifications: '_ against any lifetime; ABI names `extern` = `extern "C"` *)
Definition equiv_special (la : label) (ka : list term) (lb : label) (kb : list term) : bool :=
  (is_kind "Lifetime" la && is_kind "Lifetime" lb && lifetime_ok la lb && is_nil ka && is_nil kb)
  || (is_kind "Abi" la && is_kind "Abi" lb && abi_names_ok (Node la ka) (Node lb kb)).

Definition equiv_step (rec : term -> term -> bool) (self : term -> bool)
           (la : label) (ka : list term) (lb : label) (kb : list term) : bool :=
  let rest :=
    if equiv_special la ka lb kb then true
    else if label_eqb la lb then
      if is_kind "EBinary" la && commutative_op (ld la) then
        match ka, kb with
        | [l1; r1], [l2; r2] =>
            (rec l1 l2 && rec r1 r2) || (rec l1 r2 && rec r1 l2)
        | _, _ => all2_with rec ka kb
        end
      else if is_kind "EMethodCall" la then
        match ka, kb with
        | rc1 :: tf1 :: args1, rc2 :: tf2 :: args2 =>
            rec rc1 rc2 &&
            (is_kind "ONone" (tlabel tf1) || is_kind "ONone" (tlabel tf2) || rec tf1 tf2) &&
            all2_with rec args1 args2
        | _, _ => all2_with rec ka kb
        end
      else all2_with rec ka kb
    else false in
  let right :=
    if is_wrap lb then
      match kb with
      | [e] => self e
      | _ => rest
      end
    else rest in
  if is_wrap la then
    match ka with
    | [e] => rec e (Node lb kb)
    | _ => right
    end
  else right.

Fixpoint equivb (a : term) {struct a} : term -> bool :=
  match a with
  | Node la ka =>
      fix eq_a (b : term) {struct b} : bool :=
        match b with
        | Node lb kb => equiv_step equivb eq_a la ka lb kb
        end
  end.

(* terms on which [equivb] is plain syntactic equality: none of the features above *)
Fixpoint plain (t : term) {struct t} : bool :=
  match t with
  | Node l ks =>
      negb (is_wrap l) &&
      negb (is_kind "Lifetime" l && String.eqb (ld l) "_") &&
      negb (is_kind "Abi" l) &&
      negb (is_kind "EBinary" l && commutative_op (ld l)) &&
      negb (is_kind "EMethodCall" l) &&
      forallb plain ks
  end.

(* does the term contain a commutative binary operator (class predicate of F5c)? *)
Fixpoint has_comm_binary (t : term) {struct t} : bool :=
  match t with
  | Node l ks =>
      (is_kind "EBinary" l && commutative_op (ld l)) || existsb has_comm_binary ks
  end.

(* ---- hypotheses of the completeness theorem (C09, converse direction), decidable ----
   [cwf theta a]: the pattern [a] and the substitution [theta] are in the class for which the
   matcher must find the instance:
   * theta is sort-respecting and normal on the parameters of [a]: a type (expression)
     parameter is unbound, bound to the identity, or bound to a type (expression) value that is
     neither a transparent wrapper at its root nor the parameter itself;
   * no parameter beneath a qualified self type (`<T as Tr>::A`) is moved by theta -- the
     exclusion the property states;
   * [a] contains no transparent wrappers, its lifetimes are leaves, bare fn / binary /
     method-call nodes have their syn shape, and a non-parameter path does not consist of a
     parameter-like identifier. *)
Definition self_bound (theta : subs) (p : string) : bool :=
  match lookup theta p with None | Some VIdentity => true | _ => false end.

Definition is_none {A} (o : option A) : bool := match o with None => true | Some _ => false end.

Fixpoint cwf (theta : subs) (t : term) {struct t} : bool :=
  match t with
  | Node l ks =>
      match ty_param (Node l ks) with
      | Some p =>
          match lookup theta p with
          | Some (VType v) => negb (is_wrap (tlabel v)) && negb (term_eqb v (mk_ty_param p))
          | Some (VExpr _) => false
          | _ => true
          end
      | None =>
      match ex_param (Node l ks) with
      | Some p =>
          match lookup theta p with
          | Some (VExpr v) => negb (is_wrap (tlabel v)) && negb (term_eqb v (mk_ex_param p)) &&
                            is_expr_kind (tlabel v)
          | Some (VType _) => false
          | _ => true
          end
      | None =>
          negb (is_wrap l) && forallb (cwf theta) ks &&
          (if is_kind "Lifetime" l then is_nil ks
           else if is_kind "QSelf" l then forallb (self_bound theta) (flat_map params ks)
           else if is_kind "Path" l then is_none (path_param (Node l ks))
           else if is_kind "TBareFn" l then
             match ks with
             | [lt; abi; ins; out] => abi_ok abi abi && is_kind "List" (tlabel ins)
             | _ => false
             end
           else if is_kind "EBinary" l then Nat.eqb (List.length ks) 2
           else if is_kind "EMethodCall" l then Nat.leb 2 (List.length ks)
           else true)
      end end
  end.

(* the value the matcher must report for parameter p *)
Definition value_of (theta : subs) (p : string) : value :=
  match lookup theta p with
  | Some (VType v) => VType v
  | Some (VExpr v) => VExpr v
  | _ => VIdentity
  end.

Definition agrees (s theta : subs) : Prop := forall p v, In (p, v) s -> v = value_of theta p.
