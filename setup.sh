#!/bin/bash
# Build the framework from files on disk only (offline): Coq development (full .vo),
# extracted model + OCaml driver, hook test binary.
set -e
cd /verif/coq
coq_makefile -f _CoqProject -o Makefile >/dev/null
timeout 3000 make -j16
cd /verif
python3 - <<'PY'
import sys
sys.path.insert(0, '/verif')
from harness import common as cm
print(cm.build_model())
print(cm.build_hook())
PY
