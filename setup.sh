#!/bin/bash
# Build the framework from files on disk only (offline): Coq development (full .vo),
# extracted model + OCaml driver, hook test binary.
set -e
cd "$(dirname "$(readlink -f "$0")")/coq"
coq_makefile -f _CoqProject -o Makefile >/dev/null
timeout 3000 make -j16
cd ..
python3 - <<'PY'
import sys
import os; sys.path.insert(0, os.getcwd())
from harness import common as cm
print(cm.build_model())
print(cm.build_hook())
PY
