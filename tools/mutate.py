#!/usr/bin/env python3
"""tools/mutate.py -- mutation campaign against the checks (not a registered command).

Generates first-order mutants of /repo/src (operator swaps on single lines), keeps those that
compile AND pass the repository's own test suite (the "realistic change the tests do not see"),
and runs all 17 quick checks against each survivor in a scratch worktree
(VERIF_MUT_REPO/CACHE/OUT point the harness at it; the proof gate is skipped because the Coq
development is untouched).  A survivor that no check flags is either equivalent or a gap of the
generators; the list is written to tools/mutants/report.json for a human to read.

usage: tools/mutate.py [--jobs 6] [--max 120] [--seed 1] [--files lib.rs,superset.rs]"""
import argparse, json, os, random, re, subprocess, sys, shutil, time
from concurrent.futures import ThreadPoolExecutor

ROOT = os.path.dirname(os.path.dirname(os.path.abspath(__file__)))
PROPS = ['C09', 'C10', 'C12', 'C13', 'C11', 'C14', 'C01', 'C02', 'C04', 'C03', 'C05', 'C06', 'C15', 'C16', 'C17', 'C07', 'C08']
FILES = ['lib.rs', 'superset.rs', 'param.rs', 'main_trait.rs', 'helper_trait.rs', 'disjoint.rs', 'validate.rs',
         'superset/ty.rs', 'superset/path.rs', 'superset/expr.rs', 'superset/generics.rs']

OPS = [
    (r'(?<![=!<>])==(?!=)', '!='), (r'!=', '=='), (r'&&', '||'), (r'\|\|(?!\s*\{)', '&&'),
    (r'\.is_some\(\)', '.is_none()'), (r'\.is_none\(\)', '.is_some()'),
    (r'\btrue\b', 'false'), (r'\bfalse\b', 'true'),
    (r'\.rev\(\)', ''), (r'>=', '>'), (r'<=', '<'),
    (r'\.all\(', '.any('), (r'\.any\(', '.all('),
    (r'\+ 1\b', '+ 0'), (r'- 1\b', '- 0'),
    (r'\.first\(\)', '.last()'), (r'\.last\(\)', '.first()'),
    (r'\.is_empty\(\)', '.is_empty() == false'),
    (r'\bcontinue;', 'break;'),
    (r'\.skip\(1\)', '.skip(0)'),
    (r'\.push\(', '.insert(0, '),
    (r'\.extend\(', '.clone_from(&'),   # usually does not compile: filtered out
    (r'\.filter\(\|', '.filter(|_| true).filter(|'),   # equivalent: sanity (must survive and be missed)
    # statement deletion: a whole one-line mutation statement is dropped
    (r'^\s*[A-Za-z_][\w\.]*\.(push|insert|extend|retain|sort|sort_by|sort_by_key|dedup)\(.*\);\s*$', ''),
    (r'^\s*\*?[A-Za-z_][\w\.]* [\+\-\|&]?= [^;]*;\s*$', ''),
    (r'\.chain\(', '.zip('),       # usually does not compile
    (r'\.skip\(', '.take('),
    (r'\.take\(', '.skip('),
]


def candidates(repo, files):
    out = []
    for f in files:
        p = os.path.join(repo, 'src', f)
        in_test = False
        for ln, line in enumerate(open(p), 1):
            st = line.strip()
            if st.startswith('#[cfg(test)]'):
                in_test = True
            if in_test or st.startswith('//') or st.startswith('#[') or 'unreachable!' in st or 'panic!' in st or 'assert' in st:
                continue
            code = line.split('//')[0]
            for oi, (pat, rep) in enumerate(OPS):
                for m in re.finditer(pat, code):
                    out.append(dict(file=f, line=ln, col=m.start(), op=oi, old=m.group(0), new=rep, text=st[:140]))
    return out


def sh(cmd, cwd=None, env=None, timeout=1800):
    return subprocess.run(cmd, shell=True, cwd=cwd, env=env, stdout=subprocess.PIPE, stderr=subprocess.STDOUT, text=True, timeout=timeout)


def run_mutant(slot, mut, base_env):
    wt = '/tmp/mut-%d' % slot
    p = os.path.join(wt, 'src', mut['file'])
    sh('git checkout -- .', cwd=wt)
    lines = open(p).read().split('\n')
    l = lines[mut['line'] - 1]
    lines[mut['line'] - 1] = l[:mut['col']] + mut['new'] + l[mut['col'] + len(mut['old']):]
    open(p, 'w').write('\n'.join(lines))
    env = dict(base_env, CARGO_NET_OFFLINE='true', CARGO_TARGET_DIR=os.path.join(wt, 'target'))
    res = dict(mut, status=None, caught_by=[])
    r = sh('cargo build --offline 2>&1 | tail -3', cwd=wt, env=env)
    if 'error' in r.stdout:
        res['status'] = 'does-not-compile'
        return res
    try:
        r = sh('cargo test --workspace --no-fail-fast --offline 2>&1 | grep -E "^test result|FAILED|^error" | sort | uniq -c', cwd=wt, env=env, timeout=900)
    except subprocess.TimeoutExpired:
        sh('pkill -f %s' % wt)
        res['status'] = 'killed-by-suite'      # the suite does not terminate
        return res
    if 'FAILED' in r.stdout or 'error' in r.stdout or 'failed;' in r.stdout and ' 0 failed' not in r.stdout:
        res['status'] = 'killed-by-suite'
        return res
    if re.search(r'[1-9]\d* failed', r.stdout):
        res['status'] = 'killed-by-suite'
        return res
    res['status'] = 'survives-suite'
    env2 = dict(env, VERIF_MUT_REPO=wt, VERIF_MUT_CACHE=os.path.join(wt, '.vcache'), VERIF_MUT_OUT=os.path.join(wt, '.vout'))
    env2.pop('CARGO_TARGET_DIR')
    for prop in PROPS:
        try:
            r = sh('./check %s 2>&1 | tail -1' % prop, cwd=ROOT, env=env2, timeout=1500)
        except subprocess.TimeoutExpired:
            res['caught_by'].append(prop + ':timeout')
            break
        last = r.stdout.strip().split('\n')[-1]
        if 'FAILED' in last:
            res['caught_by'].append(prop)
            if not mut.get('all'):
                break
        elif 'OK' not in last:
            res['caught_by'].append(prop + ':harness-error')
            break
    return res


def main():
    ap = argparse.ArgumentParser()
    ap.add_argument('--jobs', type=int, default=6)
    ap.add_argument('--max', type=int, default=120)
    ap.add_argument('--seed', type=int, default=1)
    ap.add_argument('--files', default=','.join(FILES))
    ap.add_argument('--out', default=os.path.join(ROOT, 'tools', 'mutants', 'report.json'))
    ap.add_argument('--retry', default=None, help='re-run the mutants of an earlier report that were missed or hit a harness error')
    args = ap.parse_args()
    files = args.files.split(',')
    cands = candidates(os.environ.get('VERIF_MUT_CAND', '/repo'), files)   # a clean checkout when /repo's working tree is in use
    rng = random.Random(args.seed)
    rng.shuffle(cands)
    # spread over files and operators
    seen, picked = {}, []
    for c in cands:
        k = (c['file'], c['line'])
        if k in seen:
            continue
        seen[k] = 1
        picked.append(c)
        if len(picked) >= args.max:
            break
    if args.retry:
        old = json.load(open(args.retry))
        picked = [dict((k, r[k]) for k in ('file', 'line', 'col', 'op', 'old', 'new', 'text')) for r in old
                  if r['status'] == 'survives-suite' and (not r['caught_by'] or any(':' in c for c in r['caught_by']))]
    print('%d candidate mutants, %d picked' % (len(cands), len(picked)), flush=True)
    os.makedirs(os.path.dirname(args.out), exist_ok=True)
    for s in range(args.jobs):
        wt = '/tmp/mut-%d' % s
        sh('git -C /repo worktree remove --force %s' % wt)
        r = sh('git -C /repo worktree add -q --detach %s HEAD' % wt)
        shutil.copy('/repo/Cargo.lock', wt)
    base_env = dict(os.environ)
    results = []
    import queue
    slots = queue.Queue()
    for s in range(args.jobs):
        slots.put(s)

    def work(m):
        s = slots.get()
        try:
            t0 = time.time()
            r = run_mutant(s, m, base_env)
            r['wall'] = round(time.time() - t0, 1)
            print('%-22s %-28s %s  [%s:%d %s -> %s]' % (r['status'], ','.join(r['caught_by']) or ('MISSED' if r['status'] == 'survives-suite' else '-'),
                                                       r['wall'], r['file'], r['line'], r['old'], r['new']), flush=True)
            return r
        finally:
            slots.put(s)
    with ThreadPoolExecutor(max_workers=args.jobs) as ex:
        results = list(ex.map(work, picked))
    json.dump(results, open(args.out, 'w'), indent=1)
    for s in range(args.jobs):
        sh('git -C /repo worktree remove --force /tmp/mut-%d' % s)
    surv = [r for r in results if r['status'] == 'survives-suite']
    print('survive the suite: %d; caught by a check: %d; missed: %d' % (len(surv), sum(1 for r in surv if r['caught_by']), sum(1 for r in surv if not r['caught_by'])))


main()
