(* driver.ml -- line-oriented evaluator for the extracted Coq model (model.ml).
   One request per line (fields separated by TAB), one response line per request.
   Terms travel as S-expressions  (Kind "data" child ...)  -- the same syntax the Rust
   hook writes.  This file contains I/O glue only: S-expression reader/printer and the
   OCaml-string <-> extracted-string conversion. *)

open Model

(* ---- string conversion ---- *)
let ascii_of_char (c : char) : ascii =
  let n = Char.code c in
  let b i = (n lsr i) land 1 = 1 in
  Ascii (b 0, b 1, b 2, b 3, b 4, b 5, b 6, b 7)

let char_of_ascii (a : ascii) : char =
  match a with
  | Ascii (b0, b1, b2, b3, b4, b5, b6, b7) ->
    let v b i = if b then 1 lsl i else 0 in
    Char.chr (v b0 0 + v b1 1 + v b2 2 + v b3 3 + v b4 4 + v b5 5 + v b6 6 + v b7 7)

let to_coq (s : String.t) : string =
  let rec go i acc = if i < 0 then acc else go (i - 1) (String (ascii_of_char s.[i], acc)) in
  go (String.length s - 1) EmptyString

let of_coq (s : string) : String.t =
  let b = Buffer.create 16 in
  let rec go = function
    | EmptyString -> ()
    | String (a, r) -> Buffer.add_char b (char_of_ascii a); go r in
  go s; Buffer.contents b

(* ---- S-expressions ---- *)
exception Parse_error of String.t

let parse_term (s : String.t) : term =
  let n = String.length s in
  let pos = ref 0 in
  let skip () = while !pos < n && s.[!pos] = ' ' do incr pos done in
  let rec term () =
    skip ();
    if !pos >= n || s.[!pos] <> '(' then raise (Parse_error ("expected ( at " ^ string_of_int !pos));
    incr pos;
    let start = !pos in
    while !pos < n && s.[!pos] <> ' ' && s.[!pos] <> ')' do incr pos done;
    let kind = String.sub s start (!pos - start) in
    skip ();
    if !pos >= n || s.[!pos] <> '"' then raise (Parse_error "expected data string");
    incr pos;
    let b = Buffer.create 16 in
    while !pos < n && s.[!pos] <> '"' do
      if s.[!pos] = '\\' then begin incr pos; Buffer.add_char b s.[!pos] end
      else Buffer.add_char b s.[!pos];
      incr pos
    done;
    incr pos;
    let kids = ref [] in
    skip ();
    while !pos < n && s.[!pos] = '(' do
      kids := term () :: !kids;
      skip ()
    done;
    if !pos >= n || s.[!pos] <> ')' then raise (Parse_error ("expected ) at " ^ string_of_int !pos));
    incr pos;
    Node ({ lk = to_coq kind; ld = to_coq (Buffer.contents b) }, List.rev !kids) in
  let t = term () in
  skip ();
  if !pos <> n then raise (Parse_error "trailing input");
  t

let esc (s : String.t) : String.t =
  let b = Buffer.create (String.length s + 2) in
  String.iter (fun c ->
    match c with
    | '"' -> Buffer.add_string b "\\\""
    | '\\' -> Buffer.add_string b "\\\\"
    | c -> Buffer.add_char b c) s;
  Buffer.contents b

let rec print_term (b : Buffer.t) (t : term) : unit =
  match t with
  | Node (l, ks) ->
    Buffer.add_char b '(';
    Buffer.add_string b (of_coq l.lk);
    Buffer.add_string b " \"";
    Buffer.add_string b (esc (of_coq l.ld));
    Buffer.add_char b '"';
    List.iter (fun k -> Buffer.add_char b ' '; print_term b k) ks;
    Buffer.add_char b ')'

let show_term t = let b = Buffer.create 256 in print_term b t; Buffer.contents b

let mk kind data kids = Node ({ lk = to_coq kind; ld = to_coq data }, kids)

(* substitutions <-> (Subs "" (Bind "p" value) ...) / (None "") *)
let term_of_subs (s : subs option) : term =
  match s with
  | None -> mk "None" "" []
  | Some s ->
    mk "Subs" ""
      (List.map (fun (p, v) ->
           Node ({ lk = to_coq "Bind"; ld = p },
                 [ (match v with VType t -> t | VExpr t -> t | VIdentity -> mk "Id" "" []) ])) s)

let subs_of_term (t : term) : subs option =
  match t with
  | Node (l, ks) when of_coq l.lk = "Subs" ->
    Some (List.map (fun k ->
        match k with
        | Node (lb, [ Node (lv, kv) ]) ->
          (lb.ld, if of_coq lv.lk = "Id" then VIdentity
                  else if (of_coq lv.lk).[0] = 'E' then VExpr (Node (lv, kv)) else VType (Node (lv, kv)))
        | _ -> raise (Parse_error "bad binding")) ks)
  | _ -> None

let show_keys (ks : (term * term) list) : String.t =
  show_term (mk "Keys" "" (List.map (fun (b, t) -> mk "Key" "" [ b; t ]) ks))

let bool_s b = if b then "true" else "false"

let respond (line : String.t) : String.t =
  match String.split_on_char '\t' line with
  | [ "sup"; a; b ] ->
    show_term (term_of_subs (sup (parse_term a) (parse_term b)))
  | [ "sound"; a; b; s ] ->
    (* the property oracle applied to a reported substitution:
       norm (apply s a) = norm b, and every parameter of a is bound *)
    (match subs_of_term (parse_term s) with
     | None -> "nosubs"
     | Some s ->
       let a = parse_term a and b = parse_term b in
       let r = apply s a in
       let exact = term_eqb (norm r) (norm b) in
       let equiv = equivb r b in
       let bound = List.for_all (fun p -> match lookup s p with Some _ -> true | None -> false) (params a) in
       (* hypotheses of the completeness theorem C09_complete at (s, a) with b = apply s a literally *)
       let hyp = cwf s a && term_eqb r b in
       String.concat "\t" [ bool_s exact; bool_s equiv; bool_s bound; bool_s (has_comm_binary a); bool_s hyp ])
  | [ "complete"; a; b; theta; res ] ->
    (* hypotheses of C09_complete at (theta, a) with b = apply theta a literally; and, for an
       answer of the implementation, its conclusion: every entry is theta's value *)
    (match subs_of_term (parse_term theta) with
     | None -> "nosubs"
     | Some th ->
       let a = parse_term a and b = parse_term b in
       let hyp = cwf th a && term_eqb (apply th a) b in
       let value_eq v w = match v, w with
         | VType x, VType y | VExpr x, VExpr y -> term_eqb x y
         | VIdentity, VIdentity -> true
         | _ -> false in
       let concl = match subs_of_term (parse_term res) with
         | None -> false
         | Some s ->
           List.for_all (fun (p, v) -> value_eq v (value_of th p) && List.mem p (params a)) s in
       bool_s hyp ^ "\t" ^ bool_s concl)
  | [ "apply"; s; a ] ->
    (match subs_of_term (parse_term s) with
     | None -> "nosubs"
     | Some s -> show_term (apply s (parse_term a)))
  | [ "norm"; a ] -> show_term (norm (parse_term a))
  | [ "subst"; s; bounded; trait_ ] ->
    (match subs_of_term (parse_term s) with
     | None -> "nosubs"
     | Some s -> show_keys (subst_key s (parse_term bounded) (parse_term trait_)))
  | [ "tb"; a; b ] ->
    let a = parse_term a and b = parse_term b in
    let strs l = show_term (mk "Strs" "" (List.map (fun x -> Node ({ lk = to_coq "S"; ld = x }, [])) l)) in
    String.concat "\t" [ bool_s (tok_ok a && tok_ok b); bool_s (tb_eqb a b);
                         strs (tb_hash_input a); strs (tb_hash_input b);
                         strs (tb_tokens a); strs (tb_tokens b) ]
  | [ "tokens"; a ] ->
    let a = parse_term a in
    let strs l = show_term (mk "Strs" "" (List.map (fun x -> Node ({ lk = to_coq "S"; ld = x }, [])) l)) in
    bool_s (tok_ok a) ^ "\t" ^ strs (tokens a)
  | [ "applicable"; blocks; world; queries ] ->
    (* blocks: (Blocks "" impl...), world: (World "" impl...), queries: (Queries "" gid...) *)
    let kids t = match t with Node (_, ks) -> ks in
    let blocks = kids (parse_term blocks) in
    let wimpl t =
      (match t with
       | Node (_, [ _; Node (_, [ tr ]); self; _; Node (_, items) ]) ->
         { wi_trait = trait_ref tr; wi_self = self;
           wi_assoc = List.filter_map (fun it ->
               match it with
               | Node (l, [ ty ]) when of_coq l.lk = "IType" ->
                 let d = of_coq l.ld in
                 let name = (match String.index_opt d ';' with Some i -> String.sub d (i + 1) (String.length d - i - 1) | None -> d) in
                 Some (to_coq name, ty)
               | _ -> None) items }
       | _ -> raise (Parse_error "bad world impl")) in
    let w = List.map wimpl (kids (parse_term world)) in
    let rec nat_to_int = function O -> 0 | S n -> 1 + nat_to_int n in
    String.concat ";" (List.map (fun q ->
        String.concat "," (List.map (fun n -> string_of_int (nat_to_int n)) (applicable w blocks q)))
        (kids (parse_term queries)))
  | [ "gi"; blocks; grouping ] ->
    let kids t = match t with Node (_, ks) -> ks in
    let rec nat_to_int = function O -> 0 | S n -> 1 + nat_to_int n in
    (match parse_groups (parse_term grouping) with
     | None -> "unparsed"
     | Some gs -> string_of_int (nat_to_int (gi_diagnose (kids (parse_term blocks)) gs)))
  | [ "search"; blocks ] ->
    (* the family search as a function of the canonical blocks, rendered like the hook's grouping *)
    let kids t = match t with Node (_, ks) -> ks in
    (match search_render (kids (parse_term blocks)) with
     | Some g -> show_term g
     | None -> "(NoGrouping \"\")")
  | [ "genimpls"; blocks ] ->
    let kids t = match t with Node (_, ks) -> ks in
    (match gen_render (kids (parse_term blocks)) with
     | Some g -> show_term g
     | None -> "(NoGen \"\")")
  | [ "mainimpl"; tdef; blocks ] ->
    let kids t = match t with Node (_, ks) -> ks in
    (match gen_main_render (parse_term tdef) (kids (parse_term blocks)) with
     | Some g -> show_term g
     | None -> "(NoGen \"\")")
  | [ "mainitems"; tdef; titems; blocks ] ->
    let kids t = match t with Node (_, ks) -> ks in
    (match gen_main_items_render (parse_term tdef) (parse_term titems) (kids (parse_term blocks)) with
     | Some g -> show_term g
     | None -> "(NoGen \"\")")
  | [ "helperitems"; _tdef; titems; blocks ] ->
    let kids t = match t with Node (_, ks) -> ks in
    (match gen_helper_items_render (parse_term titems) (kids (parse_term blocks)) with
     | Some g -> show_term g
     | None -> "(NoGen \"\")")
  | [ "helpertraits"; tdef; blocks ] ->
    let kids t = match t with Node (_, ks) -> ks in
    (match gen_helper_traits_render (parse_term tdef) (kids (parse_term blocks)) with
     | Some g -> show_term g
     | None -> "(NoGen \"\")")
  | [ "canon"; b ] -> show_term (canon (parse_term b))
  | [ "idem"; b ] ->
    (* the two decidable hypotheses of C13_idempotent_checked, and the conclusion evaluated *)
    let t = parse_term b in
    let c = canon t in
    Printf.sprintf "fresh=%b stable=%b idem=%b" (fresh_blockb t) (numbering_stableb t) (term_eqb (canon c) c)
  | [ "ren_by"; orig; canonical ] ->
    (* the resolver alone, driven by the position map read off the rewritten generics list *)
    let orig = parse_term orig and canonical = parse_term canonical in
    let gps t = (match t with Node (_, Node (_, gps) :: _) -> gps | _ -> []) in
    let decl gp = (match gp_decl gp with Some d -> Some d | None -> None) in
    let pfx = of_coq param_prefix in
    let rec int_to_nat n = if n <= 0 then O else S (int_to_nat (n - 1)) in
    let ix = List.concat (List.map2 (fun a b ->
        match decl a, decl b with
        | Some (k, n), Some (_, n') ->
          let s' = of_coq n' in
          let lp = String.length pfx in
          if String.length s' > lp && String.sub s' 0 lp = pfx then
            (match int_of_string_opt (String.sub s' lp (String.length s' - lp)) with
             | Some i -> [ ((k, n), int_to_nat i) ]
             | None -> [])
          else []
        | _ -> []) (gps orig) (gps canonical)) in
    (match orig with
     | Node (lb, [ Node (lg, g); tr; self; wh; items ]) ->
       show_term (Node (lb, [ Node (lg, List.map (ren_gp ix) g); ren ix tr; ren ix self; ren ix wh; ren ix items ]))
     | _ -> "badblock")
  | [ "validate"; items; groups ] ->
    (* items: (Items "" (Trait "name;unsafe" (TI ..)..) (VImpl "trait;unsafe" (II ..)..)..);
       groups: "0,1;2" = indices of the impls of each family, in family order *)
    let kids t = match t with Node (_, ks) -> ks in
    let fields t = String.split_on_char ';' (of_coq (match t with Node (l, _) -> l.ld)) in
    let rec int_to_nat n = if n <= 0 then O else S (int_to_nat (n - 1)) in
    let kind = function "const" -> IKConst | "type" -> IKType | _ -> IKFn in
    let titem t = (match fields t with
        | [ k; n; d; g ] -> { i_kind = kind k; i_name = to_coq n; i_vis = to_coq ""; i_ngen = int_to_nat (int_of_string g); i_default = (d = "true") }
        | _ -> raise (Parse_error "bad trait item")) in
    let iitem t = (match fields t with
        | [ k; n; v; g ] -> { i_kind = kind k; i_name = to_coq n; i_vis = to_coq v; i_ngen = int_to_nat (int_of_string g); i_default = false }
        | _ -> raise (Parse_error "bad impl item")) in
    let all = kids (parse_term items) in
    let tr = List.hd all and impls = List.tl all in
    let vimpl t = (match fields t with
        | [ n; u ] -> { v_trait = (if n = "-" then None else Some (to_coq n)); v_unsafe = (u = "true"); v_items = List.map iitem (kids t) }
        | _ -> raise (Parse_error "bad impl")) in
    let impls = Array.of_list (List.map vimpl impls) in
    let groups = List.map (fun g -> List.map (fun i -> impls.(int_of_string i)) (String.split_on_char ',' g)) (String.split_on_char '|' groups) in
    let name = function
      | DoesntMatchTrait -> "Doesn't match trait definition"
      | ExpectedTraitImpl -> "Expected trait impl, found inherent impl"
      | MissingInImpl -> "Missing in one of the impls"
      | NotInTrait -> "Not found in trait definition"
      | ExpectedInherent -> "Expected inherent impl but found trait"
      | NotInOneOfImpls -> "Not found in one of the impls"
      | GenericsDontMatch -> "Generics don't match between impls"
      | VisibilityDoesntMatch -> "Visibility doesn't match between impls" in
    let res = (match tr with
        | Node (l, tis) when of_coq l.lk = "Trait" ->
          (match fields tr with
           | [ n; u ] ->
             let t = { t_name = to_coq n; t_unsafe = (u = "true"); t_items = List.map titem tis } in
             List.map (fun g -> validate_trait t g) groups
           | _ -> raise (Parse_error "bad trait"))
        | _ -> List.map validate_inherent groups) in
    (match List.find_opt (fun d -> d <> None) res with
     | Some (Some d) -> name d
     | _ -> "ok")
  | [ "wf"; s ] ->
    (match subs_of_term (parse_term s) with
     | None -> "nosubs"
     | Some s -> bool_s (wf_subsb s))
  | [ "stable"; s; bounded; trait_ ] ->
    (match subs_of_term (parse_term s) with
     | None -> "nosubs"
     | Some s -> bool_s (stable_key s (parse_term bounded) (parse_term trait_)))
  | [ "applykey"; s; rb; rt ] ->
    (* forward substitution of a key: compared with the crate's Substitutions::apply *)
    (match subs_of_term (parse_term s) with
     | None -> "nosubs"
     | Some s -> show_term (mk "Key" "" [ apply s (parse_term rb); apply s (parse_term rt) ]))
  | [ "roundtrip"; s; bounded; trait_; rb; rt ] ->
    (match subs_of_term (parse_term s) with
     | None -> "nosubs"
     | Some s ->
       bool_s (term_eqb (apply s (parse_term rb)) (parse_term bounded)
               && term_eqb (apply s (parse_term rt)) (parse_term trait_)))
  | _ -> "badrequest"

let () =
  try
    while true do
      let line = input_line stdin in
      let out = try respond line with
        | Parse_error m -> "parse_error " ^ m
        | Stack_overflow -> "stack_overflow" in
      print_string out; print_char '\n'
    done
  with End_of_file -> ()
