// Bodies outside the hook's term language, decided by compiling and running: a loop label is
// spelled like a lifetime parameter of the impl (`'a: loop { .. break 'a v }`); label and uses
// must be renamed together or not at all (seed C13i: the declaration kept its spelling, the uses
// were renamed: E0426).
use disjoint_impls::disjoint_impls;
pub trait D { type G; }
pub enum GA {} pub enum GB {}
pub struct X0; pub struct X1;
impl D for X0 { type G = GA; }
impl D for X1 { type G = GB; }
disjoint_impls! {
    pub trait K<'x> { fn first(xs: &'x [u8]) -> Option<&'x u8>; fn count(n: u8) -> u8; }
    impl<'a, T: D<G = GA>> K<'a> for T {
        fn first(xs: &'a [u8]) -> Option<&'a u8> {
            let mut it = xs.iter();
            'a: loop {
                match it.next() {
                    Some(x) if *x > 1 => break 'a Some(x),
                    Some(_) => continue 'a,
                    None => break 'a None,
                }
            }
        }
        fn count(n: u8) -> u8 {
            let mut k = 0;
            'a: for i in 0..n { 'b: for j in 0..n { if j > i { continue 'a; } if i + j > 6 { break 'a; } k += 1; if false { break 'b; } } }
            k
        }
    }
    impl<'b, U: D<G = GB>> K<'b> for U {
        fn first(xs: &'b [u8]) -> Option<&'b u8> {
            let mut i = 0;
            'b: while i < xs.len() { if xs[i] == 0 { i += 1; continue 'b; } break 'b; }
            xs.get(i)
        }
        fn count(n: u8) -> u8 { n }
    }
}
fn main() {
    static XS: [u8; 4] = [0, 1, 5, 7];
    assert_eq!(<X0 as K>::first(&XS), Some(&5));
    assert_eq!(<X1 as K>::first(&XS), Some(&1));
    assert_eq!(<X0 as K>::count(4), 10);
    assert_eq!(<X1 as K>::count(4), 4);
}
