use disjoint_impls::disjoint_impls;
pub trait D { type G; }
pub enum A {} pub enum B {}
pub struct X; pub struct Y;
impl D for X { type G = B; }
impl D for Vec<X> { type G = A; }
disjoint_impls! {
    pub trait K { const NAME: &'static str; }
    impl<T: D<G = A>, U> K for (T, U) { const NAME: &'static str = "block1"; }
    impl<T: D<G = B>, U> K for (Vec<T>, U) { const NAME: &'static str = "block2"; }
}
fn main() { println!("{}", <(Vec<X>, Y) as K>::NAME); }
