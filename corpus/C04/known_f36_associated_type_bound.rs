// known finding F36 (C04): an associated type bound `T: Tr<Assoc: Dispatch<Group = GroupA>>` is read as a
// bound of `T` itself (the binding lands in the column of `T: Dispatch`), so the two blocks look
// distinguished although `X` satisfies both; the invocation compiles and picks "two" silently.
use disjoint_impls::disjoint_impls;

pub trait Dispatch { type Group; }
pub trait Tr { type Assoc; }
pub enum GroupA {}
pub enum GroupB {}

pub struct P; pub struct X;
impl Dispatch for P { type Group = GroupA; }
impl Dispatch for X { type Group = GroupB; }
impl Tr for X { type Assoc = P; }

disjoint_impls! {
    pub trait Kita { const NAME: &'static str; }

    impl<T: Tr<Assoc: Dispatch<Group = GroupA>>> Kita for T {
        const NAME: &'static str = "one";
    }
    impl<T: Dispatch<Group = GroupB>> Kita for T {
        const NAME: &'static str = "two";
    }
}

fn main() {
    println!("{}", <X as Kita>::NAME);
}
