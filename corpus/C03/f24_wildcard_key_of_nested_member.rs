use disjoint_impls::disjoint_impls;
pub trait D2 { type G; type H; }
pub enum GA {} pub enum GB {} pub enum GC {}
pub struct X0; pub struct X1;
impl D2 for X0 { type G = GA; type H = GA; }
impl D2 for X1 { type G = GC; type H = GA; }
disjoint_impls! {
    pub trait K { const NAME: &'static str; }
    impl<T, U: D2<G = GA>> K for (T, U) { const NAME: &'static str = "a"; }
    impl<T, U: D2<G = GB, H = GA>> K for (T, U) { const NAME: &'static str = "b"; }
    impl<T: D2<G = GC>> K for (X0, T) { const NAME: &'static str = "c"; }
}
fn main() { assert_eq!(<(X0, X1) as K>::NAME, "c"); assert_eq!(<(X1, X0) as K>::NAME, "a"); }
