use disjoint_impls::disjoint_impls;
pub trait D { type G; }
pub enum GA {} pub enum GB {}
pub struct X0; pub struct X1;
impl D for X0 { type G = GA; }
impl D for X1 { type G = GB; }
disjoint_impls! {
    pub trait K { const NAME: &'static str; }
    impl<T: D<G = GA>, const N: usize> K for [T; N] { const NAME: &'static str = "a"; }
    impl<T: D<G = GB>, const N: usize> K for [T; N] { const NAME: &'static str = "b"; }
}
fn main() { println!("{} {}", <[X0; 2] as K>::NAME, <[X1; 3] as K>::NAME); }
