// known finding F39 (C03): a dispatch key on a projection `<T as Tr>::Assoc: Dispatch<Group = ..>`:
// the main impl names `<_ŠČ0 as Tr>::Assoc` but drops `_ŠČ0: Tr` (a bound without binding is not a
// key), so the expansion fails with E0277 (`_ŠČ0: Tr` is not satisfied).
use disjoint_impls::disjoint_impls;
pub trait Dispatch { type Group; }
pub trait Tr { type Assoc; }
pub enum GroupA {} pub enum GroupB {}
pub struct P; pub struct Q; pub struct X; pub struct Y;
impl Dispatch for P { type Group = GroupA; }
impl Dispatch for Q { type Group = GroupB; }
impl Tr for X { type Assoc = P; }
impl Tr for Y { type Assoc = Q; }

disjoint_impls! {
    pub trait Kita { const NAME: &'static str; }
    impl<T: Tr> Kita for T where <T as Tr>::Assoc: Dispatch<Group = GroupA> { const NAME: &'static str = "one"; }
    impl<T: Tr> Kita for T where <T as Tr>::Assoc: Dispatch<Group = GroupB> { const NAME: &'static str = "two"; }
}
fn main() { assert_eq!((<X as Kita>::NAME, <Y as Kita>::NAME), ("one", "two")); }
