// F25 (fixed): (T, U) keyed on T, and the nested header (U, U) keyed on U.  Over the general
// header, `U: D<..>` of the nested block is `T: D<..>` (T => T is the identity, U => T), so the
// block belongs to the general family.  The re-expression used to offer only `U: D`.
use disjoint_impls::disjoint_impls;
pub trait D { type G; }
pub enum GA {} pub enum GB {} pub enum GC {}
pub struct X0; pub struct X1; pub struct X2;
impl D for X0 { type G = GA; }
impl D for X1 { type G = GB; }
impl D for X2 { type G = GC; }
disjoint_impls! {
    pub trait K { const NAME: &'static str; }
    impl<T, T0> K for (T0, T) where T0: D<G = GA> { const NAME: &'static str = "a"; }
    impl<V, Elem: D<G = GC>> K for (Elem, V) { const NAME: &'static str = "c"; }
    impl<U> K for (U, U) where U: D<G = GB> { const NAME: &'static str = "b"; }
}
fn main() {
    assert_eq!(<(X0, X1) as K>::NAME, "a");
    assert_eq!(<(X0, X0) as K>::NAME, "a");
    assert_eq!(<(X1, X1) as K>::NAME, "b");
    assert_eq!(<(X2, X1) as K>::NAME, "c");
}
