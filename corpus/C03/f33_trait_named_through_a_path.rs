use disjoint_impls::disjoint_impls;
pub trait Dispatch { type Group; }
pub enum GA {} pub enum GB {}
impl Dispatch for u8 { type Group = GA; }
impl Dispatch for u16 { type Group = GB; }
pub mod m {
    use super::*;
    pub struct W<T>(pub T);
    disjoint_impls! {
        impl<T: Dispatch<Group = GA>> self::W<T> { pub const NAME: &'static str = "a"; }
        impl<T: Dispatch<Group = GB>> self::W<T> { pub const NAME: &'static str = "b"; }
    }
}
disjoint_impls! {
    pub trait Kita { const NAME: &'static str; }
    impl<T: Dispatch<Group = GA>> self::Kita for T { const NAME: &'static str = "a"; }
    impl<T: Dispatch<Group = GB>> self::Kita for T { const NAME: &'static str = "b"; }
}
fn main() {
    assert_eq!(<u8 as Kita>::NAME, "a"); assert_eq!(<u16 as Kita>::NAME, "b");
    assert_eq!(<m::W<u8>>::NAME, "a"); assert_eq!(<m::W<u16>>::NAME, "b");
}
