// known finding F38 (C03): a bounded type written with the shorthand `T::Assoc` is canonicalised to
// `<_ŠČ0>::Assoc`; as the FIRST predicate of a where clause that reads `where <`, which rustc rejects
// ("generic parameters on `where` clauses are reserved for future use"). The same blocks written out
// by hand (helper trait keyed on <T::Assoc as Dispatch>::Group) compile.
use disjoint_impls::disjoint_impls;
pub trait Dispatch { type Group; }
pub trait Tr { type Assoc; }
pub enum GroupA {} pub enum GroupB {}
pub struct P; pub struct Q; pub struct X; pub struct Y;
impl Dispatch for P { type Group = GroupA; }
impl Dispatch for Q { type Group = GroupB; }
impl Tr for X { type Assoc = P; }
impl Tr for Y { type Assoc = Q; }

disjoint_impls! {
    pub trait Kita { const NAME: &'static str; }
    impl<T: Tr> Kita for T where T::Assoc: Dispatch<Group = GroupA> { const NAME: &'static str = "one"; }
    impl<T: Tr> Kita for T where T::Assoc: Dispatch<Group = GroupB> { const NAME: &'static str = "two"; }
}
fn main() { assert_eq!((<X as Kita>::NAME, <Y as Kita>::NAME), ("one", "two")); }
