use disjoint_impls::disjoint_impls;
pub mod m { pub trait D { type G; } }
pub enum A {} pub enum B {}
pub struct X; pub struct Y;
impl m::D for X { type G = A; }
impl m::D for Y { type G = B; }
disjoint_impls! {
    pub trait K { const NAME: &'static str; }
    impl<T: m::D<G = A>> K for T { const NAME: &'static str = "a"; }
    impl<T: m::D<G = B>> K for T { const NAME: &'static str = "b"; }
}
fn main() { println!("{} {}", <X as K>::NAME, <Y as K>::NAME); }
