use disjoint_impls::disjoint_impls;
pub trait D { type G; }
pub enum GA {} pub enum GB {}
pub struct X0; pub struct X1;
impl D for X0 { type G = GA; }
impl D for X1 { type G = GB; }
disjoint_impls! {
    pub trait K<P: ?Sized, const N: usize> { const NAME: &'static str; }
    impl<T: D<G = GA>, U: ?Sized, const M: usize> K<U, M> for T { const NAME: &'static str = "a"; }
    impl<T: D<G = GB>, U: ?Sized, const M: usize> K<U, M> for T { const NAME: &'static str = "b"; }
}
fn main() { println!("{} {}", <X0 as K<str, 2>>::NAME, <X1 as K<u8, 3>>::NAME); }
