use disjoint_impls::disjoint_impls;
pub trait D { type G; }
pub enum GA {} pub enum GB {}
pub struct X0; pub struct X1;
impl D for X0 { type G = GA; }
impl D for X1 { type G = GB; }
pub trait Tr0 {} impl Tr0 for u8 {}
disjoint_impls! {
    pub trait K<X, Y: Tr0 = u8> { const NAME: &'static str; }
    impl<T: D<G = GA>> K<u16> for T { const NAME: &'static str = "a"; }
    impl<T: D<G = GB>> K<u16> for T { const NAME: &'static str = "b"; }
}
fn main() { println!("{} {}", <X0 as K<u16>>::NAME, <X1 as K<u16, u8>>::NAME); }
