use disjoint_impls::disjoint_impls;
pub trait D { type G; }
pub enum GA {} pub enum GB {}
pub struct X0; pub struct X1;
impl D for X0 { type G = GA; }
impl D for X1 { type G = GB; }
pub struct W<T, const N: usize>(core::marker::PhantomData<T>);
disjoint_impls! {
    pub trait K<const N: usize, const M: usize> {
        fn f() -> [u8; N];
        fn g() -> Option<W<u8, N>> { None }
        fn h() -> usize { N + 1 + M * 2 }
        const C: usize = N * 2;
    }
    impl<T: D<G = GA>, const Q: usize> K<{ 1 + 2 }, Q> for T { fn f() -> [u8; 3] { [1; 3] } }
    impl<T: D<G = GB>, const Q: usize> K<{ 1 + 2 }, Q> for T { fn f() -> [u8; 3] { [2; 3] } }
}
fn main() {
    assert_eq!(<X0 as K<3, 5>>::f(), [1; 3]); assert_eq!(<X1 as K<3, 5>>::C, 6);
    assert_eq!(<X1 as K<3, 5>>::h(), 14); assert!(<X0 as K<3, 7>>::g().is_none());
}
