use disjoint_impls::disjoint_impls;
pub trait D { type G; }
pub trait Tr0 {}
pub enum GA {} pub enum GB {}
pub struct X0; pub struct X1;
impl D for X0 { type G = GA; }
impl D for X1 { type G = GB; }
impl Tr0 for Vec<X0> {}
disjoint_impls! {
    pub trait K<P: Tr0> { const NAME: &'static str; }
    impl<T: D<G = GA>, U> K<Vec<U>> for T where Vec<U>: Tr0 { const NAME: &'static str = "a"; }
    impl<T: D<G = GB>, U> K<Vec<U>> for T where Vec<U>: Tr0 { const NAME: &'static str = "b"; }
}
fn main() { assert_eq!(<X0 as K<Vec<X0>>>::NAME, "a"); assert_eq!(<X1 as K<Vec<X0>>>::NAME, "b"); }
