use disjoint_impls::disjoint_impls;
pub trait D { type G; }
pub enum GA {} pub enum GB {}
impl D for Box<str> { type G = GA; }
impl D for Box<u8> { type G = GB; }
disjoint_impls! {
    pub trait K { const NAME: &'static str; }
    impl<T: ?Sized> K for Box<T> where Box<T>: D<G = GA> { const NAME: &'static str = "a"; }
    impl<T: ?Sized> K for Box<T> where Box<T>: D<G = GB> { const NAME: &'static str = "b"; }
}
fn main() { println!("{} {}", <Box<str> as K>::NAME, <Box<u8> as K>::NAME); }
