use disjoint_impls::disjoint_impls;
pub trait D { type G; }
pub enum GA {} pub enum GB {}
pub struct X0;
impl D for X0 { type G = GA; }
impl D for Box<str> { type G = GB; }
disjoint_impls! {
    pub trait K { fn k(self) -> &'static str; }
    impl<T: D<G = GA>> K for T { fn k(self) -> &'static str { "a" } }
    impl<U: ?Sized> K for Box<U> where Box<U>: D<G = GB> { fn k(self) -> &'static str { "b" } }
}
fn main() { assert_eq!(X0.k(), "a"); let b: Box<str> = "x".into(); assert_eq!(b.k(), "b"); }
