use disjoint_impls::disjoint_impls;
pub trait D { type G; }
pub enum GA {} pub enum GB {}
pub struct X0; pub struct X1;
impl D for X0 { type G = GA; }
impl D for X1 { type G = GB; }
pub struct Wr<T, U: ?Sized>(core::marker::PhantomData<T>, core::marker::PhantomData<U>);
disjoint_impls! {
    impl<T: D<G = GA>, U: ?Sized> Wr<T, U> { pub const NAME: &'static str = "a"; }
    impl<T: D<G = GB>, U: ?Sized> Wr<T, U> { pub const NAME: &'static str = "b"; }
}
fn main() { assert_eq!(<Wr<X0, str>>::NAME, "a"); assert_eq!(<Wr<X1, [u8]>>::NAME, "b"); assert_eq!(<Wr<X1, u8>>::NAME, "b"); }
