use disjoint_impls::disjoint_impls;
pub trait D { type G; }
pub enum GA {} pub enum GB {}
pub struct X0; pub struct X1;
impl D for X0 { type G = GA; }
impl D for X1 { type G = GB; }
pub mod m {
    use super::*;
    pub struct Wr<T>(pub core::marker::PhantomData<T>);
    disjoint_impls! {
        impl<T: D<G = GA>> Wr<T> { pub(crate) const NAME: &'static str = "a"; }
        impl<T: D<G = GB>> Wr<T> { pub(self) const NAME: &'static str = "b"; }
    }
}
fn main() { println!("{}", <m::Wr<X1>>::NAME); }
