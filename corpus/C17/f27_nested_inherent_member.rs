// F27 (fixed): the items of the nested member Wr<Vec<_>, _> were missing (E0599)
#![allow(dead_code, unused)]
use disjoint_impls::disjoint_impls;
pub trait D { type G: ?Sized; }
pub trait D2 { type G: ?Sized; type H: ?Sized; }
pub trait Dp<P = ()> { type G: ?Sized; }
pub trait Dq<P: ?Sized> { type G: ?Sized; }
pub trait Dl<'a, 'b> { type G: ?Sized; }
pub trait Dc<const N: usize> { type G: ?Sized; }
pub trait Tr0 {}
pub enum GA {} pub enum GB {} pub enum GC {}
pub struct X0; pub struct X1; pub struct X2; pub struct X3;
pub struct W<T, const N: usize>(core::marker::PhantomData<T>);
macro_rules! impls {
    ($t:ty : $($tr:tt)+) => {{
        struct Probe<T: ?Sized>(core::marker::PhantomData<T>);
        trait No { const V: bool = false; }
        impl<T: ?Sized> No for Probe<T> {}
        impl<T: ?Sized + $($tr)+> Probe<T> { const V: bool = true; }
        <Probe<$t>>::V
    }};
}
impl D for Vec<X0> { type G = GC; }
impl D for Vec<X1> { type G = GA; }
impl D for Vec<X2> { type G = GC; }
impl D for X0 { type G = GC; }
impl D for X1 { type G = GB; }
impl D for X2 { type G = GA; }
pub mod m {
    use super::*;
    pub struct Wr<T, U>(pub core::marker::PhantomData<(T, U)>);
    disjoint_impls! {
impl<G: D, U: D<G = GC>> Wr<U, G> {
    pub const NAME: &'static str = "b0";
    const SECRET: u8 = 1;
    pub fn f() -> &'static str { "b0" }
}
impl<G, Tr> Wr<Vec<Tr>, G> where Vec<Tr>: D<G = GA> {
    pub const NAME: &'static str = "b1";
    const SECRET: u8 = 2;
    pub fn f() -> &'static str { "b1" }
}
impl<G, T0> Wr<T0, G> where T0: D<G = GB> {
    pub const NAME: &'static str = "b2";
    const SECRET: u8 = 3;
    pub fn f() -> &'static str { "b2" }
}
    }
    pub fn secret_1() -> u8 { <Wr<X0, X0>>::SECRET }
    pub fn secret_3() -> u8 { <Wr<X0, X1>>::SECRET }
    pub fn secret_4() -> u8 { <Wr<X1, X0>>::SECRET }
    pub fn secret_5() -> u8 { <Wr<X1, X1>>::SECRET }
    pub fn secret_6() -> u8 { <Wr<Vec<X0>, X0>>::SECRET }
    pub fn secret_7() -> u8 { <Wr<Vec<X1>, X0>>::SECRET }
}
use m::Wr;
fn main() {
    println!("V1 {} {} {}", <Wr<X0, X0>>::NAME, <Wr<X0, X0>>::f(), m::secret_1());
    println!("V3 {} {} {}", <Wr<X0, X1>>::NAME, <Wr<X0, X1>>::f(), m::secret_3());
    println!("V4 {} {} {}", <Wr<X1, X0>>::NAME, <Wr<X1, X0>>::f(), m::secret_4());
    println!("V5 {} {} {}", <Wr<X1, X1>>::NAME, <Wr<X1, X1>>::f(), m::secret_5());
    println!("V6 {} {} {}", <Wr<Vec<X0>, X0>>::NAME, <Wr<Vec<X0>, X0>>::f(), m::secret_6());
    println!("V7 {} {} {}", <Wr<Vec<X1>, X0>>::NAME, <Wr<Vec<X1>, X0>>::f(), m::secret_7());
}
