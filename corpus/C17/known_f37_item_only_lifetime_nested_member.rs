// known finding F37 (C17, C03): inherent mode, every block declares an impl-level lifetime that only
// its items mention (legal Rust), and one block's header is an instance of the other's with fewer
// parameters: the helper trait takes the FIRST block's item-only lifetime as a parameter, the
// nested member's helper impl passes it on by the first block's canonical name ('_ŠČ3), which the
// member does not declare (its own is '_ŠČ2): E0261 in the expansion.
#![allow(dead_code)]
use disjoint_impls::disjoint_impls;
pub trait D { type G; }
pub enum GA {} pub enum GB {}
pub struct X0; pub struct X1;
impl D for X0 { type G = GA; }
impl D for X1 { type G = GB; }
pub struct Wr<'a, T, const N: usize>(pub core::marker::PhantomData<&'a T>);
disjoint_impls! {
    impl<'i0, 'a, T: D<G = GA>> Wr<'a, T, 12> {
        pub const NAME: &'static str = "b0";
        pub fn il(_x: &'i0 u8) -> u8 { 1 }
    }
    impl<'i1, 'a, T: D<G = GB>, const N: usize> Wr<'a, T, N> {
        pub const NAME: &'static str = "b1";
        pub fn il(_x: &'i1 u8) -> u8 { 2 }
    }
}
fn main() {
    assert_eq!(<Wr<'static, X0, 12>>::NAME, "b0");
    assert_eq!(<Wr<'static, X1, 3>>::NAME, "b1");
}
