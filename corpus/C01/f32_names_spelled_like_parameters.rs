use disjoint_impls::disjoint_impls;
pub trait Dispatch { type Group; }
pub enum GA {} pub enum GB {}
impl Dispatch for u8 { type Group = GA; }
impl Dispatch for u16 { type Group = GB; }
pub trait Tr { type T; const N: usize; }
impl Tr for u8 { type T = u32; const N: usize = 5; }
impl Tr for u16 { type T = u32; const N: usize = 6; }
pub enum N { A = 7 }
pub struct W<const N: usize>;
disjoint_impls! {
    pub trait Kita<X> { fn f() -> usize; fn g() -> usize; }
    impl<T: Dispatch<Group = GA> + Tr<T = u32>, const N: usize> Kita<W<{ N }>> for T {
        fn f() -> usize { let x: <T>::T = 1; x as usize + <T>::N + N }
        fn g() -> usize { N::A as usize + N }
    }
    impl<T: Dispatch<Group = GB> + Tr, const N: usize> Kita<W<{ N }>> for T {
        fn f() -> usize { 2 }
        fn g() -> usize { <T>::N }
    }
}
fn main() {
    assert_eq!(<u8 as Kita<W<100>>>::f(), 106); assert_eq!(<u8 as Kita<W<100>>>::g(), 107);
    assert_eq!(<u16 as Kita<W<1>>>::f(), 2); assert_eq!(<u16 as Kita<W<1>>>::g(), 6);
}
