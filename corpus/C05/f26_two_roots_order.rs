// F26 (fixed): this block order used to fail with E0119, the order (b0, b1, b2, b3) compiled
#![allow(dead_code, unused)]
use disjoint_impls::disjoint_impls;
pub trait D { type G: ?Sized; }
pub trait D2 { type G: ?Sized; type H: ?Sized; }
pub trait Dp<P = ()> { type G: ?Sized; }
pub trait Dq<P: ?Sized> { type G: ?Sized; }
pub trait Dl<'a, 'b> { type G: ?Sized; }
pub trait Tr0 {}
pub enum GA {} pub enum GB {} pub enum GC {}
pub struct X0; pub struct X1; pub struct X2; pub struct X3;
pub struct W<T, const N: usize>(core::marker::PhantomData<T>);
macro_rules! impls {
    ($t:ty : $($tr:tt)+) => {{
        struct Probe<T: ?Sized>(core::marker::PhantomData<T>);
        trait No { const V: bool = false; }
        impl<T: ?Sized> No for Probe<T> {}
        impl<T: ?Sized + $($tr)+> Probe<T> { const V: bool = true; }
        <Probe<$t>>::V
    }};
}
impl D2 for Vec<Vec<X0>> { type G = GC; type H = GB; }
impl D2 for Vec<X0> { type G = GC; type H = GA; }
impl D2 for Vec<X1> { type G = GB; type H = GB; }
impl D2 for Vec<X2> { type G = GA; type H = GC; }
impl D for X0 { type G = GA; }
impl D2 for X0 { type G = GA; type H = GA; }
impl D for X1 { type G = GA; }
impl D for X2 { type G = GA; }
impl D2 for X2 { type G = GA; type H = GB; }
disjoint_impls! {
pub trait K {
    const NAME: &'static str;
    const ID: u8 = 0;
    fn f() -> &'static str { "default" }
}
impl<T: D2<G = GA>, G> K for (T, Vec<G>) {
    const NAME: &'static str = "b2";
}
impl<Tr, T> K for (Vec<Tr>, T) where T: D<G = GA> {
    const NAME: &'static str = "b0";
}
impl<T0, T> K for (Vec<T0>, T) where T: D<G = GC> {
    const NAME: &'static str = "b1";
}
impl<U, Other> K for (Vec<U>, Vec<Other>) where Vec<U>: D2<G = GB> {
    const NAME: &'static str = "b3";
}
}
fn main() {
    println!("P0 {}", impls!((Vec<Vec<X0>>, Vec<X0>): K));
    println!("P1 {}", impls!((Vec<X2>, Vec<X0>): K));
    println!("P2 {}", impls!((Vec<X2>, X0): K));
    println!("P3 {}", impls!((Vec<X1>, X1): K));
    println!("P4 {}", impls!((Vec<X2>, X1): K));
    println!("P5 {}", impls!((Vec<X1>, X0): K));
    println!("P6 {}", impls!((Vec<Vec<X0>>, X1): K));
    println!("P7 {}", impls!((Vec<X1>, Vec<X0>): K));
    println!("P8 {}", impls!((Vec<X2>, X2): K));
    println!("P9 {}", impls!((Vec<X1>, X2): K));
    println!("P10 {}", impls!((Vec<X0>, X2): K));
    println!("P11 {}", impls!((X0, Vec<X1>): K));
    println!("P12 {}", impls!((X1, Vec<X2>): K));
    println!("P13 {}", impls!((Vec<X0>, Vec<X1>): K));
    println!("P14 {}", impls!((X2, Vec<Vec<X0>>): K));
    println!("P15 {}", impls!((X2, Vec<X1>): K));
    println!("P16 {}", impls!((X2, Vec<X2>): K));
    println!("P17 {}", impls!((X1, Vec<X1>): K));
    println!("P18 {}", impls!((X0, Vec<Vec<X0>>): K));
    println!("P19 {}", impls!((Vec<Vec<X0>>, Vec<X1>): K));
    println!("P20 {}", impls!((Vec<X2>, Vec<X2>): K));
    println!("P21 {}", impls!((Vec<X1>, Vec<X2>): K));
    println!("P22 {}", impls!((Vec<Vec<X0>>, Vec<X2>): K));
    println!("P23 {}", impls!((Vec<X0>, Vec<Vec<X0>>): K));
    println!("P24 {}", impls!((Vec<X2>, Vec<X1>): K));
    println!("P25 {}", impls!((Vec<X0>, Vec<X2>): K));
    println!("P26 {}", impls!((Vec<X1>, Vec<Vec<X0>>): K));
    println!("P27 {}", impls!(X3: K));
    println!("P28 {}", impls!(*const X0: K));
}
