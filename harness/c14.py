"""C14 -- malformed invocations are rejected with the specific diagnostic, atomically.
Well-formed bases (trait mode and inherent mode) x every single-defect mutation of every block;
observable: rustc stderr.  Oracles: (1) exactly one macro diagnostic, with the message the Coq
model Validate.v predicts from the items/impls the hook serializes; (2) nothing else is
emitted: every other error is a consequence of the trait (or inherent items) being absent, and
there is no coherence error; (3) the unmutated bases and the 'defaulted item omitted' variants
compile."""
import random, json, copy, re
from . import common as cm
from . import gen_prog as gp
from . import rustc_engine as rc
from . import c17
from .c09 import finish

MESSAGES = ["Doesn't match trait definition", 'Expected trait impl, found inherent impl', 'Missing in one of the impls',
            'Not found in trait definition', 'Expected inherent impl but found trait', 'Not found in one of the impls',
            "Generics don't match between impls", "Visibility doesn't match between impls"]
# errors that only say "the trait / the item is not there"
ABSENCE = {'E0405', 'E0412', 'E0433', 'E0599', 'E0576', 'E0425', 'E0223', 'E0220'}


def trait_block(b, trait_name, items, unsafe=False):
    return '%simpl%s %s%s {\n%s\n}\n' % ('unsafe ' if unsafe else '', b.generics(), b.header_text(trait_name), b.where(), '\n'.join(items))


def std_items(b):
    items = ['    const NAME: &\'static str = "%s";' % b.tag]
    if 'ID' in b.overrides:
        items.append('    const ID: u8 = %d;' % (int(b.tag[1:]) + 1))
    if 'f' in b.overrides:
        items.append('    fn f() -> &\'static str { "%s" }' % b.tag)
    return items


def trait_mutations(rng, c):
    """yield (label, expected message or None=compiles, invocation text, families as index lists)"""
    n = len(c.blocks)
    tdef = gp.trait_def(c.trait_name, c.trait_generics)
    base_blocks = [(b, std_items(b), False, c.trait_name) for b in c.blocks]

    def render(blocks, trait_text=tdef):
        return trait_text + ''.join(
            (trait_block(b, tn, items, uns) if tn != '__inherent__' else 'impl%s %s%s {\n%s\n}\n' % (b.generics(), b.fmt(b.self_ty), b.where(), '\n'.join(items)))
            for (b, items, uns, tn) in blocks)
    fam = ','.join(str(i) for i in range(n))
    yield ('wellformed', None, render(base_blocks), fam)
    # omitting every defaulted item is allowed
    yield ('defaults_omitted', None, render([(b, ['    const NAME: &\'static str = "%s";' % b.tag], False, c.trait_name) for b in c.blocks]), fam)
    for i in range(n):
        others = ','.join(str(j) for j in range(n) if j != i)
        split = (others + '|' + str(i)) if others else str(i)
        mk = lambda repl: [repl if j == i else x for j, x in enumerate(base_blocks)]
        b, items, uns, tn = base_blocks[i]
        yield ('other_trait@%d' % i, "Doesn't match trait definition", render(mk((b, items, uns, 'Other'))), split)
        # round 10 (seed C14j): the other trait named through a path, or carrying generic arguments
        # (the comparison is on the LAST segment's identifier, whatever the shape of the path)
        if not b.trait_args:
            yield ('other_trait_path@%d' % i, "Doesn't match trait definition", render(mk((b, items, uns, 'self::Other'))), split)
            yield ('other_trait_generic@%d' % i, "Doesn't match trait definition", render(mk((b, items, uns, 'OtherG<u8>'))), split)
        yield ('missing_item@%d' % i, 'Missing in one of the impls', render(mk((b, [x for x in items if 'NAME' not in x] or ['    const ID: u8 = 9;'], uns, tn))), fam)
        yield ('extra_const@%d' % i, 'Not found in trait definition', render(mk((b, items + ['    const EXTRA: u8 = 1;'], uns, tn))), fam)
        yield ('extra_fn@%d' % i, 'Not found in trait definition', render(mk((b, items + ['    fn nickname() -> u8 { 1 }'], uns, tn))), fam)
        # a stray item in a block that omits defaulted items (no more items than the trait has)
        yield ('extra_fn_few_items@%d' % i, 'Not found in trait definition',
               render(mk((b, ['    const NAME: &\'static str = "%s";' % b.tag, '    fn nickname() -> u8 { 1 }'], uns, tn))), fam)
        yield ('unsafe_impl@%d' % i, "Doesn't match trait definition", render(mk((b, items, True, tn))), fam)
        yield ('inherent_block@%d' % i, 'Expected trait impl, found inherent impl', render(mk((b, items, uns, '__inherent__'))), split)
    # a trait with a required associated type and a required method: omitting either, or adding
    # a type the trait does not have, in one block
    tt = gp.trait_def(c.trait_name, c.trait_generics, with_type=True, by_value=True)
    typed = [(b, items + ['    type Out = [u8; %d];' % (j + 1), '    fn k(self) -> u8 { %d }' % (j + 1)], False, tn) for j, (b, items, uns, tn) in enumerate(base_blocks)]
    yield ('typed_wellformed', None, render(typed, tt), fam)
    for i in range(n):
        mk = lambda repl: [repl if j == i else x for j, x in enumerate(typed)]
        b, items, uns, tn = typed[i]
        yield ('missing_type@%d' % i, 'Missing in one of the impls', render(mk((b, [x for x in items if 'type Out' not in x], uns, tn)), tt), fam)
        yield ('missing_fn@%d' % i, 'Missing in one of the impls', render(mk((b, [x for x in items if 'fn k' not in x], uns, tn)), tt), fam)
        yield ('extra_type@%d' % i, 'Not found in trait definition', render(mk((b, items + ['    type Extra = u8;'], uns, tn)), tt), fam)
    # unsafe trait with one safe impl
    if n >= 1:
        ut = gp.trait_def(c.trait_name, c.trait_generics, unsafe=True)
        blocks = [(b, items, j != 0, tn) for j, (b, items, uns, tn) in enumerate(base_blocks)]
        yield ('unsafe_trait_safe_impl@0', "Doesn't match trait definition", render(blocks, ut), fam)
        yield ('unsafe_trait_wellformed', None, render([(b, items, True, tn) for (b, items, uns, tn) in base_blocks], ut), fam)


def inherent_mutations(rng, c):
    n = len(c.blocks)
    def items_of(b):
        return ['    pub const NAME: &\'static str = "%s";' % b.tag, '    const SECRET: u8 = %d;' % (int(b.tag[1:]) + 1), '    pub fn f() -> &\'static str { "%s" }' % b.tag]
    # families: blocks with the same self type template
    fams = {}
    for i, b in enumerate(c.blocks):
        fams.setdefault(b.self_ty, []).append(i)
    if getattr(c, 'one_family', False):
        fams = {'all': list(range(n))}       # nested members join the root's family by construction
    fam = '|'.join(','.join(map(str, v)) for v in fams.values())

    def render(blocks):
        return ''.join('impl%s %s%s {\n%s\n}\n' % (b.generics(), hdr, b.where(), '\n'.join(items)) for (b, items, hdr) in blocks)
    base = [(b, items_of(b), b.fmt(b.self_ty)) for b in c.blocks]
    yield ('wellformed', None, render(base), fam)
    for i in range(n):
        mk = lambda repl: [repl if j == i else x for j, x in enumerate(base)]
        b, items, hdr = base[i]
        members = next(v for v in fams.values() if i in v)
        if len(members) > 1:
            yield ('missing_item@%d' % i, 'Not found in one of the impls', render(mk((b, items[:-1], hdr))), fam)
            yield ('extra_item@%d' % i, 'Not found in one of the impls', render(mk((b, items + ['    pub const EXTRA: u8 = 1;'], hdr))), fam)
            yield ('visibility@%d' % i, "Visibility doesn't match between impls", render(mk((b, [items[0].replace('pub const', 'const')] + items[1:], hdr))), fam)
            # two different RESTRICTED visibilities (same variant of syn::Visibility, different scope)
            rbase = [(b2, [it.replace('pub fn f', 'pub(crate) fn f') for it in its2], h2) for (b2, its2, h2) in base]
            rb, ritems, rhdr = rbase[i]
            rmut = [(rb, [it.replace('pub(crate) fn f', 'pub(self) fn f') for it in ritems], rhdr) if j == i else x for j, x in enumerate(rbase)]
            yield ('restricted_visibility@%d' % i, "Visibility doesn't match between impls", render(rmut), fam)
            if i == 0:
                yield ('restricted_wellformed', None, render(rbase), fam)
        others = [x for x in fam.split('|')]
        split = '|'.join([','.join(str(j) for j in map(int, g.split(',')) if j != i) for g in others if g != str(i)] + [str(i)])
        split = '|'.join(g for g in split.split('|') if g)
        yield ('trait_block@%d' % i, 'Expected inherent impl but found trait', render(mk((b, items, 'Other for ' + hdr))), split)


def nested_inherent_bases(rng):
    """inherent families with a member whose self type is an instance of the others' (`Wr<Vec<T>>`
    under `Wr<T>`), with and without a bound on its own parameter that the family's header cannot
    name (`T: Tr0`): the member belongs to the family, so a defect in it is diagnosed like in any other"""
    out = []
    for wrap, own in (('Vec<{T0}>', True), ('Option<{T0}>', False), ('Vec<{T0}>', False), ('Option<{T0}>', True)):
        c = c17.ICase()
        mk = lambda: gp.mk_slots(rng, ['T0'])
        b0 = gp.Block(mk(), None, 'Wr<{T0}>', [('{T0}', 'D', {'G': 'GA'}, rng.choice(['inline', 'where']))], 'b0')
        b1 = gp.Block(mk(), None, 'Wr<{T0}>', [('{T0}', 'D', {'G': 'GB'}, rng.choice(['inline', 'where']))], 'b1')
        b2 = gp.Block(mk(), None, 'Wr<%s>' % wrap, [(wrap, 'D', {'G': 'GC'}, 'where')] + ([('{T0}', 'Tr0', {}, rng.choice(['inline', 'where']))] if own else []), 'b2')
        c.blocks = [b0, b1, b2]
        rng.shuffle(c.blocks)
        for i, b in enumerate(c.blocks):
            b.tag = 'b%d' % i
        c.decl = 'pub struct Wr<T>(pub core::marker::PhantomData<T>);'
        c.world = {('X0', 'D'): {'G': 'GA'}, ('X1', 'D'): {'G': 'GB'}, (wrap.format(T0='X0'), 'D'): {'G': 'GC'}, ('X0', 'Tr0'): {}}
        c.probes = ['Wr<X0>']
        c.one_family = True
        out.append(c)
    # a chain of three levels, the innermost header written BEFORE the intermediate one
    for inner_first in (True, False):
        c = c17.ICase()
        mk = lambda: gp.mk_slots(rng, ['T0'])
        b0 = gp.Block(mk(), None, 'Wr<{T0}>', [('{T0}', 'D', {'G': 'GA'}, rng.choice(['inline', 'where']))], 'b0')
        b1 = gp.Block(mk(), None, 'Wr<Vec<{T0}>>', [('Vec<{T0}>', 'D', {'G': 'GB'}, 'where')], 'b1')
        b2 = gp.Block(mk(), None, 'Wr<Vec<Vec<{T0}>>>', [('Vec<Vec<{T0}>>', 'D', {'G': 'GC'}, 'where')], 'b2')
        c.blocks = [b0, b2, b1] if inner_first else [b0, b1, b2]
        for i, b in enumerate(c.blocks):
            b.tag = 'b%d' % i
        c.decl = 'pub struct Wr<T>(pub core::marker::PhantomData<T>);'
        c.world = {('X0', 'D'): {'G': 'GA'}, ('Vec<X0>', 'D'): {'G': 'GB'}, ('Vec<Vec<X0>>', 'D'): {'G': 'GC'}}
        c.probes = ['Wr<X0>']
        c.one_family = True
        out.append(c)
    return out


def program(kind, c, invocation):
    if kind == 'trait':
        src = gp.PRELUDE + 'pub trait Other { const NAME: &\'static str; }\npub trait OtherG<P> { const NAME: &\'static str; }\n' + gp.world_text(c.world)
        src += 'disjoint_impls! {\n%s}\n' % invocation
        ty = c.probes[0][1]
        src += 'fn main() { let _ = <%s as K>::NAME; }\n' % ty
    else:
        src = gp.PRELUDE + 'pub trait Other {}\n' + gp.world_text(c.world)
        src += 'pub mod m {\n    use super::*;\n    %s\n    disjoint_impls! {\n%s    }\n}\nuse m::Wr;\n' % (c.decl, invocation)
        src += 'fn main() { let _ = <%s>::NAME; }\n' % c.probes[0]
    return src


def run(tier, seed, replay=None):
    rng = random.Random(seed)
    gate = cm.proof_gate(['C14_'])
    exe_model = cm.build_model()
    exe_hook = cm.build_hook()
    nb = 15 if tier == 'quick' else 150
    if replay:
        rp = json.load(open(replay))
        if 'program' in rp:
            r = rc.compile_run(rp['program'], run=False)
            print('replay: compiles=%s errors=%s' % (r['ok'], r['errors'][:6]))
        return 0, dict(evaluations=1, distinct_nontrivial=0, obligations=len(gate['theorems']), discharged=len(gate['theorems']), checker_cmd='replay', trusted_base=[]), 0
    jobs = []
    for i in range(nb):
        if i % 3 == 2:
            c = c17.gen(rng, idx=i // 3)
            for label, msg, inv, fams in inherent_mutations(rng, c):
                jobs.append(('inherent', c, label, msg, inv, fams))
        else:
            c = gp.gen_case(rng, rng.choice(['flat', 'flat', 'multi']))
            if not c.probes:
                continue
            for label, msg, inv, fams in trait_mutations(rng, c):
                jobs.append(('trait', c, label, msg, inv, fams))
    for c in nested_inherent_bases(rng):
        for label, msg, inv, fams in inherent_mutations(rng, c):
            jobs.append(('inherent', c, 'nested:' + label, msg, inv, fams))
    progs = [program(k, c, inv) for (k, c, label, msg, inv, fams) in jobs]
    res = rc.compile_many(progs, run=False)
    hook = cm.run_hook(['items\t' + inv.replace('\n', ' ') for (_, _, _, _, inv, _) in jobs], exe_hook)
    mreq, midx = [], []
    for i, (h, job) in enumerate(zip(hook, jobs)):
        if h.startswith('(Items'):
            mreq.append('validate\t%s\t%s' % (h, job[5])); midx.append(i)
    mresp = dict(zip(midx, cm.run_model(mreq, exe_model))) if mreq else {}
    stats = dict(programs=len(progs), wellformed=0, mutated=0, by_defect={}, model_checked=len(mresp))
    violations, nontrivial = [], set()
    for i, ((kind, c, label, msg, inv, fams), r) in enumerate(zip(jobs, res)):
        defect = label.split('@')[0]
        stats['by_defect'][defect] = stats['by_defect'].get(defect, 0) + 1
        macro = [e[len('error: '):] for e in rc.macro_errors(r)]
        macro_known = [m for m in macro if m in MESSAGES]
        codes = set(rc.error_codes(r))
        predicted = mresp.get(i)
        def viol(what, k='property'):
            violations.append(dict(kind=k, request=label + '\n' + inv, program=progs[i], errors=r['errors'][:8], oracle=what))
        if msg is None:
            stats['wellformed'] += 1
            if not r['ok']:
                if macro_known:
                    viol('a well-formed invocation triggers the diagnostic %r' % macro_known[0])
                elif any('panicked' in e for e in r['errors']):
                    viol('a well-formed invocation makes the macro panic')
                # other compile failures of a well-formed base are acceptance questions (C03), not C14
            if predicted is not None and predicted != 'ok':
                viol('corr:model/validate: the Coq model predicts %r for a well-formed invocation' % predicted, 'correspondence')
            continue
        stats['mutated'] += 1
        nontrivial.add(label + inv)
        if r['ok']:
            viol('defect %s: the invocation compiles' % defect)
        elif len(macro_known) != 1 or macro_known[0] != msg:
            viol('defect %s: expected exactly the diagnostic %r, got %s (all errors: %s)' % (defect, msg, macro, r['errors'][:4]))
        elif 'E0119' in codes or (codes - ABSENCE):
            viol('defect %s: besides the diagnostic, rustc reports %s: something else was emitted' % (defect, sorted(codes - ABSENCE) or ['E0119']))
        elif predicted is not None and predicted != msg:
            viol('corr:model/validate: the Coq model predicts %r, the macro reports %r' % (predicted, msg), 'correspondence')
    return finish('C14', tier, seed, gate, jobs, stats, nontrivial, violations, set(),
                  rule='well-formed bases (trait mode: flat and multi-family; inherent mode over local generic types) x every single-defect mutation of every block (other trait, missing required item, extra const/fn, extra fn in a block that omits defaulted items, unsafe impl / safe impl of unsafe trait, inherent block in trait mode, trait block in inherent mode, missing/extra item or differing visibility between inherent blocks) + controls (unmutated, all defaulted items omitted, unsafe trait with unsafe impls); non-trivial = distinct mutated invocation',
                  samples=[dict(label=j[2], expected=j[3], invocation=j[4][:400]) for j in jobs[:40:8]],
                  extra=dict(programs=len(progs)))
