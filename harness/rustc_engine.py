"""rustc engine: whole programs compiled by the real rustc against the proc-macro dylib built
from /repo's current working tree; observables = exit status, error headlines, stdout of the
compiled binary, expanded text."""
import os, re, json, subprocess, hashlib, shutil, concurrent.futures
from . import common as cm

_dylib = {}


def build_dylib():
    if 'so' in _dylib:
        return _dylib['so'], _dylib['deps']
    tdir = os.path.join(cm.CACHE, 'dylib')
    r = subprocess.run(['cargo', 'build', '--offline', '--lib', '--message-format=json', '--target-dir', tdir],
                       cwd=cm.REPO, env=cm.ENV, stdout=subprocess.PIPE, stderr=subprocess.PIPE, text=True, timeout=1800)
    if r.returncode:
        raise cm.HarnessError('dylib build failed:\n' + r.stderr[-3000:])
    so = None
    for line in r.stdout.split('\n'):
        if line.startswith('{'):
            try:
                m = json.loads(line)
            except ValueError:
                continue
            if m.get('reason') == 'compiler-artifact' and m.get('target', {}).get('name') == 'disjoint_impls':
                for f in m.get('filenames', []):
                    if f.endswith('.so'):
                        so = f
    if not so:
        raise cm.HarnessError('dylib not found in cargo output')
    _dylib['so'] = so
    _dylib['deps'] = os.path.join(tdir, 'debug', 'deps')
    return so, _dylib['deps']


def _work():
    d = os.path.join(cm.CACHE, 'progs')
    os.makedirs(d, exist_ok=True)
    return d


def compile_run(src, name=None, run=True, expanded=False, env_extra=None, cwd=None, keep=False):
    """returns dict(ok, errors=[headlines], stderr, stdout)"""
    so, deps = build_dylib()
    import uuid
    h = name or (hashlib.sha1(src.encode()).hexdigest()[:12] + uuid.uuid4().hex[:8])
    d = _work()
    path = os.path.join(d, h + '.rs')
    open(path, 'w').write(src)
    out = os.path.join(d, h + '.bin')
    env = dict(os.environ)
    if env_extra:
        env.update(env_extra)
    cmd = ['rustc', '--edition', '2024', '-Awarnings', '-L', 'dependency=' + deps, '--extern', 'disjoint_impls=' + so, path]
    if expanded:
        env['RUSTC_BOOTSTRAP'] = '1'
        cmd += ['-Zunpretty=expanded']
    elif run:
        cmd += ['-C', 'debuginfo=0', '-C', 'opt-level=0', '-o', out]
    else:
        cmd += ['--emit=metadata', '-o', os.path.join(d, h + '.rmeta')]
    r = subprocess.run(cmd, stdout=subprocess.PIPE, stderr=subprocess.PIPE, text=True, timeout=600, env=env, cwd=cwd)
    res = dict(ok=r.returncode == 0, stderr=r.stderr, stdout=r.stdout if expanded else '',
               errors=re.findall(r'^(error(?:\[E\d+\])?: .*)$', r.stderr, re.M))
    if res['ok'] and run and not expanded:
        rr = subprocess.run([out], stdout=subprocess.PIPE, stderr=subprocess.PIPE, text=True, timeout=60)
        res['stdout'] = rr.stdout
        res['run_ok'] = rr.returncode == 0
        res['run_stderr'] = rr.stderr[-500:]
    if not keep:
        for f in (path, out, os.path.join(d, h + '.rmeta')):
            if os.path.exists(f):
                os.remove(f)
    return res


def compile_many(srcs, run=True, workers=16, **kw):
    build_dylib()
    with concurrent.futures.ThreadPoolExecutor(max_workers=workers) as ex:
        return list(ex.map(lambda s: compile_run(s, run=run, **kw), srcs))


def error_codes(res):
    return sorted(set(re.findall(r'error\[(E\d+)\]', res['stderr'])))


def macro_errors(res):
    """the macro's own diagnostics: `error: <message>` lines without a code"""
    return [e for e in res['errors'] if re.match(r'error: ', e) and 'aborting due to' not in e and 'could not compile' not in e]
