"""C13 -- parameter canonicalisation is a consistent, capture-free bijection.
Correspondence: hook op `canon` (resolve_non_predicate_params on every block, once and twice)
vs the Coq model Param.canon.  Property oracles on the implementation's own output:
(i) distinct parameters get distinct canonical names; (ii) the rewritten block equals the
original renamed by the resolver specification driven ONLY by the position map read off the
rewritten generics list (every occurrence, nothing else); (iii) canonicalising twice changes
nothing; (iv) blocks equal up to renaming and declaration order get identical canonical
headers and equal blocks up to the order of the generics list."""
import random, json, copy
from . import common as cm
from . import sexp2coq as sx
from .c09 import finish

LT = ["'a", "'b", "'T", "'x", "'_ŠČ1", "'_ŠČ0"]
TY = ['T', 'U', 'V', 'A', 'Elem', 'K', 'W', '_ŠČ1', '_ŠČ0', 'Item', 'X9']
CT = ['N', 'M', 'LEN', 'K0']


class B:
    """a block template over slots L0,L1 (lifetimes) T0..T3 (types; T2,T3 may occur only in
    payloads) N0,N1 (consts)"""
    def __init__(self, rng):
        self.rng = rng
        r = rng
        self.header = r.choice([
            ('K', '({T0}, {T1})'), ("K<{L0}, {T1}>", '&{L0} {T0}'), ('K<{T0}>', '[{T1}; {N0}]'), ('K', 'Wrap<{T0}, {N0}>'),
            ('K<{T1}, {N0}>', 'Vec<{T0}>'), ('m::K<{L0}>', "fn(&{L0} {T0}) -> {T1}"), ('K', '{T0}'),
            ('K', 'Wrap<{T0}, {N0}, {N1}>'), ('K<{T0}>', 'dyn Tr<{T1}, A = {T0}> + Send'), ('K', '<{T0} as Tr>::A'),
            ('K<{L0}, {L1}, {L2}>', '{T0}'), ("K<{L1}>", '(&{L0} {T0}, &{L2} {T1})'),
        ])
        # inline outlives bounds between the lifetime parameters (they never decide the numbering)
        self.lt_bounds = r.choice([{}, {'L0': 'L2', 'L1': 'L0'}, {'L1': 'L0'}, {'L2': 'L1', 'L0': 'L1'}])
        self.bounds = r.sample([
            ('{T0}', 'D<G = {T2}>'), ('{T1}', 'D2<{T0}, G = GA, H = {T3}>'), ('{T2}', 'Clone'), ('Vec<{T0}>', 'D<G = [{T1}; {N0}]>'),
            ('{T0}', "D3<{L0}, G = &{L0} {T1}>"), ('{T3}', 'D<G = {T0}>'), ('{T0}', 'Tr'), ('[{T2}; {N1}]', 'D'),
        ], r.randrange(1, 5))
        self.items = r.sample([
            'const C: usize = {N0} + 1;',
            'type Out = {T0}::Assoc;',
            'fn f(x: &{L0} {T0}, y: [{T1}; {N0}]) -> Option<{T2}> {{ {T0}::mk({N0} + 1, {T1}::default()) }}',
            'fn g() -> usize {{ <{T0} as Tr2<{T1}>>::K + {N1} }}',
            'fn h() -> {T1} {{ {T0}::pick::<{T1}>() }}',
            'type Gat = {T0}::Wrapped<{T1}>;',
            'fn tr() -> Tr {{ Tr::new(Other::len({N0})) }}',
            'const D: [u8; {N0}] = [0; {N0}];',
            'fn lt(x: &{L0} str) -> &{L0} str {{ x }}',
        ], r.randrange(0, 4))
        # F-a: every parameter constrained (header, or payload/argument of a bound whose bounded
        # type is already constrained); drop bounds and items that would mention others
        import re
        slots = lambda txt: set(re.findall(r'\{([LTN]\d)\}', txt))
        ok = slots(self.header[0] + self.header[1])
        changed = True
        while changed:
            changed = False
            for bd, b in self.bounds:
                if slots(bd) <= ok and not slots(b) <= ok:
                    ok |= slots(b); changed = True
        self.bounds = [(bd, b) for bd, b in self.bounds if slots(bd) <= ok and slots(b) <= ok]
        self.items = [i for i in self.items if slots(i) <= ok]
        self.place = {i: r.choice(['inline', 'where']) for i in range(len(self.bounds))}
        # decoys: names spelled like a parameter in positions that are never an occurrence of one
        # (after a qualified self; a multi-segment expression path headed by a const's name;
        # a later path segment; a field).  {D0} is spelled like a type parameter, {E0} like a const
        self.decoys = r.sample([
            'fn dq() -> usize {{ <u8 as {D0}>::K + <{T0}>::{E0} }}',
            'fn dn() -> usize {{ {E0}::A as usize + {E0}::len() }}',
            'type Dq = <{T0}>::{D0};',
            'fn dm(x: m::{D0}) -> m::{D0} {{ x.{D0} }}',
            'fn dt() -> usize {{ <{T0} as {D0}<{T1}>>::K }}',
            'fn dx() -> usize {{ <{T0}>::{D0}::<{T1}>() }}',
        ], r.choice([0, 0, 1, 2]))
        self.decoys = [i for i in self.decoys if slots(i) - {'D0', 'E0'} <= ok]
        self.fresh = False
        self.decoy = None
        self.spell(r)

    def spell(self, r, fixed=None):
        lts = r.sample(LT, 3); tys = r.sample(TY, 4); cts = r.sample(CT, 2)
        self.names = {'L0': lts[0], 'L1': lts[1], 'L2': lts[2], 'T0': tys[0], 'T1': tys[1], 'T2': tys[2], 'T3': tys[3], 'N0': cts[0], 'N1': cts[1]}
        if getattr(self, 'decoy', None) is None:
            # fixed strings, kept by the twin: a decoy is not an occurrence, so it is not renamed
            self.decoy = {'D0': self.names[r.choice(['T0', 'T1'])], 'E0': self.names[r.choice(['N0', 'N1'])]}
        self.order = list(self.names)
        r.shuffle(self.order)
        self.order = [s for s in self.order if s[0] == 'L'] + [s for s in self.order if s[0] != 'L']

    def used_slots(self):
        text = self.header[0] + self.header[1] + ''.join(a + b for a, b in self.bounds) + ''.join(self.items) + ''.join(self.decoys)
        return [s for s in self.order if '{%s}' % s in text]

    def decoy_names(self):
        if self.fresh:
            return {'D0': 'Zq0', 'E0': 'Zq1'}
        return self.decoy

    def fmt(self, s):
        return s.format(**self.names, **self.decoy_names())

    def text(self):
        gens = []
        for s in self.used_slots():
            n = self.names[s]
            if s[0] == 'L':
                o = self.lt_bounds.get(s)
                gens.append('%s: %s' % (n, self.names[o]) if o and o in self.used_slots() else n)
            elif s[0] == 'N':
                gens.append('const %s: usize' % n)
            else:
                inl = [self.fmt(b) for i, (bd, b) in enumerate(self.bounds) if bd == '{%s}' % s and self.place[i] == 'inline']
                gens.append(n + (': ' + ' + '.join(inl) if inl else ''))
        preds = [self.fmt('%s: %s' % (bd, b)) for i, (bd, b) in enumerate(self.bounds)
                 if not (bd.strip('{}') in self.names and bd == '{%s}' % bd.strip('{}') and bd[1] == 'T' and self.place[i] == 'inline')]
        return 'impl<%s> %s for %s%s { %s }' % (', '.join(gens), self.fmt(self.header[0]), self.fmt(self.header[1]),
                                                (' where ' + ', '.join(preds)) if preds else '', ' '.join(self.fmt(i) for i in self.items + self.decoys))


def show(t):
    kind, data, kids = t
    return '(%s "%s"%s)' % (kind, data.replace('\\', '\\\\').replace('"', '\\"'), ''.join(' ' + show(k) for k in kids))


def gp_names(block):
    return [(gp[0], gp[1]) for gp in block[2][0][2]]


def sort_generics(block):
    kind, data, kids = block
    g = kids[0]
    return (kind, data, [(g[0], g[1], sorted(g[2], key=show))] + kids[1:])


CORPUS = [
    'impl<T: D<G = GA>, U> K<U> for T { fn f(x: m::T) -> m::U { m::T::new(T::mk(), x.T, U::T) } }',
    # fixed finding F22 and the probe of F15 (documented: bodies with `let` are opaque)
    'impl<T: D<G = GA>, const N: usize> K for Wrap<T, N> { const C: usize = N; }',
    'impl<_ŠČ1, _ŠČ0: D<G = _ŠČ1>> K for (_ŠČ1, _ŠČ0) { fn f() -> _ŠČ0 { _ŠČ1::mk() } }',
    "impl<'T, T: D<G = GA>> K<'T> for &'T T { fn f(x: &'T T) -> T { T::mk() } }",
    'impl<A, B, C, D0, E, F, G, H, I, J, K1, L: Dx<G = GA>> K for (A, B, C, D0, E, F, G, H, I, J, K1, L) { type Out = (L, K1, J); }',
    # fixed finding F35: lifetimes spelled like the reserved names in another order, with an inline outlives bound
    "impl<'_ŠČ1: '_ŠČ0, '_ŠČ0, T: D<G = GA>> K<'_ŠČ1, '_ŠČ0> for T { fn f(x: &'_ŠČ0 T) -> &'_ŠČ1 T { T::mk() } }",
    # fixed finding F32: names spelled like a parameter after a qualified self / heading a multi-segment expression path
    'impl<T: D<G = GA> + Tr, const N: usize> K<W<{ N }>> for T { fn f() -> usize { <T>::N + N::A as usize + N } type Q = <T>::T; fn g() -> usize { <u8 as T>::N } }',
]


def run(tier, seed, replay=None):
    rng = random.Random(seed)
    gate = cm.proof_gate(['C13_'])
    exe_model = cm.build_model()
    exe_hook = cm.build_hook()
    n = 1200 if tier == 'quick' else 30000
    reqs, meta = [], []
    if replay:
        rp = json.load(open(replay))
        reqs = [rp['request']] if 'request' in rp else []
        meta = [None] * len(reqs)
    else:
        for src in CORPUS:
            reqs.append('canon\t' + src); meta.append(None)
        for i in range(n):
            b = B(rng)
            # a renamed/re-ordered twin in the same request: alpha-equivalent blocks
            twin = copy.copy(b)
            twin.spell(rng)
            reqs.append('canon\t%s %s' % (b.text(), twin.text())); meta.append('twin')
            if b.decoys:
                # the same two blocks with the decoys spelled with names no parameter has
                fb, ft = copy.copy(b), copy.copy(twin)
                fb.fresh = ft.fresh = True
                reqs.append('canon\t%s %s' % (fb.text(), ft.text()))
                meta.append(('fresh', len(reqs) - 2, [b.decoy_names(), twin.decoy_names()]))
    resp = cm.run_hook(reqs, exe_hook)
    stats = dict(unsupported=0, crash=0, blocks=0, twins=0, params=0, payload_only_params=0, decoy_pairs=0)
    body_violations = []
    if not replay:
        # bodies outside the hook's term language (loops with labels spelled like lifetime parameters,
        # ..): "the rewritten block means the same" is decided by compiling and running the programs
        # of corpus/C13 (each asserts the values it expects)
        import os
        from . import rustc_engine as rc
        cdir = os.path.join(cm.ROOT, 'corpus', 'C13')
        for f in sorted(os.listdir(cdir)) if os.path.isdir(cdir) else []:
            if not f.endswith('.rs'):
                continue
            src = open(os.path.join(cdir, f)).read()
            r = rc.compile_run(src)
            stats['body_programs'] = stats.get('body_programs', 0) + 1
            if not (r['ok'] and r.get('run_ok')):
                body_violations.append(dict(kind='property', request='corpus/C13/' + f, program=src, errors=r['errors'][:4],
                                            oracle='a program whose item bodies use names spelled like parameters no longer compiles and runs after canonicalisation: %s' % r['errors'][:2]))
    mreq, midx = [], []
    parsed = {}
    for i, r in enumerate(resp):
        if r.startswith('(Unsupported'):
            stats['unsupported'] += 1; continue
        if r.startswith('(Crash'):
            stats['crash'] += 1; continue
        t = sx.parse(r)
        parsed[i] = t
        for j, pair in enumerate(t[2]):
            orig, can, twice = pair[2]
            mreq.append('canon\t' + show(orig)); midx.append((i, j, 'canon'))
            mreq.append('ren_by\t%s\t%s' % (show(orig), show(can))); midx.append((i, j, 'ren'))
            mreq.append('idem\t' + show(orig)); midx.append((i, j, 'idem'))
    mresp = cm.run_model(mreq, exe_model) if mreq else []
    per = {}
    for key, m in zip(midx, mresp):
        per[key] = m
    violations, nontrivial = list(body_violations), set()
    for i, t in parsed.items():
        if resp[i].startswith('(Crash'):
            continue
        cans = []
        for j, pair in enumerate(t[2]):
            orig, can, twice = pair[2]
            stats['blocks'] += 1
            names = gp_names(can)
            onames = gp_names(orig)
            stats['params'] += len(names)
            canon_names = [n for (_, n) in names if n.startswith('_ŠČ')]
            s_can = show(can)
            fail = None
            if len(set(names)) != len(names):
                fail = 'two parameters share a canonical name: %s' % (names,)
            elif per[(i, j, 'ren')] != s_can:
                fail = 'the rewritten block is not the original with exactly the occurrences of each parameter renamed (resolver specification driven by the position map of the rewritten generics list)'
            elif show(twice) != s_can:
                fail = 'canonicalising twice changes the block'
            if fail:
                violations.append(dict(kind='property', request=reqs[i], block=j, impl=s_can[:2500], spec=per[(i, j, 'ren')][:2500], oracle=fail))
            elif per[(i, j, 'canon')] != s_can:
                violations.append(dict(kind='correspondence', request=reqs[i], block=j, impl=s_can[:2500], model=per[(i, j, 'canon')][:2500],
                                       oracle='corr:hook/canon: implementation and Coq model (Param.canon) disagree'))
            # (iv) the hypotheses of theorem C13_idempotent_checked, evaluated by the extracted model:
            # on a block that spells no kept name like one of its own canonical names, the indexer
            # must number the canonical block as it numbered the original; then idempotence of
            # the model is a theorem (and the model's canonical block is the implementation's)
            idem = dict(kv.split('=') for kv in per.get((i, j, 'idem'), '').split() if '=' in kv)
            if idem.get('fresh') == 'true':
                if idem.get('stable') == 'true':
                    stats['idem_theorem_instances'] = stats.get('idem_theorem_instances', 0) + 1
                elif not fail:
                    violations.append(dict(kind='property' if idem.get('idem') == 'false' else 'correspondence',
                                           request=reqs[i], block=j, impl=s_can[:2500], model=per.get((i, j, 'idem')),
                                           oracle='theorem C13_idempotent_checked no longer applies: the indexer numbers the canonical block differently from the original (model evaluation: %s)' % per.get((i, j, 'idem'))))
            elif idem:
                stats['idem_reserved_spelling'] = stats.get('idem_reserved_spelling', 0) + 1
            cans.append(can)
            if any(a != b for a, b in zip(names, onames)):
                nontrivial.add(reqs[i] + '#%d' % j)
        if isinstance(meta[i], tuple) and meta[i][0] == 'fresh' and meta[i][1] in parsed and len(cans) == 2:
            # capture-freedom as a metamorphic relation: spelling a non-occurrence like a parameter
            # changes nothing but that spelling
            other = [pair[2][1] for pair in parsed[meta[i][1]][2]]
            for j, (cf, co, dn) in enumerate(zip(cans, other, meta[i][2])):
                stats['decoy_pairs'] += 1
                want = show(cf).replace('"Zq0"', '"%s"' % dn['D0']).replace('"Zq1"', '"%s"' % dn['E0'])
                if want != show(co):
                    violations.append(dict(kind='property', request=reqs[meta[i][1]], block=j, impl=show(co)[:2500], spec=want[:2500],
                                           oracle='a name that is not an occurrence of a parameter (after a qualified self, head of a multi-segment expression path spelled like a const, later segment, field) but shares its spelling changes the canonical block: it differs from the canonical block of the same input with that name spelled freshly'))
        if meta[i] == 'twin' and len(cans) == 2:
            stats['twins'] += 1
            a, b = cans
            if show(a[2][1]) != show(b[2][1]) or show(a[2][2]) != show(b[2][2]):
                violations.append(dict(kind='property', request=reqs[i], oracle='blocks equal up to renaming and declaration order receive different canonical headers: %s for %s vs %s for %s' % (
                    show(a[2][1])[:300], show(a[2][2])[:300], show(b[2][1])[:300], show(b[2][2])[:300])))
            elif show(sort_generics(a)) != show(sort_generics(b)):
                violations.append(dict(kind='property', request=reqs[i], oracle='blocks equal up to renaming and declaration order are not equal after canonicalisation (up to the order of the generics list)'))
    if stats['crash']:
        i = next(i for i, r in enumerate(resp) if r.startswith('(Crash'))
        violations.append(dict(kind='crash', request=reqs[i], impl=resp[i], oracle='canonicalisation must not panic/abort on fragment inputs'))
    return finish('C13', tier, seed, gate, reqs, stats, nontrivial, violations, set(),
                  rule='corpus + random blocks over header templates (tuples, references with lifetimes, arrays/const generics, const parameter as generic argument, fn pointers, trait objects with bindings, projections) x bounds (payload-only parameters, derived bounded types, lifetimes in trait arguments) x items (T::Assoc, T::f(), turbofish, GAT projection, <T as Tr>::K, const expressions, a path spelled like a parameter in a non-parameter position; decoys: a name spelled like a parameter after a qualified self, heading a multi-segment expression path, as a later segment or a field, judged by the metamorphic relation: spelling it freshly changes only that spelling) x adversarial spellings (a parameter named like a trait, a lifetime and a type sharing an identifier, parameters literally named _ŠČ1/_ŠČ0, 12 parameters) x declaration order x inline/where placement; each request carries an alpha-renamed, re-ordered twin; non-trivial = distinct block with a renamed parameter',
                  samples=[dict(request=reqs[i][:400]) for i in range(0, len(reqs), max(1, len(reqs) // 5))][:5])
