"""Convert the hook's S-expression terms to Coq syntax (for Examples / cases.v)."""
import sys

def parse(s):
    pos = [0]
    def skip():
        while pos[0] < len(s) and s[pos[0]] == ' ':
            pos[0] += 1
    def term():
        skip()
        assert s[pos[0]] == '(', (s, pos[0])
        pos[0] += 1
        st = pos[0]
        while s[pos[0]] not in ' )':
            pos[0] += 1
        kind = s[st:pos[0]]
        skip()
        assert s[pos[0]] == '"'
        pos[0] += 1
        data = []
        while s[pos[0]] != '"':
            if s[pos[0]] == '\\':
                pos[0] += 1
            data.append(s[pos[0]])
            pos[0] += 1
        pos[0] += 1
        kids = []
        skip()
        while s[pos[0]] == '(':
            kids.append(term())
            skip()
        assert s[pos[0]] == ')'
        pos[0] += 1
        return (kind, ''.join(data), kids)
    t = term()
    return t

def coq_string(d):
    # bytes of the UTF-8 encoding; non-ASCII bytes via explicit ascii codes
    b = d.encode('utf-8')
    if all(32 <= c < 127 for c in b):
        return '"%s"' % d.replace('"', '""')
    parts = []
    for c in b:
        parts.append('String (ascii_of_nat %d) (' % c)
    return '(' + ''.join(parts) + 'EmptyString' + ')' * len(b) + ')'

def to_coq(t):
    kind, data, kids = t
    return '(Node (K "%s" %s) [%s])' % (kind, coq_string(data), '; '.join(to_coq(k) for k in kids))

if __name__ == '__main__':
    for line in sys.stdin:
        line = line.rstrip('\n')
        if line:
            print(to_coq(parse(line)))


def show(t):
    """inverse of parse"""
    kind, data, kids = t
    return '(%s "%s"%s)' % (kind, data.replace('\\', '\\\\').replace('"', '\\"'), ''.join(' ' + show(k) for k in kids))
