"""C05 -- block order independence.  Every permutation (n <= 4 blocks; sampled beyond) of the
blocks of a generated invocation is expanded by the real macro and compiled: acceptance, the
implemented-table and the selected items (tags travel with the blocks) must not change."""
import random, json, itertools
from . import common as cm
from . import gen_prog as gp
from . import prog_engine as pe
from . import rustc_engine as rc
from .c09 import finish
from .c11 import gen_nested_big


def with_probes(rng, c):
    """nested_big cases come without probes: derive them from the headers"""
    headers = []
    for b in c.blocks:
        used = [s for s in b.slots]
        headers.append((b.self_ty, used))
    probes, world = gp.build_world_and_probes(rng, c.blocks, headers, nprobes=4)
    c.probes, c.world = probes, world
    return c


def f16_case():
    """the minimal order-dependent invocation of known finding F16 (corpus, runs first)"""
    def blk(self_fmt, grp, tag):
        return gp.Block({'T0': ('ty', 'T')}, None, self_fmt, [(self_fmt, 'D', {'G': grp}, 'where')], tag)
    blocks = [blk('{T0}', 'GB', 'b0'), blk('Option<{T0}>', 'GA', 'b1'), blk('Vec<{T0}>', 'GA', 'b2')]
    world = {('X0', 'D'): {'G': 'GB'}, ('Option<X0>', 'D'): {'G': 'GA'}, ('Vec<X0>', 'D'): {'G': 'GA'}, ('Vec<X1>', 'D'): {'G': 'GB'}}
    probes = [(None, 'X0'), (None, 'Option<X0>'), (None, 'Vec<X0>'), (None, 'Vec<X1>'), (None, 'X1')]
    return gp.Case('f16', 'K', '', blocks, probes, world)


def sibling_cases():
    """round 10 (seed C05j): a root keyed on a composite over its parameter, a nested header that
    cannot join the root's family (its bound is no key there) and forms its own, and a sibling
    that must join the root's family -- in every order, in particular own-family header BEFORE
    the sibling (the scan over the existing families must not stop at the first non-superset)."""
    out = []
    for kw, xw, cw in (('Option', 'Option', 'Vec'), ('Vec', 'Vec', 'Option'), ('Option', 'Box', 'Vec')):
        def blk(self_fmt, bounded, grp, tag):
            return gp.Block({'T0': ('ty', 'T')}, None, self_fmt, [(bounded, 'D', {'G': grp}, 'where')], tag)
        blocks = [blk('{T0}', kw + '<{T0}>', 'GA', 'b0'),
                  blk(xw + '<{T0}>', xw + '<{T0}>', 'GA', 'b1'),
                  blk(cw + '<{T0}>', '%s<%s<{T0}>>' % (kw, cw), 'GB', 'b2')]
        world = {('%s<X0>' % kw, 'D'): {'G': 'GA'}, ('%s<X1>' % kw, 'D'): {'G': 'GA'},
                 ('%s<X0>' % xw, 'D'): {'G': 'GA'},
                 ('%s<%s<X0>>' % (kw, cw), 'D'): {'G': 'GB'}, ('%s<%s<X1>>' % (kw, cw), 'D'): {'G': 'GB'}}
        probes = [(None, 'X0'), (None, 'X1'), (None, '%s<X0>' % xw), (None, '%s<X1>' % xw),
                  (None, '%s<X0>' % cw), (None, '%s<X1>' % cw), (None, 'X2')]
        out.append(gp.Case('sibling_own', 'K', '', blocks, probes, world))
    return out


def partition_of(case, order, exe_hook):
    """the partition of block tags into families the macro reports for this order"""
    from . import sexp2coq as sx
    blocks = case.blocks if order is None else [case.blocks[i] for i in order]
    inv = (gp.trait_def(case.trait_name, case.trait_generics) if case.trait_name else '') + ''.join(gp.block_text(b, case.trait_name) for b in blocks)
    r = cm.run_hook(['groups\t' + inv.replace('\n', ' ')], exe_hook)[0]
    if not r.startswith('(Blocks'):
        return None
    g = sx.parse(r.split('\t')[1])
    return frozenset(frozenset(blocks[int(m[1])].tag for m in grp[2][1][2]) for grp in g[2])


def run(tier, seed, replay=None, variants=None, prop='C05', prefixes=('C05_',), rule=None, extra_violations=None):
    rng = random.Random(seed)
    gate = cm.proof_gate(list(prefixes))
    n = 72 if tier == 'quick' else 720
    kinds = ['flat', 'nested', 'multi', 'nested_big', 'nested', 'unsized', 'split', 'ltbound', 'tworoots', 'payload', 'combo', 'dupcols', 'unsized2', 'unsized_free', 'twokeys', 'chain3']
    if replay:
        rp = json.load(open(replay))
        for k in ('program_a', 'program_b'):
            if k in rp:
                r = rc.compile_run(rp[k])
                print('replay %s: compiles=%s errors=%s stdout=%s' % (k, r['ok'], r['errors'][:3], r.get('stdout', '')[:300]))
        return 0, dict(evaluations=1, distinct_nontrivial=0, obligations=len(gate['theorems']), discharged=len(gate['theorems']), checker_cmd='replay', trusted_base=[]), 0
    cases = []
    if variants is None:
        cases.append(f16_case())
        cases.extend(sibling_cases())
    seen = {}
    for i in range(n):
        k = kinds[i % len(kinds)]
        c = with_probes(rng, gen_nested_big(rng)) if k == 'nested_big' else gp.gen_case(rng, k, idx=seen.get(k, 0))
        seen[k] = seen.get(k, 0) + 1
        cases.append(c)
    # expand into variants
    jobs = []   # (case idx, variant label, program P1)
    for ci, c in enumerate(cases):
        if variants is None:
            nb = len(c.blocks)
            perms = list(itertools.permutations(range(nb)))
            if len(perms) > 24:
                perms = [tuple(range(nb))] + rng.sample(perms[1:], 11)
            for p in perms:
                jobs.append((ci, p, c, list(p)))
        else:
            for label, vc in variants(rng, c):
                jobs.append((ci, label, vc, None))
    progs = [vc.macro_program(order) for (_, _, vc, order) in jobs]
    res = rc.compile_many(progs)
    # second phase: item values for implemented probes
    tables = []
    vjobs = []
    for (ci, label, vc, order), r in zip(jobs, res):
        if r['ok'] and r.get('run_ok'):
            P = {int(k): v == 'true' for k, v in pe.parse_table(r['stdout'], 'P').items()}
            tables.append(P)
            vjobs.append((len(tables) - 1, vc.macro_program(order, values_for={j for j, v in P.items() if v})))
        else:
            tables.append(None)
    vres = rc.compile_many([p for _, p in vjobs])
    values = {}
    for (ti, _), r in zip(vjobs, vres):
        values[ti] = pe.parse_table(r['stdout'], 'V') if r['ok'] and r.get('run_ok') else 'VALUES-DO-NOT-COMPILE'
    stats = dict(cases=len(cases), programs=len(progs) + len(vjobs), variants=len(jobs), accepted_cases=0, rejected_cases=0)
    violations, nontrivial, known_lines = list(extra_violations or []), set(), set()
    known = [k for k in cm.load_known() if k['property'] == prop and k['status'] == 'known']
    # corpus of fixed order-dependence findings: every program must compile and run
    import os
    cdir = os.path.join(cm.ROOT, 'corpus', 'C05')
    for f in (sorted(os.listdir(cdir)) if variants is None and os.path.isdir(cdir) else []):
        src = open(os.path.join(cdir, f)).read()
        r = rc.compile_run(src)
        if not (r['ok'] and r.get('run_ok')):
            violations.append(dict(kind='property', request='corpus/C05/' + f, program_a=src, errors_a=r['errors'][:4],
                                   oracle='a corpus program of a fixed order-dependence finding no longer compiles: %s' % r['errors'][:2]))
    by_case = {}
    for ti, (ci, label, vc, order) in enumerate(jobs):
        by_case.setdefault(ci, []).append((label, tables[ti], values.get(ti), progs[ti], res[ti]['errors'][:3], order, vc))
    for ci, vs in by_case.items():
        base = vs[0]
        if base[1] is None:
            stats['rejected_cases'] += 1
        else:
            stats['accepted_cases'] += 1
            if any(base[1].values()):
                nontrivial.add(cases[ci].invocation())
        for v in vs[1:]:
            if (v[1] is None) != (base[1] is None):
                # known finding F16: a tie between equally small groupings is broken by block
                # order; attributed only if the reported partitions differ, have equal size,
                # and the rejection is rustc's coherence error
                k16 = next((k for k in known if k['class'] == 'F16'), None)
                if k16 and variants is None:
                    exe_hook = cm.build_hook()
                    pa, pb = partition_of(base[6], base[5], exe_hook), partition_of(v[6], v[5], exe_hook)
                    errs = (base[4] or []) + (v[4] or [])
                    if pa is not None and pb is not None and pa != pb and len(pa) == len(pb) and any('E0119' in e for e in errs):
                        known_lines.add('KNOWN-FINDING: property=%s F16: %s' % (prop, k16['what']))
                        stats['known_f16'] = stats.get('known_f16', 0) + 1
                        break
                violations.append(dict(kind='property', request=cases[ci].invocation(), variant_a=str(base[0]), variant_b=str(v[0]),
                                       program_a=base[3], program_b=v[3], errors_a=base[4], errors_b=v[4],
                                       oracle='variant %s %s while variant %s %s' % (base[0], 'compiles' if base[1] is not None else 'does not compile', v[0], 'compiles' if v[1] is not None else 'does not compile')))
                break
            if v[1] != base[1] or v[2] != base[2]:
                violations.append(dict(kind='property', request=cases[ci].invocation(), variant_a=str(base[0]), variant_b=str(v[0]),
                                       program_a=base[3], program_b=v[3],
                                       oracle='variants %s and %s compile but implement the trait for different probes or select different items: %s / %s vs %s / %s' % (base[0], v[0], base[1], base[2], v[1], v[2])))
                break
    return finish(prop, tier, seed, gate, jobs, stats, nontrivial, violations, known_lines,
                  rule=rule or 'generated invocations (flat, nested pairs, chains/diamonds/duplicated parameters, several families, ?Sized) x ALL permutations of the blocks (n <= 4; 12 sampled beyond): each permutation is expanded by the macro and compiled; acceptance, implemented-table over the probes and selected items (NAME/ID/f) are compared with the first permutation; non-trivial = distinct accepted invocation with an implemented probe',
                  samples=[dict(invocation=cases[ci].invocation()[:500], variants=[str(v[0]) for v in vs][:6]) for ci, vs in list(by_case.items())[:3]],
                  extra=dict(programs=stats['programs']))
