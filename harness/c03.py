"""C03 -- acceptance: invocations assembled from the documented features whose blocks within each
family pairwise differ by non-unifiable bindings of a shared associated type are accepted by
the macro, and the expansion compiles whenever a straightforward hand-written helper-trait
encoding of the same blocks does.
For every generated invocation three programs are compiled: the macro program, the REFERENCE
encoding (written by this harness from the blocks alone: one helper trait per header with one
?Sized parameter per shared key, the user's blocks as helper impls with their rows, one main
impl delegating through projections) and -- as a sanity check of the reference itself -- its
dispatch table against the shadow-trait table.  Verdict: reference compiles => macro program
must compile and give the same table; macro panics / diagnostics on such inputs are violations
regardless."""
import random, json, itertools
from . import common as cm
from . import gen_prog as gp
from . import prog_engine as pe
from . import rustc_engine as rc
from .c09 import finish

KINDS = ['split', 'flat', 'multi', 'nested', 'nested', 'payload', 'nested_relaxed_inner', 'unsized', 'unsized2', 'targs:generic', 'targs:concrete', 'targs:lifetime', 'targs:const', 'targs:bounded',
         'targs:unsized_arg', 'targs:default_omitted', 'targs:unsized_where', 'targs:bounded_composite', 'flat', 'multi',
         'targs:nested_arg_wild', 'targs:nested_arg', 'targs:repeated_arg', 'targs:reflexive_mix', 'tworoots', 'twokeys']
# kinds without a reference encoding whose blocks are pairwise distinguished on a shared key by
# construction: the expansion must compile unless the world holds a type satisfying two blocks
ACCEPT_WITHOUT_REFERENCE = {'targs:nested_arg_wild', 'targs:nested_arg', 'targs:repeated_arg', 'targs:reflexive_mix', 'tworoots'}


def header_slots(b):
    """slots that occur in the impl header (payload-only parameters are not part of it)"""
    text = (b.trait_args or '') + ' ' + b.self_ty + ' ' + ' '.join(bd + ' ' + tr for (bd, tr, _, _) in b.bounds)
    return [s for s in b.slots if '{%s}' % s in text]


def canonical_generics(b, relaxed_slots):
    parts = []
    for slot in sorted(header_slots(b), key=lambda s: (s[0] != 'L', s)):
        kind = b.slots[slot][0]
        nm = 'R' + slot if kind != 'lt' else "'r" + slot.lower()
        if kind == 'lt':
            parts.append(nm)
        elif kind == 'const':
            parts.append('const %s: usize' % nm)
        else:
            parts.append(nm + (': ?Sized' if slot in relaxed_slots else ''))
    return '<%s>' % ', '.join(parts) if parts else ''


def canon_fmt(b, s):
    names = {slot: ('R' + slot if k != 'lt' else "'r" + slot.lower()) for slot, (k, _) in b.slots.items()}
    return s.format(**names)


def reference_program(c):
    """hand-written helper-trait encoding; None if the case is outside the straightforward scheme"""
    fams = {}
    nested = [i for i, b in enumerate(c.blocks) if hasattr(b, 'keymap')]
    if nested:
        # one family under the general header; a nested member re-expresses the shared key
        # over its own header (b.keymap: general bounded type -> its own)
        gen = [i for i in range(len(c.blocks)) if i not in nested]
        fams[('nested',)] = gen + nested
    else:
        for i, b in enumerate(c.blocks):
            fams.setdefault((b.trait_args, b.self_ty, tuple(sorted(header_slots(b)))), []).append(i)
    src = gp.PRELUDE + gp.world_text(c.world) + c.extra_world + gp.trait_def(c.trait_name, c.trait_generics, where=getattr(c, 'trait_where', ''), unsafe=getattr(c, 'unsafe_trait', False))
    tparams = c.trait_generics.strip()
    tparams_inner = tparams[1:-1] if tparams else ''
    for fi, (key, members) in enumerate(fams.items()):
        blocks = [c.blocks[i] for i in members]
        first = blocks[0]
        # shared keys: (bounded, trait) pairs every member bounds; associated types some member binds
        def pairs(b):
            return {(bd, tr) for (bd, tr, binds, pl) in b.bounds if tr != '__outlives__'}
        general_blocks = [b for b in blocks if not hasattr(b, 'keymap')]
        shared = set.intersection(*[pairs(b) for b in general_blocks])
        keys = []
        for (bd, tr, binds, pl) in itertools.chain(*[b.bounds for b in general_blocks]):
            for a in binds:
                if (bd, tr) in shared and (bd, tr, a) not in keys:
                    keys.append((bd, tr, a))
        if not keys:
            return None
        relaxed = set()
        for b in blocks:
            relaxed |= set(b.relaxed)
        helper = 'RK%d' % fi
        kparams = ', '.join('Key%d: ?Sized' % k for k in range(len(keys)))
        # lifetimes of the trait must come first in the helper's parameter list
        tp = [p.strip() for p in split_top(tparams_inner)] if tparams_inner else []
        lts = [p for p in tp if p.startswith("'")]
        rest = [p for p in tp if not p.startswith("'")]
        src += 'pub trait %s<%s> {\n    const NAME: &\'static str;\n    const ID: u8 = 0;\n    fn f() -> &\'static str { "default" }\n}\n' % (
            helper, ', '.join(lts + [kparams] + rest))
        def proj(b_fmt, bd, tr, a):
            return '<%s as %s>::%s' % (b_fmt(bd), tr, a)
        for b in blocks:
            row = []
            for (bd, tr, a) in keys:
                val = None
                bd_own = getattr(b, 'keymap', {}).get(bd, bd)
                for (bd2, tr2, binds, pl) in b.bounds:
                    if bd2 == bd_own and tr2 == tr and a in binds:
                        val = b.fmt(binds[a])
                row.append(val if val is not None else proj(b.fmt, bd_own, tr, a))
            targs = [x.strip() for x in split_top(b.fmt(b.trait_args))] if b.trait_args else []
            t_lts = [x for x in targs if x.startswith("'")]
            t_rest = [x for x in targs if not x.startswith("'")]
            items = ['    const NAME: &\'static str = "%s";' % b.tag]
            if 'ID' in b.overrides:
                items.append('    const ID: u8 = %d;' % (int(b.tag[1:]) + 1))
            if 'f' in b.overrides:
                items.append('    fn f() -> &\'static str { "%s" }' % b.tag)
            src += 'impl%s %s<%s> for %s%s {\n%s\n}\n' % (b.generics(), helper, ', '.join(t_lts + row + t_rest), b.fmt(b.self_ty), b.where(), '\n'.join(items))
        # main impl over canonical names
        cf = lambda s: canon_fmt(first, s)
        targs = [x.strip() for x in split_top(cf(first.trait_args))] if first.trait_args else []
        t_lts = [x for x in targs if x.startswith("'")]
        t_rest = [x for x in targs if not x.startswith("'")]
        projs = [proj(cf, bd, tr, a) for (bd, tr, a) in keys]
        hb = '%s<%s>' % (helper, ', '.join(t_lts + projs + t_rest))
        preds = []
        for (bd, tr) in dict.fromkeys((bd, tr) for (bd, tr, a) in keys):
            preds.append('%s: %s' % (cf(bd), tr))
        # bounds of the trait definition's own parameters that the blocks repeat (outlives, Tr0)
        for (bd, tr, binds, pl) in first.bounds:
            if tr == '__outlives__':
                preds.append('%s: %s' % (cf(bd), cf('{L0}')))
            elif tr == 'Tr0':
                preds.append('%s: Tr0' % cf(bd))
        preds.append('Self: ' + hb)
        src += ('unsafe ' if getattr(c, 'unsafe_trait', False) else '') + 'impl%s %s%s for %s where %s {\n    const NAME: &\'static str = <Self as %s>::NAME;\n    const ID: u8 = <Self as %s>::ID;\n    fn f() -> &\'static str { <Self as %s>::f() }\n}\n' % (
            canonical_generics(first, relaxed), c.trait_name, ('<%s>' % ', '.join(targs)) if targs else '', cf(first.self_ty), ', '.join(preds), hb, hb, hb)
    lines = []
    for j, (targs, ty) in enumerate(c.probes):
        tr = '%s%s' % (c.trait_name, '<%s>' % targs if targs else '')
        lines.append('    println!("P%d {}", impls!(%s: %s));' % (j, ty, tr))
    src += 'fn main() {\n%s\n}\n' % '\n'.join(lines)
    return src


def split_top(s):
    out, depth, cur = [], 0, ''
    for ch in s:
        if ch in '<([':
            depth += 1
        elif ch in '>)]':
            depth -= 1
        if ch == ',' and depth == 0:
            out.append(cur); cur = ''
        else:
            cur += ch
    if cur.strip():
        out.append(cur)
    return out


def run(tier, seed, replay=None):
    rng = random.Random(seed)
    gate = cm.proof_gate(['C03_'])
    n = 130 if tier == 'quick' else 1690
    if replay:
        rp = json.load(open(replay))
        for k in ('program', 'reference_program'):
            if k in rp:
                r = rc.compile_run(rp[k])
                print('replay %s: compiles=%s errors=%s' % (k, r['ok'], r['errors'][:3]))
        return 0, dict(evaluations=1, distinct_nontrivial=0, obligations=len(gate['theorems']), discharged=len(gate['theorems']), checker_cmd='replay', trusted_base=[]), 0
    violations, nontrivial, known_lines = [], set(), set()
    stats = dict(cases=0, programs=0, reference_unavailable=0, reference_rejected=0, reference_table_wrong=0, both_accepted=0, by_kind={}, axis_pairs=0)
    # corpus of fixed acceptance findings
    import os
    cdir = os.path.join(cm.ROOT, 'corpus', 'C03')
    for f in sorted(os.listdir(cdir)) if os.path.isdir(cdir) else []:
        r = rc.compile_run(open(os.path.join(cdir, f)).read())
        stats['programs'] += 1
        if f.startswith('known_'):
            # witness of a recorded (not repaired) finding, known_<class>_*.rs: KNOWN-FINDING while it
            # still fails with the recorded error and known_findings.json lists the class
            cls = f.split('_')[1].upper()
            k = next((k for k in cm.load_known() if k['property'] == 'C03' and k['status'] == 'known' and k['class'].upper() == cls), None)
            if r['ok'] and r.get('run_ok'):
                continue
            if k and (not k.get('error_code') or any(k['error_code'] in e for e in r['errors'])):
                known_lines.add('KNOWN-FINDING: property=C03 %s: %s' % (k['class'], k['what']))
                continue
        if not (r['ok'] and r.get('run_ok')):
            violations.append(dict(kind='property', request='corpus/C03/' + f, program=open(os.path.join(cdir, f)).read(), errors=r['errors'][:4],
                                   oracle='a corpus program of a fixed acceptance finding no longer compiles: %s' % r['errors'][:2]))
    seen, cases = {}, []
    for i in range(n):
        k = KINDS[i % len(KINDS)]
        cases.append(gp.gen_case(rng, k, idx=seen.get(k, 0)))
        seen[k] = seen.get(k, 0) + 1
    for i, c in enumerate(cases):
        c.unsafe_trait = (i % 6 == 5)     # unsafe traits are part of the documented fragment
    refs = [reference_program(c) for c in cases]
    shadow = rc.compile_many([c.shadow_program() for c in cases])
    macro = rc.compile_many([c.macro_program() for c in cases])
    ref_res = rc.compile_many([r if r else 'fn main() {}' for r in refs])
    axes = set()
    for c, ref, s, m, rr in zip(cases, refs, shadow, macro, ref_res):
        stats['cases'] += 1
        stats['programs'] += 3
        stats['by_kind'][c.kind] = stats['by_kind'].get(c.kind, 0) + 1
        feats = sorted({c.kind, 'relaxed' if any(b.relaxed for b in c.blocks) else 'sized', 'where' if any(pl == 'where' for b in c.blocks for (_, _, _, pl) in b.bounds) else 'inline',
                        'D2' if any(tr == 'D2' for b in c.blocks for (_, tr, _, _) in b.bounds) else 'D', 'nblocks%d' % min(len(c.blocks), 4)})
        axes |= set(itertools.combinations(feats, 2))
        macro_ok = m['ok'] and m.get('run_ok')
        if any('panicked' in e for e in m['errors']) or [e for e in rc.macro_errors(m) if 'panicked' not in e]:
            violations.append(dict(kind='property', request=c.invocation(), program=c.macro_program(), errors=m['errors'][:4],
                                   oracle='the macro itself rejects an invocation whose blocks pairwise differ by non-unifiable bindings of a shared associated type: %s' % m['errors'][:2]))
            continue
        if ref is None or c.kind in ACCEPT_WITHOUT_REFERENCE:
            stats['reference_unavailable'] += 1
            if c.kind in ACCEPT_WITHOUT_REFERENCE and not macro_ok and s['ok'] and s.get('run_ok'):
                S = {}
                for k, v in pe.parse_table(s['stdout'], 'S').items():
                    S[int(k.split('_')[0])] = S.get(int(k.split('_')[0]), 0) + (v == 'true')
                if all(cnt <= 1 for cnt in S.values()):
                    violations.append(dict(kind='property', request=c.invocation(), program=c.macro_program(), errors=m['errors'][:4],
                                           oracle='the expansion of an invocation whose blocks are pairwise distinguished on a shared key (no probe satisfies two blocks) does not compile: %s' % m['errors'][:3]))
            elif c.kind in ACCEPT_WITHOUT_REFERENCE and macro_ok and s['ok'] and s.get('run_ok'):
                # accepted: every block must be usable, i.e. the trait is implemented exactly for the probes
                # that satisfy one block (the shadow traits stand in for the missing reference encoding)
                S = {}
                for k, v in pe.parse_table(s['stdout'], 'S').items():
                    S[int(k.split('_')[0])] = S.get(int(k.split('_')[0]), 0) + (v == 'true')
                Pm = {int(k): v == 'true' for k, v in pe.parse_table(m['stdout'], 'P').items()}
                bad = [j for j in Pm if S.get(j, 0) <= 1 and Pm[j] != (S.get(j, 0) == 1)]
                if bad and all(cnt <= 1 for cnt in S.values()):
                    violations.append(dict(kind='property', request=c.invocation(), program=c.macro_program(),
                                           oracle='the invocation is accepted but a block is not usable: probes %s satisfy exactly one block (or none), the expansion says otherwise' % [c.probes[j][1] for j in bad[:4]]))
                else:
                    nontrivial.add(c.invocation())
            continue
        if not (rr['ok'] and rr.get('run_ok')):
            stats['reference_rejected'] += 1     # the hand-written encoding is not accepted either: inconclusive
            continue
        # sanity of the reference: its table must be the shadow table
        if s['ok'] and s.get('run_ok'):
            S = {}
            for k, v in pe.parse_table(s['stdout'], 'S').items():
                j, b = k.split('_')
                S.setdefault(int(j), 0)
                S[int(j)] += (v == 'true')
            Pr = {int(k): v == 'true' for k, v in pe.parse_table(rr['stdout'], 'P').items()}
            if any(Pr.get(j) != (S.get(j, 0) == 1) for j in Pr):
                stats['reference_table_wrong'] += 1
                continue
        if not macro_ok:
            violations.append(dict(kind='property', request=c.invocation(), program=c.macro_program(), reference_program=ref, errors=m['errors'][:4],
                                   oracle='the hand-written helper-trait encoding of the same blocks compiles, the expansion does not: %s' % m['errors'][:3]))
            continue
        Pm = {int(k): v == 'true' for k, v in pe.parse_table(m['stdout'], 'P').items()}
        Pr = {int(k): v == 'true' for k, v in pe.parse_table(rr['stdout'], 'P').items()}
        if Pm != Pr:
            violations.append(dict(kind='property', request=c.invocation(), program=c.macro_program(), reference_program=ref,
                                   oracle='expansion and hand-written encoding both compile but implement the trait for different probes: %s vs %s' % (Pm, Pr)))
            continue
        stats['both_accepted'] += 1
        nontrivial.add(c.invocation())
    # inherent blocks (part of the documented fragment): accepted and usable
    from . import c17
    # the first indices cover every struct shape with a concrete and a generic const argument
    ni = 16 if tier == 'quick' else 150
    icases, istats, inon, iviol = c17.core(rng, 0, cases=[c17.gen(rng, idx=i, structs=['w3', 'w2', 'w5', 'w4', 'w8', 'w1', 'w6', 'w7']) for i in range(ni)])
    stats['inherent_mode'] = dict(cases=istats['cases'], programs=istats['programs'])
    stats['programs'] += istats['programs']
    nontrivial |= inon
    violations += [v for v in iviol if 'does not compile' in v['oracle']]
    stats['axis_pairs'] = len(axes)
    if stats['cases'] and stats['reference_table_wrong'] > max(2, 0.05 * stats['cases']):
        raise cm.HarnessError('the reference encoding disagrees with the shadow-trait oracle on %d cases' % stats['reference_table_wrong'])
    return finish('C03', tier, seed, gate, cases, stats, nontrivial, violations, known_lines,
                  rule='generated invocations from the documented features (kinds %s: header templates incl. derived bounded types, several dispatch traits/associated types, parametrised dispatch traits, wildcards, ?Sized inline/where, trait lifetime/type/const arguments with bounds, outlives and omitted defaults, several families, spelling/declaration order/placement) whose blocks are pairwise distinguished on a shared key; three programs per case (macro, hand-written reference encoding, shadow traits); non-trivial = distinct invocation where reference and expansion both compile with equal tables; pairwise feature-axis coverage is counted' % sorted(set(KINDS)),
                  samples=[dict(kind=c.kind, invocation=c.invocation()[:500]) for c in cases[:3]],
                  extra=dict(programs=stats['programs']))
