"""C10 -- bound re-expression over a more general header is exact.
Correspondence: hook op `subst` (Substitutions::substitute on a (bounded, trait) key under
the substitution the crate itself computed) vs the extracted Coq model `subst_key`.
Property oracles on the implementation's own output: never empty; no duplicates; one result
per way of choosing (independent count); identity substitution returns the key unchanged;
substituting back yields the key whenever the key is re-expressible (`stable_key`)."""
import random, json
from . import common as cm
from . import gen_terms as g
from . import sexp2coq as sx
from .c09 import finish

CORPUS = [
    # fixed finding F4 first
    ('subst', '(_ŠČ0, [u8; _ŠČ1])', '(Vec<_ŠČ0>, [u8; 3])', '[_ŠČ0; 3 + 1]', 'D<{3 - 1}>'),
    ('subst', '(_ŠČ0, _ŠČ1)', '(Vec<_ŠČ0>, Vec<_ŠČ0>)', 'Option<Vec<_ŠČ0>>', 'Dispatch<Group = Vec<_ŠČ0>>'),
    ('subst', '_ŠČ0', 'Vec<_ŠČ0>', 'Option<Vec<_ŠČ0>>', 'Dispatch'),
    ('subst', '_ŠČ0', '_ŠČ0', 'Option<Vec<_ŠČ0>>', 'Dispatch'),
    ('subst', 'Vec<[i32; 2]>', 'Vec<[i32; 2]>', 'Option<Vec<i32>>', 'Dispatch'),
    # out of the image (F1 root): the element type of the specific header
    ('subst', '(_ŠČ0, _ŠČ1)', '(Vec<_ŠČ0>, _ŠČ1)', '_ŠČ0', 'D<Group = u8>'),
    ('subst', '(_ŠČ0, _ŠČ1)', '(_ŠČ0, _ŠČ0)', '_ŠČ0', 'D'),
    ('subst', 'W<_ŠČ0, _ŠČ1>', 'W<Vec<_ŠČ0>, 3>', 'W<Vec<_ŠČ0>, 3>', 'D<3>'),
]


def count_choices(term, values):
    """independent enumerator of 'one result per way of choosing': product over the
    outermost occurrences of values of sigma of the number of parameters bound to it.
    `values`: dict (sort, subtree string) -> multiplicity"""
    kind, data, kids = term
    key = (kind[0] if kind[0] in 'TE' else None, show(term))
    if key in values:
        return values[key]
    n = 1
    for k in kids:
        n *= count_choices(k, values)
    return n


def show(t):
    kind, data, kids = t
    return '(%s "%s"%s)' % (kind, data.replace('\\', '\\\\').replace('"', '\\"'), ''.join(' ' + show(k) for k in kids))


BOUNDED = [lambda: g.P(0), lambda: g.P(1), lambda: g.C('Option', g.P(0)), lambda: g.Tup(g.P(0), g.P(1)),
           lambda: g.Arr(g.P(0), g.Lit('3')), lambda: g.Arr(g.P(1), g.Bin('+', g.PE(2), g.Lit('1'))),
           lambda: g.Ref('a', False, g.P(0)), lambda: g.C('m::W', g.P(1), g.P(0)), lambda: g.Arr(g.C('u8'), g.PE(2))]
TRAITS = [lambda: g.C('D'), lambda: g.C('D', g.P(1)), lambda: g.C('D', g.GAssoc('G', g.P(0))),
          lambda: g.C('m::D', g.GConst(g.Bin('-', g.PE(2), g.Lit('1')))), lambda: g.C('D', g.GLt('a'), g.P(0)),
          lambda: g.C('D', g.C('Vec', g.P(0)), g.GAssoc('G', g.Tup(g.P(1), g.P(0)))), lambda: g.C('::m::D', g.P(2))]


def gen_cases(rng, tier):
    cases = list(CORPUS)
    n = 2500 if tier == 'quick' else 40000
    for _ in range(n):
        shape = rng.random()
        if shape < 0.5:
            a = rng.choice([g.Tup(g.P(0), g.P(1)), g.Tup(g.P(0), g.P(1), g.Arr(g.C('u8'), g.PE(2))),
                            g.C('W', g.P(0), g.P(1)), g.C('W', g.P(0), g.P(2)), g.P(0), g.C('Vec', g.P(0)),
                            g.Tup(g.P(0), g.C('Vec', g.P(1))), g.Ref('a', False, g.Tup(g.P(1), g.P(0)))])
        else:
            a = g.rand_type(rng, rng.randrange(1, 4), 3)
        ps = g.params_of(a)
        theta = {}
        for p in ps:
            if p >= 2:
                theta[p] = rng.choice([g.Lit('3'), g.Lit('3'), g.Lit('0'), g.PE(2)]) if any(x == ('P', p) for x in flat(a)) else \
                    rng.choice([g.Lit('3'), g.Cn('N'), g.PE(2), g.ParE(g.Bin('+', g.PE(2), g.Lit('1')))])
            else:
                theta[p] = g.rand_type(rng, rng.randrange(3), 2, allow_params=rng.random() < 0.7, exprs=False)
        r = rng.random()
        if r < 0.2 and len(ps) > 1 and ps[0] < 2 and ps[1] < 2:
            theta[ps[1]] = theta[ps[0]]              # non-injective
        if r > 0.8:
            theta = {}                               # identity: specific = general
        elif r > 0.7 and ps:
            del theta[ps[0]]
        b = g.subst(a, theta)
        # in the image
        for _ in range(2):
            bounded0, trait0 = rng.choice(BOUNDED)(), rng.choice(TRAITS)()
            cases.append(('subst', g.show(a), g.show(b), g.show(g.subst(bounded0, theta)), g.show(g.subst(trait0, theta))))
        # random bounds over the general header's parameters (every type and expression form of
        # the fragment, const expressions included), instantiated
        rb = g.rand_type(rng, rng.randrange(1, 4), 3)
        rt = g.C(rng.choice(['D', 'm::D']), *([g.rand_type(rng, rng.randrange(1, 3), 3)] if rng.random() < 0.7 else []),
                 *([g.GConst(g.rand_expr(rng, rng.randrange(1, 3), 3))] if rng.random() < 0.4 else []),
                 *([g.GAssoc('G', g.rand_type(rng, 1, 3))] if rng.random() < 0.4 else []))
        cases.append(('subst', g.show(a), g.show(b), g.show(g.subst(rb, theta)), g.show(g.subst(rt, theta))))
        # possibly outside the image: written over the specific header's own parameters
        bps = [p for p in g.params_of(b) if p < 2]
        ren = {0: g.P(bps[0]) if bps else g.C('u8'), 1: g.P(bps[-1]) if bps else g.C('X'), 2: g.Lit('3')}
        cases.append(('subst', g.show(a), g.show(b), g.show(g.subst(g.rand_type(rng, 2, 2, exprs=False), ren)),
                      g.show(g.subst(rng.choice(TRAITS)(), ren))))
    # systematic: k type parameters (indices 0,1,4,5), every assignment of values from a small
    # pool (equal values at adjacent AND non-adjacent positions, identities in between)
    import itertools
    TP = [0, 1, 4, 5]
    pool = [g.C('Vec', g.C('X')), g.C('i32'), g.C('Vec', g.P(0)), None]      # None = identity
    for k in (2, 3, 4):
        a = g.Tup(*[g.P(i) for i in TP[:k]])
        for assign in itertools.product(range(len(pool)), repeat=k):
            theta = {TP[i]: pool[v] for i, v in enumerate(assign) if pool[v] is not None}
            b = g.subst(a, theta)
            used = [pool[v] for v in assign if pool[v] is not None]
            if not used:
                continue
            v0 = used[0]
            for bounded, trait in ((v0, g.C('D')), (g.C('Option', v0), g.C('D', used[-1])),
                                   (g.Tup(v0, used[-1]), g.C('m::D', g.GAssoc('G', v0)))):
                cases.append(('subst', g.show(a), g.show(b), g.show(bounded), g.show(trait)))
    seen, out = set(), []
    for c in cases:
        if c not in seen:
            seen.add(c); out.append(c)
    return out


def flat(t):
    out = []
    def walk(x):
        if isinstance(x, tuple):
            out.append(x)
            for y in x:
                walk(y)
    walk(t)
    return out


def run(tier, seed, replay=None):
    rng = random.Random(seed)
    known = []
    gate = cm.proof_gate(['C10_'])
    exe_model = cm.build_model()
    exe_hook = cm.build_hook()
    if replay:
        rp = json.load(open(replay))
        cases = [tuple(rp['request'].split('\t'))] if 'request' in rp else []
    else:
        cases = gen_cases(rng, tier)
    reqs = ['\t'.join(c) for c in cases]
    resp = cm.run_hook(reqs, exe_hook)
    stats = dict(unsupported=0, crash=0, no_superset=0, identity=0, multi=0, unstable=0, results=0)
    mreq, midx = [], []
    for i, r in enumerate(resp):
        if r.startswith('(Unsupported'):
            stats['unsupported'] += 1; continue
        if r.startswith('(Crash'):
            stats['crash'] += 1; continue
        gen, spec, bounded, trait, subs, expr_flag, keys, backs = r.split('\t')
        if not subs.startswith('(Subs'):
            stats['no_superset'] += 1; continue
        mreq.append('subst\t%s\t%s\t%s' % (subs, bounded, trait)); midx.append((i, 'subst'))
        mreq.append('stable\t%s\t%s\t%s' % (subs, bounded, trait)); midx.append((i, 'stable'))
        mreq.append('wf\t%s' % subs); midx.append((i, 'wf'))
        kt = sx.parse(keys)
        for j, k in enumerate(kt[2]):
            mreq.append('roundtrip\t%s\t%s\t%s\t%s\t%s' % (subs, bounded, trait, show(k[2][0]), show(k[2][1])))
            midx.append((i, 'rt%d' % j))
            mreq.append('applykey\t%s\t%s\t%s' % (subs, show(k[2][0]), show(k[2][1])))
            midx.append((i, 'ap%d' % j))
    mresp = cm.run_model(mreq, exe_model)
    per = {}
    for (i, kind), m in zip(midx, mresp):
        per.setdefault(i, {})[kind] = m
    violations, known_lines, nontrivial = [], set(), set()
    for i, r in enumerate(resp):
        if r.startswith('(Crash'):
            violations.append(dict(kind='crash', request=reqs[i], impl=r, oracle='substitute must not panic on fragment inputs'))
            continue
        if i not in per:
            continue
        gen, spec, bounded, trait, subs, expr_flag, keys, backs = r.split('\t')
        expressible = expr_flag == '(Bool "true")'
        m = per[i]
        kt = sx.parse(keys)
        results = [show(k) for k in kt[2]]
        stats['results'] += len(results)
        st = sx.parse(subs)
        binds = [(b[1], b[2][0]) for b in st[2]]
        is_identity = all(v[0] == 'Id' for _, v in binds)
        values = {}
        for p, v in binds:
            if v[0] != 'Id':
                key = (v[0][0], show(v))
                values[key] = values.get(key, 0) + 1
        for p, v in binds:
            if v[0] == 'Id':
                # the identity-mapped parameter is one more candidate for the value that spells it
                for sort, kind in (('T', 'TPath'), ('E', 'EPath')):
                    key = (sort, '(%s "" (ONone "") (Path "" (Seg "%s" (ANone ""))))' % (kind, p))
                    if key in values:
                        values[key] += 1
        expected_n = count_choices(sx.parse(bounded), values) * count_choices(sx.parse(trait), values)
        prop_fail = None
        if m['wf'] != 'true':
            prop_fail = 'the substitution reported by is_superset is not well-formed (duplicate key, non-parameter key or ill-sorted value): hypothesis of C10_roundtrip'
        elif len(results) == 0:
            prop_fail = 'the result is empty'
        elif len(set(results)) != len(results):
            prop_fail = 'a re-expression is produced twice'
        elif len(results) != expected_n:
            prop_fail = 'number of re-expressions %d differs from the number of ways of choosing %d' % (len(results), expected_n)
        elif is_identity and results != [show(('Key', '', [sx.parse(bounded), sx.parse(trait)]))]:
            prop_fail = 'under the identity substitution the bound is not returned unchanged'
        else:
            bad = [j for j in range(len(results)) if m.get('rt%d' % j) != 'true']
            if not expressible:
                stats['unstable'] += 1     # never used as a dispatch key (fix F1): nothing to substitute back
            bt = sx.parse(backs)
            impl_backs = [show(k) for k in bt[2]]
            orig = show(('Key', '', [sx.parse(bounded), sx.parse(trait)]))
            bad_impl = [j for j in range(len(results)) if j >= len(impl_backs) or impl_backs[j] != orig]
            corr_ap = [j for j in range(len(results)) if j < len(impl_backs) and m.get('ap%d' % j) != impl_backs[j]]
            stats['forward_applications'] = stats.get('forward_applications', 0) + len(impl_backs)
            if expressible and bad:
                prop_fail = 'substituting the parameters back does not yield the original bound (result %d)' % bad[0]
            elif expressible and bad_impl:
                prop_fail = 'the crate\'s own forward substitution (Substitutions::apply) of result %d does not yield the original bound' % bad_impl[0]
            elif corr_ap:
                violations.append(dict(kind='correspondence', request=reqs[i], impl=impl_backs[corr_ap[0]], model=m.get('ap%d' % corr_ap[0]), subs=subs,
                                       oracle='corr:hook/apply: Substitutions::apply and the Coq specification `apply` disagree'))
            elif (m['stable'] == 'true') != expressible:
                violations.append(dict(kind='correspondence', request=reqs[i], impl=expr_flag, model=m['stable'], subs=subs,
                                       oracle='corr:hook/is_expressible: implementation and Coq model (stable_key) disagree'))
        if is_identity:
            stats['identity'] += 1
        if len(results) > 1:
            stats['multi'] += 1
        if not is_identity:
            nontrivial.add(reqs[i])
        if prop_fail:
            violations.append(dict(kind='property', request=reqs[i], impl=keys, model=m['subst'], subs=subs, oracle=prop_fail))
        elif keys != m['subst']:
            # the model's result IS the specified enumeration (theorem C10_exact_enumeration:
            # subst_key = spec_key), so this input is a failing input of the property itself
            violations.append(dict(kind='property', request=reqs[i], impl=keys, model=m['subst'], subs=subs,
                                   oracle='the re-expressions differ from the specified enumeration spec_key (one result per choice among the parameters bound to each value that occurs, every occurrence replaced): Coq model = spec by theorem C10_exact_enumeration'))
    return finish('C10', tier, seed, gate, cases, stats, nontrivial, violations, known_lines,
                  rule='corpus + random (general header, theta, specific = general[theta]) with ground/parametric/non-injective/partial/identity theta; per pair two bounds in the image (key written over the general header, then instantiated) and one written over the specific header (possibly outside the image); non-trivial = distinct request with a non-identity substitution',
                  samples=[dict(request=reqs[i], impl=resp[i].split('\t')[-1][:300]) for i in range(0, len(reqs), max(1, len(reqs) // 6))][:6])
