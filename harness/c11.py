"""C11 -- family formation: partition, instance, shared keys, exact rows, distinguishable
rows; independence of families with unrelated headers.
The grouping the macro forms (hook op `groups`: family ids, members, keys, rows, generated
helper impls) is validated by the verified checker Group.gi_check, evaluated by the extracted
model on the canonical blocks; independence is checked metamorphically (grouping of the
union = union of the groupings)."""
import random, json
from . import common as cm
from . import gen_prog as gp
from . import sexp2coq as sx
from .c09 import finish

DIAG = {1: 'partition: some block is in no family or in two (or a member index is out of range)',
        2: 'a family has no dispatch key or no member',
        3: 'instance / shared keys / exact rows: a member header is not an instance of the family header, a key is not the re-expression of one of the member\'s bounds, or a row cell is not the member\'s own binding (or wildcard)',
        4: 'a member\'s row generalises another\'s'}


def gen_nested_big(rng):
    """chains and diamonds of headers like tests/supersets_*.rs"""
    shape = rng.choice(['diamond', 'chain', 'dup', 'wild', 'wild', 'fan'])
    G = rng.sample(gp.GROUPS, 3) + ['X3']
    tr = rng.choice(['D', 'D2'])
    a = rng.choice(gp.TRAITS[tr])
    def blk(self_fmt, used, bounded, grp, tag):
        slots = gp.mk_slots(rng, used)
        return gp.Block(slots, None, self_fmt, [(bounded, tr, {a: grp}, rng.choice(['inline', 'where']))], tag)
    if shape == 'wild':
        # a flat family on T plus a nested block that bounds the family's key WITHOUT binding it
        # (its row would be a wildcard) and is distinguished by a bound of its own
        gen_fmt, gen_used, spec_fmt = rng.choice([('{T0}', ['T0'], 'Vec<{T0}>'), ('({T0}, {T1})', ['T0', 'T1'], '(Vec<{T0}>, {T1})')])
        blocks = [blk(gen_fmt, gen_used, '{T0}', G[0], 'b0'), blk(gen_fmt, gen_used, '{T0}', G[1], 'b1')]
        slots = gp.mk_slots(rng, gen_used)
        own_tr = 'D2' if tr == 'D' else 'D'
        key_in_spec = 'Vec<{T0}>'
        nb = gp.Block(slots, None, spec_fmt, [(key_in_spec, tr, {}, 'where'), ('{T0}', own_tr, {'G': G[2]}, 'where')], 'b2')
        blocks.append(nb)
    elif shape == 'fan':
        # a root with two nested siblings whose rows may coincide (F16 pattern)
        hs = [('{T0}', ['T0']), ('Option<{T0}>', ['T0']), ('Vec<{T0}>', ['T0'])]
        gs = [G[0], G[1], rng.choice([G[1], G[2]])]
        blocks = [blk(h, u, h, gs[i], 'b%d' % i) for i, (h, u) in enumerate(hs)]
    elif shape == 'diamond':
        hs = [('({T0}, {T1})', ['T0', 'T1']), ('(Vec<{T0}>, {T1})', ['T0', 'T1']), ('({T0}, Vec<{T1}>)', ['T0', 'T1']),
              ('(Vec<{T0}>, Vec<{T1}>)', ['T0', 'T1'])]
        blocks = [blk(h, u, h, G[i], 'b%d' % i) for i, (h, u) in enumerate(hs)]
    elif shape == 'chain':
        hs = [('{T0}', ['T0']), ('Vec<{T0}>', ['T0']), ('Vec<Vec<{T0}>>', ['T0'])]
        blocks = [blk(h, u, h, G[i], 'b%d' % i) for i, (h, u) in enumerate(hs)]
    else:
        hs = [('({T0}, {T1})', ['T0', 'T1']), ('({T0}, {T0})', ['T0']), ('({T0}, {T1})', ['T0', 'T1'])]
        blocks = [blk(h, u, h, G[i], 'b%d' % i) for i, (h, u) in enumerate(hs)]
    order = list(range(len(blocks)))
    rng.shuffle(order)
    blocks = [blocks[i] for i in order]
    for i, b in enumerate(blocks):
        b.tag = 'b%d' % i
    return gp.Case('nested_big', 'K', '', blocks, [], {})


def canon_group(g):
    """a grouping entry up to member indices: (id, keys, rows as multiset of (block text))"""
    return sx.parse(g) if isinstance(g, str) else g


def run(tier, seed, replay=None):
    rng = random.Random(seed)
    gate = cm.proof_gate(['C11_'])
    exe_model = cm.build_model()
    exe_hook = cm.build_hook()
    n = 300 if tier == 'quick' else 6000
    cases = []
    if replay:
        rp = json.load(open(replay))
        reqs = [rp['request']] if 'request' in rp else []
    else:
        kinds = ['flat', 'multi', 'nested', 'nested_big', 'unsized', 'tworoots', 'nestedx', 'payload', 'overlap', 'split', 'unsized2', 'ltbound', 'targs:reflexive_mix', 'targs:nested_arg', 'targs:generic', 'targs:concrete', 'arity', 'nested_relaxed_inner', 'tie', 'combo', 'combo', 'dupcols', 'unsized2x']
        seen = {}
        for i in range(n):
            k = kinds[i % len(kinds)]
            if k == 'tie':
                from . import c07, c05
                cases.append(c05.f16_case() if seen.get(k, 0) % 4 == 0 else c07.tie_case(rng))
            else:
                cases.append(gen_nested_big(rng) if k == 'nested_big' else gp.gen_case(rng, k, idx=seen.get(k, 0)))
            seen[k] = seen.get(k, 0) + 1
        # appended from a generator of their own (the stream above is unchanged): headers that
        # differ only in the mutability of a reference -- independent families, and an overlapping
        # pair of `&mut T` blocks next to a `&T` block is rejected (round 10, seeds C11j, C04j)
        import random as _r
        rng2 = _r.Random(seed + 10)
        cases += [gp.gen_case(rng2, 'refmut', idx=i) for i in range(8 if tier == 'quick' else 48)]
        cases += [gp.gen_case(rng2, 'refmut_overlap', idx=i) for i in range(6 if tier == 'quick' else 18)]
        reqs = ['groups\t' + c.invocation().replace('\n', ' ') for c in cases]
    resp = cm.run_hook(reqs, exe_hook)
    stats = dict(accepted=0, rejected=0, unsupported=0, families=0, members=0, keys=0, nested_members=0, independence_checked=0)
    mreq, midx = [], []
    for i, r in enumerate(resp):
        if r.startswith('(Unsupported'):
            stats['unsupported'] += 1
        elif r.startswith('(Crash'):
            stats['rejected'] += 1
        else:
            stats['accepted'] += 1
            blocks, grouping, expansion = r.split('\t')
            mreq.append('gi\t%s\t%s' % (blocks, grouping)); midx.append(i)
    mresp = cm.run_model(mreq, exe_model) if mreq else []
    violations, nontrivial = [], set()
    # the family search as a function (coq/Search.v) against the grouping the macro reports:
    # exact equality of families, members, keys (with the stored spelling), rows and unsized sets;
    # on a rejected invocation the model must find no grouping either
    sreq, sidx = [], []
    rej = [i for i, r in enumerate(resp) if r.startswith('(Crash') and 'Unable to form impl group' in r]
    canon_resp = cm.run_hook(['canon\t' + reqs[i].split('\t', 1)[1] for i in rej], exe_hook) if rej else []
    for i, cg in zip(rej, canon_resp):
        if cg.startswith('(Blocks'):
            t = sx.parse(cg)
            sreq.append('search\t(Blocks ""%s)' % ''.join(' ' + sx.show(p[2][1]) for p in t[2])); sidx.append((i, None))
    for i, r in enumerate(resp):
        if r.startswith('(Blocks'):
            blocks, grouping, _ = r.split('\t')
            sreq.append('search\t' + blocks); sidx.append((i, grouping))
    sresp = cm.run_model(sreq, exe_model) if sreq else []
    stats['search_compared'] = len(sreq)
    stats['search_rejections_compared'] = len([1 for _, g in sidx if g is None])
    for (i, grouping), m in zip(sidx, sresp):
        want = grouping if grouping is not None else '(NoGrouping "")'
        if m != want:
            violations.append(dict(kind='correspondence', request=reqs[i], impl=want[:3000], model=m[:3000],
                                   oracle='corr:hook/search: the grouping the macro forms and the Coq model of the family search (Search.search) disagree'))
    groupings = {}
    for i, m in zip(midx, mresp):
        blocks, grouping, expansion = resp[i].split('\t')
        g = sx.parse(grouping); e = sx.parse(expansion)
        groupings[i] = g
        nmembers = sum(len(grp[2][1][2]) for grp in g[2])
        stats['families'] += len(g[2]); stats['members'] += nmembers
        stats['keys'] += sum(len(grp[2][2][2]) for grp in g[2])
        if len(g[2]) < len({sx.to_coq(b[2][2]) + sx.to_coq(b[2][1]) for b in sx.parse(blocks)[2]}):
            stats['nested_members'] += 1
        if m != '0':
            violations.append(dict(kind='property', request=reqs[i], grouping=grouping[:3000],
                                   oracle='grouping invariant violated (gi_check): ' + DIAG.get(int(m) if m.isdigit() else -1, m)))
            continue
        # every member appears exactly once in the expansion: one helper impl per member
        nhelpers = sum(len(gen[2][1][2]) for gen in e[2])
        ndistinct = len({sx.to_coq(b) for b in sx.parse(blocks)[2]})
        if nhelpers != nmembers or nmembers != ndistinct:
            violations.append(dict(kind='property', request=reqs[i], oracle='%d helper impls for %d members of %d distinct blocks: a block does not appear exactly once in the expansion' % (nhelpers, nmembers, ndistinct)))
            continue
        if nmembers > len(g[2]):
            nontrivial.add(reqs[i])
    # independence: unrelated families grouped together = grouped apart
    if not replay:
        ind_reqs, ind_meta = [], []
        for i, c in enumerate(cases):
            if c.kind == 'multi' and i in groupings:
                # split the blocks by self-type template (families have pairwise unrelated headers)
                by_h = {}
                for b in c.blocks:
                    by_h.setdefault(b.self_ty, []).append(b)
                for h, bs in by_h.items():
                    sub = gp.Case('sub', 'K', '', bs, [], {})
                    ind_reqs.append('groups\t' + sub.invocation().replace('\n', ' ')); ind_meta.append((i, h))
        ind_resp = cm.run_hook(ind_reqs, exe_hook) if ind_reqs else []
        per = {}
        for (i, h), r in zip(ind_meta, ind_resp):
            per.setdefault(i, []).append(r)
        for i, rs in per.items():
            if any(not r.startswith('(Blocks') for r in rs):
                violations.append(dict(kind='property', request=reqs[i], oracle='a family accepted inside a larger invocation is rejected on its own: families with unrelated headers are not independent'))
                continue
            def fam_sig(grp):
                return (sx.to_coq(grp[2][0]), tuple(sx.to_coq(k) for k in grp[2][2][2]), tuple(sorted(sx.to_coq(r) for r in grp[2][3][2])))
            together = sorted(fam_sig(grp) for grp in groupings[i][2])
            apart = sorted(fam_sig(grp) for r in rs for grp in sx.parse(r.split('\t')[1])[2])
            stats['independence_checked'] += 1
            if together != apart:
                violations.append(dict(kind='property', request=reqs[i], oracle='families (id, keys, rows) formed for the union of unrelated headers differ from those formed separately'))
    return finish('C11', tier, seed, gate, reqs, stats, nontrivial, violations, set(),
                  rule='generated invocations (flat, several unrelated families, nested pairs, chains/diamonds/duplicated-parameter nestings, ?Sized) in random block order; per accepted invocation the verified checker gi_check runs on the reported grouping, helper impls are counted against members, and multi-family invocations are re-grouped family by family; non-trivial = distinct accepted invocation with a family of more than one member',
                  samples=[dict(request=reqs[i][:500], grouping=resp[i].split('\t')[1][:400] if '\t' in resp[i] else resp[i][:200]) for i in range(0, len(reqs), max(1, len(reqs) // 4))][:4])
