from .progprops import run_prop


def run(tier, seed, replay=None):
    return run_prop('C02', tier, seed, replay)
