"""C06 -- independence from parameter names, declaration order and bound placement.
Each generated invocation is rewritten (consistent renaming of every block's parameters from
an adversarial pool, permuted declaration order, every bound moved between inline position
and where-clause) and all variants must agree on acceptance, implemented-table and items."""
import random, copy
from . import gen_prog as gp
from . import c05

POOL_T = ['T', 'U', 'V', 'A', 'B', 'Elem', 'T0', 'T1', 'Item', 'Tx', 'X', 'Self_', 'GA_', 'N']
POOL_N = ['N', 'M', 'LEN', 'K0', 'C']
POOL_L = ["'a", "'b", "'x", "'lt", "'t"]


def rewrite(rng, c):
    vc = copy.deepcopy(c)
    for b in vc.blocks:
        taken = set()
        new = {}
        for s, (kind, name) in b.slots.items():
            pool = {'ty': POOL_T, 'const': POOL_N, 'lt': POOL_L}[kind]
            cand = [x for x in pool if x not in taken]
            nm = rng.choice(cand)
            taken.add(nm)
            new[s] = (kind, nm)
        b.slots = new
        order = list(new)
        rng.shuffle(order)
        b.order = [s for s in order if s[0] == 'L'] + [s for s in order if s[0] != 'L']
        b.bounds = [(bd, tr, binds, rng.choice(['inline', 'where'])) for (bd, tr, binds, pl) in b.bounds]
        b.relaxed = {s: rng.choice(['inline', 'where']) for s in b.relaxed}
    return vc


def variants(rng, c):
    out = [('original', c)]
    for i in range(5):
        out.append(('rewrite%d' % i, rewrite(rng, c)))
    return out


def run(tier, seed, replay=None):
    return c05.run(tier, seed, replay, variants=variants, prop='C06', prefixes=('C06_',),
                   rule='generated invocations x 5 rewritings each (consistent renaming of every block\'s lifetimes/types/consts from an adversarial pool, permuted declaration order, every bound and ?Sized moved between inline and where-clause): acceptance, implemented-table and selected items compared with the original; non-trivial = distinct accepted invocation with an implemented probe')
