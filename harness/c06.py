"""C06 -- independence from parameter names, declaration order and bound placement.
Each generated invocation is rewritten (consistent renaming of every block's parameters from
an adversarial pool, permuted declaration order, every bound moved between inline position
and where-clause) and all variants must agree on acceptance, implemented-table and items."""
import random, copy
from . import gen_prog as gp
from . import c05

POOL_T = ['T', 'U', 'V', 'A', 'B', 'Elem', 'T0', 'T1', 'Item', 'Tx', 'X', 'Self_', 'GA_', 'N']
POOL_N = ['N', 'M', 'LEN', 'K0', 'C']
POOL_L = ["'a", "'b", "'x", "'lt", "'t"]


def rewrite(rng, c, j=None):
    """j: variant number; the placement of the bounds (inline / where) and their order are
    derived from it so that all arrangements of a bound written in pieces occur"""
    vc = copy.deepcopy(c)
    for b in vc.blocks:
        taken = set()
        new = {}
        for s, (kind, name) in b.slots.items():
            pool = {'ty': POOL_T, 'const': POOL_N, 'lt': POOL_L}[kind]
            cand = [x for x in pool if x not in taken]
            nm = rng.choice(cand)
            taken.add(nm)
            new[s] = (kind, nm)
        b.slots = new
        order = list(new)
        rng.shuffle(order)
        b.order = [s for s in order if s[0] == 'L'] + [s for s in order if s[0] != 'L']
        if j is None:
            b.bounds = [(bd, tr, binds, rng.choice(['inline', 'where'])) for (bd, tr, binds, pl) in b.bounds]
        else:
            pat = [('inline', 'where'), ('where', 'inline'), ('where', 'where'), ('where', 'where'), ('inline', 'inline'), ('inline', 'inline')][j % 6]
            b.bounds = [(bd, tr, binds, pat[k % 2]) for k, (bd, tr, binds, pl) in enumerate(b.bounds)]
            if j % 6 in (3, 5):
                b.bounds = list(reversed(b.bounds))
        b.relaxed = {s: rng.choice(['inline', 'where']) for s in b.relaxed}
    return vc


def variants(rng, c):
    out = [('original', c)]
    for i in range(6):
        out.append(('rewrite%d' % i, rewrite(rng, c, j=i)))
    # the key bound repeated WITHOUT bindings in front of the bound that carries them (inline before
    # where-clause, or both in the where-clause): the two spell one key, the bindings count
    vc = copy.deepcopy(c)
    for b in vc.blocks:
        nb = []
        for (bd, tr, binds, pl) in b.bounds:
            if binds and tr != '__outlives__':
                bare = bd.startswith('{') and bd.endswith('}') and bd.count('{') == 1
                nb.append((bd, tr, {}, 'inline' if bare else 'where'))
                nb.append((bd, tr, binds, 'where'))
            else:
                nb.append((bd, tr, binds, pl))
        b.bounds = nb
    out.append(('plain_copy_first', vc))
    if all(hasattr(b, 'dist_assoc') for b in c.blocks):
        # a bound written in two pieces: the piece with the distinguishing binding first / last
        for label, dist_last in (('dist_first', False), ('dist_last', True)):
            vc = copy.deepcopy(c)
            for b in vc.blocks:
                bs = sorted(b.bounds, key=lambda bd: (b.dist_assoc in bd[2]) == dist_last)
                b.bounds = [(bd, tr, binds, 'where') for (bd, tr, binds, pl) in bs]
            out.append((label, vc))
    return out


def inherent_variants(tier, seed):
    """inherent-mode invocations and their rewritings: every variant must be accepted and select
    the same items (checked against the shadow oracle of each variant, which is unaffected by
    spelling and order)"""
    from . import c17
    rng = random.Random(seed + 17)
    cases = []
    # idx = struct + 8 * (ngroups + 2 * relaxation plan) for the structs with a ?Sized parameter
    # (w6 at 2, w7 at 3): the quick tier adds the plans where the FIRST block relaxes
    for k in (list(range(8)) + [2 + 32, 3 + 48, 2 + 56, 3 + 40] if tier == 'quick' else range(80)):
        # every struct shape in turn (two lifetimes, const before type, ?Sized parameters, ..)
        # (w6 meets the plan `first_only`, w7 the plan `all`: the FIRST block relaxes)
        c = c17.gen(rng, idx=k, structs=['w8', 'w3', 'w6', 'w7', 'w2', 'w4', 'w5', 'w1'])
        cases.append(c)
        # the two rewritings write every relaxation inline / in the where-clause
        for placement in ('inline', 'where'):
            v = rewrite(rng, c)
            for b in v.blocks:
                b.relaxed = {s: placement for s in b.relaxed}
            cases.append(v)
    return c17.core(rng, 0, cases=cases)


def run(tier, seed, replay=None):
    if not replay:
        icases, istats, inon, iviol = inherent_variants(tier, seed)
        extra = [dict(v, oracle='inherent mode, a renamed / re-ordered variant: ' + v['oracle']) for v in iviol if 'does not compile' in v['oracle'] or 'expected items' in v['oracle']]
    else:
        extra = []
    return c05.run(tier, seed, replay, variants=variants, prop='C06', prefixes=('C06_',), extra_violations=extra,
                   rule='generated invocations x 5 rewritings each (consistent renaming of every block\'s lifetimes/types/consts from an adversarial pool, permuted declaration order, every bound and ?Sized moved between inline and where-clause): acceptance, implemented-table and selected items compared with the original; non-trivial = distinct accepted invocation with an implemented probe')
