"""C07 -- deterministic expansion.
(1) the expanded text (`rustc -Zunpretty=expanded`, which runs the real `disjoint_impls` entry
point) of accepted invocations is compared byte-wise across separate processes run under
different environments / working directories / address-space randomisation;
(2) in-process: the hook expands the same invocation repeatedly inside one process (every
IndexMap/HashSet instance gets fresh hasher keys) and in several processes: all grouping and
generated token lists must be identical;
(3) source audit: /repo/src mentions no order- or environment-dependent API.
The generator favours inputs on which an unordered container would show: several keys, several
families, non-injective nestings with several equally good groupings."""
import random, json, os, re, subprocess, tempfile, shutil
from . import common as cm
from . import gen_prog as gp
from . import rustc_engine as rc
from .c09 import finish
from .c11 import gen_nested_big
from .c05 import with_probes

AUDIT = re.compile(r'\b(into_group_map\w*|into_grouping_map\w*|GroupingMap|counts_by|counts\(\)|HashMap|HashSet|RandomState|std::env|env::var|SystemTime|Instant::|thread_rng|rand::|std::fs|fs::read|as \*const|\.as_ptr\(\)|process::id|thread::current|thread_local|static mut|Atomic[A-Z]\w+|OnceLock|OnceCell|LazyLock|lazy_static|Mutex|RwLock|RefCell)\b')


def tie_case(rng):
    """(T, U) family with keys on both parameters + a member mapping both to one type"""
    def blk(self_fmt, used, bounds, tag):
        slots = gp.mk_slots(rng, used)
        return gp.Block(slots, None, self_fmt, bounds, tag)
    g = rng.sample(gp.GROUPS, 3)
    blocks = [blk('({T0}, {T1})', ['T0', 'T1'], [('{T0}', 'D', {'G': g[0]}, 'where'), ('{T1}', 'D', {'G': g[0]}, 'where')], 'b0'),
              blk('({T0}, {T1})', ['T0', 'T1'], [('{T0}', 'D', {'G': g[1]}, 'where'), ('{T1}', 'D', {'G': g[1]}, 'where')], 'b1'),
              blk('(Vec<{T0}>, Vec<{T0}>)', ['T0'], [('Vec<{T0}>', 'D', {'G': g[2]}, 'where')], 'b2')]
    c = gp.Case('tie', 'K', '', blocks, [], {})
    return with_probes(rng, c)


def composite_case(rng):
    """one family dispatching on several bounded types that are not bare parameters (a sort or
    map keyed on the parameter alone leaves their relative order to the container)"""
    comps = ['Vec<{T0}>', 'Option<{T0}>', '({T0}, {T0})', 'Box<{T0}>', '[{T0}; 2]']
    rng.shuffle(comps)
    comps = comps[:rng.choice([2, 3, 4])]
    g = rng.sample(gp.GROUPS, 3)
    blocks = []
    for i in range(rng.choice([2, 3])):
        slots = gp.mk_slots(rng, ['T0'])
        bounds = [(cm_, 'D', {'G': (g[i] if j == 0 else rng.choice(gp.GROUPS))}, 'where') for j, cm_ in enumerate(comps)]
        rng.shuffle(bounds)
        blocks.append(gp.Block(slots, None, '{T0}', bounds, 'b%d' % i))
    c = gp.Case('composite', 'K', '', blocks, [], {})
    return with_probes(rng, c)


def expanded(prog, env_extra, cwd, wrapper=None):
    so, deps = rc.build_dylib()
    d = os.path.join(cm.CACHE, 'progs')
    os.makedirs(d, exist_ok=True)
    import uuid
    path = os.path.join(d, 'c07_%s.rs' % uuid.uuid4().hex[:10])
    open(path, 'w').write(prog)
    env = dict(os.environ, RUSTC_BOOTSTRAP='1')
    env.update(env_extra)
    cmd = (wrapper or []) + ['rustc', '--edition', '2024', '-Awarnings', '-Zunpretty=expanded', '-L', 'dependency=' + deps,
                            '--extern', 'disjoint_impls=' + so, path]
    r = subprocess.run(cmd, stdout=subprocess.PIPE, stderr=subprocess.PIPE, text=True, env=env, cwd=cwd, timeout=300)
    os.remove(path)
    return r.returncode, r.stdout.replace(path, 'PROG'), r.stderr[-300:]


def run(tier, seed, replay=None):
    rng = random.Random(seed)
    gate = cm.proof_gate(['C07_'])
    exe_hook = cm.build_hook()
    n = 14 if tier == 'quick' else 120
    nproc = 6 if tier == 'quick' else 24
    violations, nontrivial = [], set()
    stats = dict(cases=0, expansions=0, hook_repeats=0, hook_processes=0, audit_files=0)
    # (3) audit
    for root, _, files in os.walk(os.path.join(cm.REPO, 'src')):
        for f in files:
            if f.endswith('.rs') and f != 'verif_hook.rs':
                stats['audit_files'] += 1
                for ln, line in enumerate(open(os.path.join(root, f)), 1):
                    if AUDIT.search(line) and not line.strip().startswith('//'):
                        # an audit hit alone does not exhibit two different expansions: it is reported
                        # like a broken correspondence (no-failing-input-found) unless a case below differs
                        violations.append(dict(kind='correspondence', request='%s:%d' % (os.path.join(root, f), ln),
                                               oracle='corr:audit: order- or environment-dependent API in the expansion code (determinism is no longer shown by C07_hasher_irrelevant + the audit): ' + line.strip()[:200]))
    from .c05 import f16_case
    # the shape of known finding F16: three groupings of the same minimal size (which one is chosen must not
    # depend on the process)
    cases = [tie_case(rng), composite_case(rng), f16_case()]
    kinds = ['multi', 'nested_big', 'tie', 'composite', 'flat', 'nested', 'unsized2', 'tworoots']
    while len(cases) < n:
        k = kinds[len(cases) % len(kinds)]
        c = tie_case(rng) if k == 'tie' else composite_case(rng) if k == 'composite' else with_probes(rng, gen_nested_big(rng)) if k == 'nested_big' else gp.gen_case(rng, k)
        cases.append(c)
    setarch = shutil.which('setarch')
    tmpdirs = [tempfile.mkdtemp(prefix='c07_', dir=cm.CACHE) for _ in range(2)]
    try:
        for c in cases:
            stats['cases'] += 1
            prog = c.macro_program()
            outs = []
            for p in range(nproc):
                env = {'RUST_MIN_STACK': str(8000000 + 4096 * p), 'C07_NOISE_%d' % p: 'x' * (p * 37), 'LANG': ['C', 'en_US.UTF-8'][p % 2],
                       'TZ': ['UTC', 'Asia/Tokyo'][p % 2]}
                wrapper = [setarch, 'x86_64', '-R'] if (setarch and p % 3 == 2) else None
                code, out, err = expanded(prog, env, tmpdirs[p % 2], wrapper)
                if wrapper and code != 0 and 'setarch' in err:
                    code, out, err = expanded(prog, env, tmpdirs[p % 2], None)
                outs.append((code, out))
                stats['expansions'] += 1
            distinct = {o for o in outs}
            if len(distinct) > 1:
                a, b = list(distinct)[:2]
                violations.append(dict(kind='property', request=c.invocation(), program=prog, expansion_a=a[1][-3000:], expansion_b=b[1][-3000:],
                                       oracle='%d different expansions of the same input across %d processes' % (len(distinct), nproc)))
            elif outs[0][0] == 0:
                nontrivial.add(c.invocation())
            # (2) in-process repetition and across hook processes
            req = 'groups\t' + c.invocation().replace('\n', ' ')
            first = None
            for proc in range(3 if tier == 'quick' else 6):
                resp = cm.run_hook([req] * 8, exe_hook)
                stats['hook_repeats'] += 8; stats['hook_processes'] += 1
                for r in resp:
                    if first is None:
                        first = r
                    if r != first:
                        violations.append(dict(kind='property', request=c.invocation(), impl=r[:3000], other=first[:3000],
                                               oracle='the grouping / generated items differ between two expansions of the same input (in-process or across processes)'))
                        break
                else:
                    continue
                break
        # (4) the expansion is a function of the invocation's tokens alone: the same invocation
        # expanded after another, unrelated invocation in the same compiler process gives the same text
        from .c08 import extract_module
        ncontext = 4 if tier == 'quick' else 30
        for i, c in enumerate(cases[:ncontext]):
            other = cases[(i + 1) % len(cases)]
            world = gp.PRELUDE + gp.world_text(dict(list(c.world.items()) + [(k, v) for k, v in other.world.items() if k not in c.world]))
            observed = 'pub mod observed {\n    use super::*;\n    disjoint_impls! {\n%s    }\n}\n' % c.invocation()
            before = 'pub mod before {\n    use super::*;\n    disjoint_impls! {\n%s    }\n}\n' % other.invocation()
            texts = []
            for prog in (world + observed + 'fn main() {}\n', world + before + observed + 'fn main() {}\n'):
                code, out, err = expanded(prog, {}, tmpdirs[0])
                stats['expansions'] += 1
                texts.append(extract_module(out, 'observed') if code == 0 else None)
            stats['context_pairs'] = stats.get('context_pairs', 0) + 1
            if texts[0] is not None and texts[1] is not None and texts[0] != texts[1]:
                violations.append(dict(kind='property', request=c.invocation(), program=world + before + observed + 'fn main() {}\n',
                                       expansion_a=texts[0][-2500:], expansion_b=texts[1][-2500:],
                                       oracle='the expansion of an invocation differs when another invocation was expanded before it in the same compiler process'))
        # ... also for inherent invocations with the same self type spelling (a memo keyed on the
        # self type would hand the second one the first one's helper arguments): `observed` declares
        # an impl lifetime that only its items mention, `before` does not
        wr = 'pub struct Wr<T>(pub core::marker::PhantomData<T>);\n'
        ib = 'pub mod before {\n    use super::*;\n    %s    disjoint_impls! {\n        impl<T: D<G = GA>> Wr<T> { pub const NAME: &\'static str = "a"; }\n        impl<T: D<G = GB>> Wr<T> { pub const NAME: &\'static str = "b"; }\n    }\n}\n' % wr
        io = 'pub mod observed {\n    use super::*;\n    %s    disjoint_impls! {\n        impl<\'a, T: D<G = GA>> Wr<T> { pub fn pick(o: &\'a str) -> &\'a str { o } }\n        impl<\'b, T: D<G = GB>> Wr<T> { pub fn pick(o: &\'b str) -> &\'b str { o } }\n    }\n}\n' % wr
        texts = []
        for prog in (gp.PRELUDE + io + 'fn main() {}\n', gp.PRELUDE + ib + io + 'fn main() {}\n'):
            code, out, err = expanded(prog, {}, tmpdirs[0])
            stats['expansions'] += 1
            texts.append(extract_module(out, 'observed') if code == 0 else None)
        stats['context_pairs'] = stats.get('context_pairs', 0) + 1
        if texts[0] is None or texts[1] is None or texts[0] != texts[1]:
            violations.append(dict(kind='property', request=io, program=gp.PRELUDE + ib + io + 'fn main() {}\n',
                                   expansion_a=(texts[0] or 'does not expand')[-2500:], expansion_b=(texts[1] or 'does not expand')[-2500:],
                                   oracle='the expansion of an inherent invocation differs (or fails) when another inherent invocation over an equally spelled self type was expanded before it in the same compiler process'))
    finally:
        for d in tmpdirs:
            shutil.rmtree(d, ignore_errors=True)
    return finish('C07', tier, seed, gate, cases, stats, nontrivial, violations, set(),
                  rule='accepted invocations chosen so that container order would show (several keys and families, chains/diamonds, a nested member mapping two parameters to one type = several equally good groupings) expanded by the real entry point in %d separate rustc processes each (perturbed environment, working directory, stack size, setarch -R when available) and compared byte-wise; the same invocations expanded 8 times inside each of several hook processes; source audit for order-/environment-dependent APIs; non-trivial = distinct invocation whose expansion compiled' % nproc,
                  samples=[dict(invocation=c.invocation()[:400]) for c in cases[:3]],
                  extra=dict(programs=stats['expansions']))
