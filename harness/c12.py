"""C12 -- dispatch-key identity ignores associated-type bindings and nothing else.
Correspondence: hook op `tb` (TraitBound eq / recorded hash input / printed form) vs the Coq
model (Bounds.v: tb_eqb, tb_hash_input, tb_tokens) and hook `tokens_*` vs Tokens.v.
Property oracles on the implementation's own answers: eq is reflexive/symmetric/transitive on
the enumerated set; eq implies equal hash input; eq iff the paths are textually equal once
bindings are removed (Tr, Tr<>, Tr<A = X> alike); printed form = the path with exactly the
bindings removed."""
import random, json, itertools
from . import common as cm
from . import gen_terms as g
from .c09 import finish

LEADS = ['', 'a::', '::a::b::', '::a::', 'b::']
IDENTS = ['Tr', 'Tq']
ARGS = ["'a", "'b", 'u8', 'Vec<T>', '3', '{ N }', 'A = X', 'A = Y', 'B = X', '_ŠČ0', '[T; 2]']


def is_binding(a):
    return ' = ' in a


def path_text(lead, ident, args):
    if args is None:
        return lead + ident
    return '%s%s<%s>' % (lead, ident, ', '.join(args))


def ordered(args):
    # rustc wants lifetimes first; keep generated paths valid Rust
    if args is None:
        return None
    return tuple(sorted(args, key=lambda a: 0 if a.startswith("'") else 1))


def all_paths(maxlen):
    arglists = [None, ()]
    for n in range(1, maxlen + 1):
        for combo in itertools.product(ARGS, repeat=n):
            arglists.append(ordered(combo))
    arglists = list(dict.fromkeys(arglists))
    return [(l, i, a) for l in LEADS for i in IDENTS for a in arglists]


def ungroup(a):
    # `__G<X>` = X inside an invisible group (a `$t:ty` fragment of macro_rules!): the same argument
    import re
    return re.sub(r'__G<(.*)>$', r'\1', a)


def identity_of(p):
    lead, ident, args = p
    return (lead, ident, tuple(ungroup(a) for a in (args or ()) if not is_binding(a)))


def stripped_text(p):
    lead, ident, args = p
    if args is None:
        return lead + ident
    return '%s%s<%s>' % (lead, ident, ', '.join(a for a in args if not is_binding(a)))


def run(tier, seed, replay=None):
    rng = random.Random(seed)
    gate = cm.proof_gate(['C12_'])
    exe_model = cm.build_model()
    exe_hook = cm.build_hook()
    paths = all_paths(2)
    if replay:
        rp = json.load(open(replay))
        reqs = [rp['request']] if 'request' in rp else []
        meta = [None]
    else:
        reqs, meta = [], []
        if tier == 'quick':
            sel = rng.sample(paths, 140)
            # make sure related spellings are present: for each selected path, variants with
            # bindings added / removed / changed
            extra = []
            for (l, i, a) in sel[:60]:
                base = tuple(x for x in (a or ()) if not is_binding(x))
                for v in (None if not base else base, base, base + ('A = X',), base + ('A = Y', 'B = X'), ('A = X',) + base):
                    extra.append((l, i, ordered(v) if v is not None else None))
            pool = list(dict.fromkeys(sel + extra))
        else:
            pool = paths
        pairs = [(p, q) for p in pool for q in pool] if tier == 'quick' else None
        if pairs is None:
            # thorough: all pairs within each (ident) class plus a sample across
            pairs = [(p, q) for p in pool for q in pool if p[1] == q[1] and (p[0] == q[0] or rng.random() < 0.2)]
            pairs += [(rng.choice(pool), rng.choice(pool)) for _ in range(50000)]
        for p, q in pairs:
            reqs.append('tb\t%s\t%s' % (path_text(*p), path_text(*q))); meta.append(('tb', p, q))
        # arguments that reach the macro inside an invisible group (`$t:ty` of a macro_rules! invocation)
        # denote the same key as the argument spelled in place
        grouped = []
        for (l, i, a) in pool:
            multi = [k for k, x in enumerate(a or ()) if not is_binding(x) and x in ('Vec<T>', '[T; 2]', 'u8')]
            if multi:
                k = multi[0]
                grouped.append(((l, i, a), (l, i, tuple(('__G<%s>' % x) if j == k else x for j, x in enumerate(a)))))
        for p, pg in (grouped if tier != 'quick' else rng.sample(grouped, min(len(grouped), 120))):
            reqs.append('tb\t%s\t%s' % (path_text(*p), path_text(*pg))); meta.append(('tb', p, pg))
            reqs.append('tb\t%s\t%s' % (path_text(*pg), path_text(*p))); meta.append(('tb', pg, p))
        for p in pool:
            reqs.append('tokens_path\t%s' % stripped_text(p)); meta.append(('strip', p, None))
        # the identity where it is used: two blocks whose bounds denote the same key (same path,
        # same arguments, different bindings and binding spellings), the second one under a more
        # specific header so that its bound is re-expressed over the family header before the
        # look-up, must form ONE family
        situ = [p for p in pool if not any(('T' in a and not is_binding(a)) or '_ŠČ' in a for a in (p[2] or ()))]
        for p in (situ if tier != 'quick' else rng.sample(situ, min(len(situ), 160))):
            base = tuple(a for a in (p[2] or ()) if not is_binding(a))
            binds = tuple(a for a in (p[2] or ()) if is_binding(a))
            q1 = path_text(p[0], p[1], base + binds + ('G = GA',))
            q2 = path_text(p[0], p[1], base + tuple(reversed(binds)) + ('G = GB',)) if rng.random() < 0.5 else path_text(p[0], p[1], base + ('G = GB',))
            hdr = rng.choice(['Vec<U>', 'Option<U>', '(U, U)'])
            place1 = rng.random() < 0.5
            split = rng.random() < 0.4
            if split:
                # the first block binds a second associated type too, to the value the second block repeats
                q1 = path_text(p[0], p[1], base + binds + ('G = GA', 'H = X'))
            b1 = ('impl<T: %s> K for T {}' % q1) if place1 else ('impl<T> K for T where T: %s {}' % q1)
            if split:
                # the second block spells its key twice, each time with another binding
                q2a = path_text(p[0], p[1], base + ('H = X',))
                q2b = path_text(p[0], p[1], base + ('G = GB',))
                pieces = [q2a, q2b] if rng.random() < 0.5 else [q2b, q2a]
                if rng.random() < 0.5:
                    # another key written between the two spellings
                    other = [i for i in IDENTS if i != p[1]][0]
                    pieces = [pieces[0], '%s%s<G = GC>' % (p[0], other), pieces[1]]
                b2 = 'impl<U> K for %s where %s {}' % (hdr, (', '.join('%s: %s' % (hdr, q) for q in pieces)) if rng.random() < 0.5 else '%s: %s' % (hdr, ' + '.join(pieces)))
            else:
                b2 = 'impl<U> K for %s where %s: %s {}' % (hdr, hdr, q2)
            blocks = [b1, b2] if rng.random() < 0.5 else [b2, b1]
            reqs.append('groups\tpub trait K {} ' + ' '.join(blocks)); meta.append(('situ', p, None))
        # the model's token printer against syn's ToTokens on random types
        for _ in range(1500 if tier == 'quick' else 20000):
            t = g.rand_type(rng, rng.randrange(1, 4), 3)
            reqs.append('tokens_ty\t%s' % g.show(t)); meta.append(('tok', None, None))
    resp = cm.run_hook(reqs, exe_hook)
    stats = dict(unsupported=0, crash=0, eq_true=0, eq_false=0, tok_skipped=0, tok_checked=0, pairs=0, in_situ=0)
    mreq, midx = [], []
    situ_viol = []
    # the grouping of the in-situ invocations against the Coq model of the family search (which reads the
    # bounds of a block independently: one row per written bound, bindings attached to their own bound)
    situ_idx = [i for i, r in enumerate(resp) if reqs[i].startswith('groups\t') and r.startswith('(Blocks')]
    situ_model = cm.run_model(['search\t' + resp[i].split('\t')[0] for i in situ_idx], exe_model) if situ_idx else []
    for i, m in zip(situ_idx, situ_model):
        if m != resp[i].split('\t')[1]:
            situ_viol.append(dict(kind='correspondence', request=reqs[i], impl=resp[i].split('\t')[1][:3000], model=m[:3000],
                                  oracle='corr:hook/search: keys, rows or members of an in-situ invocation differ from the Coq model of the family search'))
    for i, r in enumerate(resp):
        if reqs[i].startswith('groups\t'):
            stats['in_situ'] += 1
            ok = False
            if r.startswith('(Blocks'):
                from . import sexp2coq as sx
                gtree = sx.parse(r.split('\t')[1])
                ok = len(gtree[2]) == 1 and len(gtree[2][0][2][1][2]) == 2
            if not ok:
                situ_viol.append(dict(kind='property', request=reqs[i], impl=r[:600],
                                      oracle='two blocks whose bounds denote the same dispatch key (same bounded type after re-expression over the family header, same trait path and arguments, only the bindings differ) are not grouped into one family'))
            continue
        if r.startswith('(Unsupported'):
            stats['unsupported'] += 1; continue
        if r.startswith('(Crash'):
            stats['crash'] += 1; continue
        f = r.split('\t')
        if reqs[i].startswith('tb\t'):
            mreq.append('tb\t%s\t%s' % (f[0], f[1])); midx.append(i)
        else:
            mreq.append('tokens\t%s' % f[0]); midx.append(i)
    mresp = cm.run_model(mreq, exe_model)
    per = dict(zip(midx, mresp))
    violations, nontrivial = list(situ_viol), set()
    if not replay:
        # the generated main impl names every dispatch key of a parameter, also when two keys
        # differ only in the trait's argument list or in the qualifying segments of its path
        # (`Dc<1>` / `Dc<2>`, `D` / `legacy::D`, `x::y::Dn` / `y::x::Dn`): the macro's main and
        # helper impls for such invocations are compared with the Coq model of the generator
        from . import gen_prog as gp
        from . import prog_engine as pe
        tk = [gp.gen_case(rng, 'twokeys', idx=k) for k in range(7 if tier == 'quick' else 42)]
        n1, v1 = pe.check_mainimpls([c.invocation() for c in tk])
        n2, v2 = pe.check_genimpls([c.invocation() for c in tk])
        stats['two_key_main_impls_compared'] = n1
        stats['two_key_helper_impls_compared'] = n2
        violations += v1 + v2
    eq_impl, hash_impl, toks_impl, strip_toks = {}, {}, {}, {}
    for i, r in enumerate(resp):
        if reqs[i].startswith('groups\t'):
            continue
        if r.startswith('(Crash'):
            violations.append(dict(kind='crash', request=reqs[i], impl=r, oracle='TraitBound identity must not panic on fragment inputs'))
            continue
        if i not in per:
            continue
        f = r.split('\t')
        m = per[i].split('\t')
        if reqs[i].startswith('tb\t'):
            stats['pairs'] += 1
            impl = ['true' if f[2] == '(Bool "true")' else 'false'] + f[3:]
            if m[0] != 'true':
                stats['tok_skipped'] += 1
            elif impl != m[1:]:
                violations.append(dict(kind='correspondence', request=reqs[i], impl=impl, model=m[1:],
                                       oracle='corr:hook/tb: eq / hash input / printed form differ from the Coq model'))
            if meta[i]:
                _, p, q = meta[i]
                eq_impl[(p, q)] = impl[0] == 'true'
                hash_impl[p] = f[3]; hash_impl[q] = f[4]
                toks_impl[p] = f[5]; toks_impl[q] = f[6]
                stats['eq_true' if impl[0] == 'true' else 'eq_false'] += 1
                if impl[0] == 'true' and p != q:
                    nontrivial.add(reqs[i])
        else:
            if meta[i] and meta[i][0] == 'strip':
                strip_toks[meta[i][1]] = f[1]
            if m[0] != 'true':
                stats['tok_skipped'] += 1
            else:
                stats['tok_checked'] += 1
                if f[1] != m[1]:
                    violations.append(dict(kind='correspondence', request=reqs[i], impl=f[1], model=m[1],
                                           oracle='corr:hook/tokens: syn ToTokens differs from the Coq token printer (Tokens.v)'))
    # property oracles on the implementation's own relation
    def viol(req, what):
        violations.append(dict(kind='property', request=req, oracle=what))
    for (p, q), e in eq_impl.items():
        req = 'tb\t%s\t%s' % (path_text(*p), path_text(*q))
        want = identity_of(p) == identity_of(q)
        if e != want:
            viol(req, 'bounds %s the same dispatch key but eq says %s (identity = same path, same lifetime/type/const arguments, bindings ignored)' % ('denote' if want else 'do not denote', e))
        if e and hash_impl[p] != hash_impl[q]:
            viol(req, 'equal bounds feed different input to the hasher')
        if (q, p) in eq_impl and eq_impl[(q, p)] != e:
            viol(req, 'eq is not symmetric')
    for p in {p for (p, _) in eq_impl}:
        if (p, p) in eq_impl and not eq_impl[(p, p)]:
            viol('tb\t%s\t%s' % (path_text(*p), path_text(*p)), 'eq is not reflexive')
        if p in strip_toks and p in toks_impl and strip_toks[p] != toks_impl[p]:
            viol('tb\t%s\t%s' % (path_text(*p), path_text(*p)), 'the emitted bound is not the user\'s bound with exactly the bindings removed: %s vs %s' % (toks_impl[p], strip_toks[p]))
    # transitivity on the enumerated set (through classes)
    by_first = {}
    for (p, q), e in eq_impl.items():
        if e:
            by_first.setdefault(p, set()).add(q)
    ntrans = 0
    for p, qs in by_first.items():
        for q in qs:
            for r in by_first.get(q, ()):
                ntrans += 1
                if (p, r) in eq_impl and not eq_impl[(p, r)]:
                    viol('tb\t%s\t%s' % (path_text(*p), path_text(*r)), 'eq is not transitive (via %s)' % path_text(*q))
    stats['transitivity_triples'] = ntrans
    cases = reqs
    return finish('C12', tier, seed, gate, cases, stats, nontrivial, violations, set(),
                  rule='trait paths over leading segments %s x idents %s x argument lists (<=2 of %s, plus none and <>): quick = all ordered pairs over a sampled pool closed under adding/removing/changing bindings, thorough = all pairs within a trait name; plus the printed form of every path with its bindings removed and random types for the token printer; non-trivial = distinct pair of different spellings judged equal' % (LEADS, IDENTS, ARGS),
                  samples=[dict(request=reqs[i], impl=resp[i].split('\t')[2:5]) for i in range(0, len(reqs), max(1, len(reqs) // 6))][:6])
