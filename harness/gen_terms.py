"""Generators of Rust type / expression source text over the fragment of DESIGN section 4.
A term is a nested tuple; `show` prints Rust source.  Parameters are `_ŠČ<k>`."""
import itertools, random

PFX = '_ŠČ'

# ---- constructors ----------------------------------------------------------------------
def P(i): return ('P', i)                       # type parameter
def C(name, *args): return ('C', name, args)    # nominal type / path with generic args
def CP(name, ins, out): return ('CP', name, tuple(ins), out)   # name(ins) -> out  (Fn sugar)
def HB(lts, bound): return ('HB', ','.join(lts), bound)   # for<'x, ..> bound (lifetimes as one string)
def Tup(*ts): return ('Tup', ts)
def Ref(lt, mut, t): return ('Ref', lt, mut, t)
def Ptr(mut, t): return ('Ptr', mut, t)
def Slice(t): return ('Slice', t)
def Arr(t, e): return ('Arr', t, e)
def Fn(abi, unsafe, args, ret): return ('Fn', abi, unsafe, tuple(args), ret)
def Named(name, t): return ('Named', name, t)    # a named argument of a fn pointer type: `fn(value: T)`
def Dyn(*bounds): return ('Dyn', bounds)
def Proj(t, tr, a): return ('Proj', t, tr, a)   # <t as tr>::a
def Paren(t): return ('Paren', t)
NEVER = ('Never',)
# generic arguments
def GLt(n): return ('GLt', n)
def GAssoc(n, t): return ('GAssoc', n, t)
def GConst(e): return ('GConstArg', e if e[0] in ('Lit', 'Blk') else ('Blk', e))
# expressions
def Lit(s): return ('Lit', s)
def PE(i): return ('PE', i)
def Cn(name): return ('Cn', name)
def Bin(op, l, r): return ('Bin', op, l, r)
def Un(op, e): return ('Un', op, e)
def ParE(e): return ('ParE', e)
def Blk(e): return ('Blk', e)
def Cast(e, t): return ('Cast', e, t)
def Call(f, *args): return ('Call', f, args)
def Meth(r, m, tf, *args): return ('Meth', r, m, tf, args)
def Idx(e, i): return ('Idx', e, i)
def Fld(e, m): return ('Fld', e, m)
def TupE(*es): return ('TupE', es)
def ArrE(*es): return ('ArrE', es)
def RefE(mut, e): return ('RefE', mut, e)
def Rep(e, n): return ('Rep', e, n)
def If(c, t, e): return ('If', c, t, e)


def is_expr(t):
    return t[0] in ('Lit', 'PE', 'Cn', 'Bin', 'Un', 'ParE', 'Blk', 'Cast', 'Call', 'Meth', 'Idx', 'Fld',
                    'TupE', 'ArrE', 'RefE', 'Rep', 'If')


def show_garg(a):
    k = a[0]
    if k == 'GLt':
        return "'" + a[1]
    if k == 'GAssoc':
        return '%s = %s' % (a[1], show(a[2]))
    if k == 'GConstArg':
        return show_const_arg(a[1])
    if is_expr(a):
        return show_const_arg(a)
    return show(a)


def show_const_arg(e):
    # const generic arguments: literals and blocks directly, anything else braced
    if e[0] in ('Lit', 'Blk'):
        return show(e)
    if e[0] == 'Un' and e[1] == '-' and e[2][0] == 'Lit':
        return show(e)
    return '{ %s }' % show(e)


def show(t):
    k = t[0]
    if k == 'P' or k == 'PE':
        return PFX + str(t[1])
    if k == 'C':
        if t[2]:
            return '%s<%s>' % (t[1], ', '.join(show_garg(a) for a in t[2]))
        return t[1]
    if k == 'HB':
        return 'for<%s> %s' % (', '.join("'" + l for l in t[1].split(',')), show(t[2]))
    if k == 'CP':
        return '%s(%s)%s' % (t[1], ', '.join(show(x) for x in t[2]), '' if t[3] is None else ' -> ' + show(t[3]))
    if k == 'Tup':
        if len(t[1]) == 1:
            return '(%s,)' % show(t[1][0])
        return '(%s)' % ', '.join(show(x) for x in t[1])
    if k == 'Ref':
        return '&%s%s%s' % (("'" + t[1] + ' ') if t[1] else '', 'mut ' if t[2] else '', show(t[3]))
    if k == 'Ptr':
        return '*%s %s' % ('mut' if t[1] else 'const', show(t[2]))
    if k == 'Slice':
        return '[%s]' % show(t[1])
    if k == 'Arr':
        return '[%s; %s]' % (show(t[1]), show(t[2]))
    if k == 'Fn':
        abi = {None: '', '': 'extern ', 'C': 'extern "C" ', 'system': 'extern "system" '}[t[1]]
        ret = '' if t[4] is None else ' -> ' + show(t[4])
        return '%s%sfn(%s)%s' % ('unsafe ' if t[2] else '', abi, ', '.join(show(x) for x in t[3]), ret)
    if k == 'Named':
        return '%s: %s' % (t[1], show(t[2]))
    if k == 'Dyn':
        return 'dyn ' + ' + '.join(("'" + b[1]) if b[0] == 'GLt' else show(b) for b in t[1])
    if k == 'Proj':
        return '<%s as %s>::%s' % (show(t[1]), show(t[2]), t[3])
    if k == 'Paren':
        return '(%s)' % show(t[1])
    if k == 'Never':
        return '!'
    # expressions
    if k == 'Lit':
        return t[1]
    if k == 'Cn':
        return t[1]
    if k == 'Bin':
        return '%s %s %s' % (show_operand(t[2]), t[1], show_operand(t[3]))
    if k == 'Un':
        return '%s%s' % (t[1], show_operand(t[2]))
    if k == 'ParE':
        return '(%s)' % show(t[1])
    if k == 'Blk':
        return '{ %s }' % show(t[1])
    if k == 'Cast':
        return '%s as %s' % (show_operand(t[1]), show(t[2]))
    if k == 'Call':
        return '%s(%s)' % (show(t[1]), ', '.join(show(x) for x in t[2]))
    if k == 'Meth':
        tf = '' if t[3] is None else '::<%s>' % ', '.join(show_garg(a) for a in t[3])
        return '%s.%s%s(%s)' % (show_operand(t[1]), t[2], tf, ', '.join(show(x) for x in t[4]))
    if k == 'Idx':
        return '%s[%s]' % (show_operand(t[1]), show(t[2]))
    if k == 'Fld':
        return '%s.%s' % (show_operand(t[1]), t[2])
    if k == 'TupE':
        if len(t[1]) == 1:
            return '(%s,)' % show(t[1][0])
        return '(%s)' % ', '.join(show(x) for x in t[1])
    if k == 'ArrE':
        return '[%s]' % ', '.join(show(x) for x in t[1])
    if k == 'RefE':
        return '&%s%s' % ('mut ' if t[1] else '', show_operand(t[2]))
    if k == 'Rep':
        return '[%s; %s]' % (show(t[1]), show(t[2]))
    if k == 'If':
        return 'if %s { %s } else { %s }' % (show(t[1]), show(t[2]), show(t[3]))
    raise ValueError(t)


def show_operand(e):
    # keep the tree shape: compound operands are only generated wrapped (ParE) or atomic,
    # so printing never changes the AST through precedence.
    return show(e)


def atomic(e):
    return e[0] in ('Lit', 'PE', 'Cn', 'ParE', 'Call', 'TupE', 'ArrE', 'Idx', 'Fld', 'Meth')


# ---- substitution on generator terms -----------------------------------------------------
def subst(t, sigma):
    """sigma: dict index -> term (type or expr); parameters not in sigma stay."""
    if not t:
        return t
    k = t[0]
    if k == 'P' and t[1] in sigma:
        return sigma[t[1]]
    if k == 'PE' and t[1] in sigma:
        return sigma[t[1]]
    if isinstance(t, tuple):
        return tuple(subst(x, sigma) if isinstance(x, tuple) else x for x in t)
    return t


def params_of(t, acc=None):
    acc = [] if acc is None else acc
    if isinstance(t, tuple):
        if t and t[0] in ('P', 'PE'):
            if t[1] not in acc:
                acc.append(t[1])
        else:
            for x in t:
                if isinstance(x, tuple):
                    params_of(x, acc)
    return acc


def size(t):
    if not isinstance(t, tuple):
        return 0
    if t and isinstance(t[0], str):
        return 1 + sum(size(x) for x in t[1:] if isinstance(x, tuple))
    return sum(size(x) for x in t)


# ---- exhaustive small scope ----------------------------------------------------------------
def small_exprs(budget, nparams=2):
    """all const expressions up to `budget` nodes over a small alphabet"""
    out = {1: [Lit('1'), Lit('3'), Cn('N'), PE(2), PE(3)]}
    for n in range(2, budget + 1):
        cur = []
        for e in out[n - 1]:
            cur.append(ParE(e))
            cur.append(Blk(e))
            if atomic(e):
                cur.append(Un('-', e))
        for ln in range(1, n - 1):
            rn = n - 1 - ln
            if rn < 1:
                continue
            for l in out.get(ln, []):
                for r in out.get(rn, []):
                    if atomic(l) and atomic(r):
                        for op in ('+', '-', '<', '&&'):
                            cur.append(Bin(op, l, r))
        out[n] = cur
    return [e for n in sorted(out) for e in out[n]]


def small_types(budget, nparams=2, with_exprs=True):
    """all types up to `budget` nodes over a small alphabet (exhaustive)"""
    leaves = [P(i) for i in range(nparams)] + [C('u8'), C('X')]
    out = {1: list(leaves)}
    exprs1 = [Lit('3'), Cn('N'), PE(2)]
    for n in range(2, budget + 1):
        cur = []
        for t in out[n - 1]:
            cur += [C('Vec', t), Ref(None, False, t), Ref('a', False, t), Ref(None, True, t), Ptr(False, t), Ptr(True, t),
                    Slice(t), Paren(t), Tup(t), Fn(None, False, [t], None), Fn(None, False, [], t),
                    Fn('C', False, [t], None), Fn('', False, [t], None),
                    Dyn(C('Tr', t)), Dyn(C('Tr', GAssoc('A', t))), Proj(t, C('Tr'), 'A'), C('m::W', t), C('::m::W', t),
                    Dyn(CP('Fn', [t], None)), Dyn(CP('Fn', [], t)), Proj(C('X'), C('Tr', t), 'A'),
                    Dyn(HB(['x'], C('Tr', t))), Dyn(HB(['x', 'y'], C('Tr', t)))]
            if with_exprs:
                for e in exprs1:
                    cur.append(Arr(t, e))
                cur.append(C('Foo', t, GConst(Lit('3'))))
        for ln in range(1, n - 1):
            rn = n - 1 - ln
            for l in out.get(ln, []):
                for r in out.get(rn, []):
                    cur.append(Tup(l, r))
                    cur.append(C('Foo', l, r))
        out[n] = cur
    return [t for n in sorted(out) for t in out[n]]


# ---- random generation ------------------------------------------------------------------------
GROUND = [C('u8'), C('i32'), C('String'), C('X'), C('m::Y'), Tup(), C('Vec', C('u8')), Ref('a', False, C('str'))]


def rand_expr(rng, depth, nparams, allow_params=True):
    if depth <= 0 or rng.random() < 0.3:
        c = rng.random()
        if allow_params and nparams and c < 0.35:
            return PE(rng.choice([2, 2, 3]))
        if c < 0.7:
            return Lit(rng.choice(['0', '1', '3', '12', '3usize', 'true', "'c'"]))
        return Cn(rng.choice(['N', 'M', 'm::K', 'usize::MAX']))
    k = rng.choice(['Bin', 'Bin', 'Un', 'ParE', 'Blk', 'Cast', 'Call', 'Meth', 'Idx', 'Fld', 'TupE', 'ArrE', 'RefE', 'Rep', 'If'])
    sub = lambda: rand_expr(rng, depth - 1, nparams, allow_params)
    at = lambda: (lambda e: e if atomic(e) else ParE(e))(sub())
    if k == 'Bin':
        return Bin(rng.choice(['+', '-', '*', '/', '%', '&', '|', '^', '<<', '==', '<', '<=', '>', '>=', '&&', '||', '!=', '>>']), at(), at())
    if k == 'Un':
        return Un(rng.choice(['-', '!']), at())
    if k == 'ParE':
        return ParE(sub())
    if k == 'Blk':
        return Blk(sub())
    if k == 'Cast':
        return Cast(at(), rng.choice([C('usize'), C('u8'), P(0) if allow_params and nparams else C('i64')]))
    if k == 'Call':
        return Call(Cn(rng.choice(['f', 'm::g'])), *[sub() for _ in range(rng.randrange(3))])
    if k == 'Meth':
        tf = rng.choice([None, None, (C('u8'),), (rand_type(rng, 1, nparams, allow_params),)])
        return Meth(at(), rng.choice(['len', 'pow']), tf, *[sub() for _ in range(rng.randrange(2))])
    if k == 'Idx':
        return Idx(at(), sub())
    if k == 'Fld':
        return Fld(at(), rng.choice(['x', '0']))
    if k == 'TupE':
        return TupE(*[sub() for _ in range(rng.randrange(3))])
    if k == 'ArrE':
        return ArrE(*[sub() for _ in range(rng.randrange(1, 3))])
    if k == 'RefE':
        return RefE(rng.random() < 0.3, at())
    if k == 'Rep':
        return Rep(sub(), sub())
    return If(sub(), sub(), sub())


def rand_type(rng, depth, nparams, allow_params=True, exprs=True):
    if depth <= 0 or rng.random() < 0.25:
        if allow_params and nparams and rng.random() < 0.5:
            return P(rng.randrange(2))
        return rng.choice(GROUND)
    sub = lambda: rand_type(rng, depth - 1, nparams, allow_params, exprs)
    k = rng.choice(['C1', 'C2', 'Tup', 'Ref', 'Ptr', 'Slice', 'Arr', 'Fn', 'Dyn', 'Proj', 'Paren', 'Never', 'CArgs'])
    if k == 'C1':
        return C(rng.choice(['Vec', 'Option', 'Box', 'm::W', '::m::W']), sub())
    if k == 'C2':
        return C(rng.choice(['Foo', 'Result']), sub(), sub())
    if k == 'Tup':
        return Tup(*[sub() for _ in range(rng.randrange(4))])
    if k == 'Ref':
        return Ref(rng.choice([None, 'a', 'b', '_', 'static']), rng.random() < 0.3, sub())
    if k == 'Ptr':
        return Ptr(rng.random() < 0.5, sub())
    if k == 'Slice':
        return Slice(sub())
    if k == 'Arr':
        if exprs:
            return Arr(sub(), rand_expr(rng, 2, nparams, allow_params))
        return Arr(sub(), Lit('3'))
    if k == 'Fn':
        named = rng.random() < 0.3      # `fn(value: T, other: U)`: names are part of the syntax tree
        return Fn(rng.choice([None, None, '', 'C', 'system']), rng.random() < 0.2,
                  [(Named(['value', 'other', 'x'][i], sub()) if named else sub()) for i in range(rng.randrange(3))], rng.choice([None, sub()]))
    if k == 'Dyn':
        bounds = [C(rng.choice(['Tr', 'm::Tq']), *([sub()] if rng.random() < 0.6 else []),
                    *([GAssoc('A', sub())] if rng.random() < 0.5 else []))]
        if rng.random() < 0.3:
            bounds = [CP(rng.choice(['Fn', 'FnMut', 'm::Fq']), [sub() for _ in range(rng.randrange(3))],
                         sub() if rng.random() < 0.7 else None)]
        if rng.random() < 0.2:
            # higher-ranked bound: for<'x> Tr<&'x T>
            lts = rng.choice([['x'], ['x', 'y']])
            bounds = [HB(lts, C(rng.choice(['Tr', 'm::Tq']), Ref('x', False, sub())))]
        if rng.random() < 0.4:
            bounds.append(C('Send'))
        if rng.random() < 0.3:
            bounds.append(GLt(rng.choice(['a', 'static'])))
        return Dyn(*bounds)
    if k == 'Proj':
        if rng.random() < 0.5:
            return Proj(sub(), C(rng.choice(['Tr', 'm::Conv']), sub()), rng.choice(['A', 'Out']))
        return Proj(sub(), C(rng.choice(['Tr', 'Iterator'])), rng.choice(['A', 'Item']))
    if k == 'Paren':
        return Paren(sub())
    if k == 'Never':
        return NEVER
    # nominal with mixed generic arguments: lifetimes first, then types/consts
    args = []
    if rng.random() < 0.5:
        args.append(GLt(rng.choice(['a', 'b', '_', 'static'])))
    args.append(sub())
    if rng.random() < 0.6:
        if exprs:
            if allow_params and rng.random() < 0.3:
                args.append(P(2))     # a const parameter in argument position parses as a type
            else:
                args.append(GConst(rand_expr(rng, 1, nparams, allow_params)))
        else:
            args.append(GConst(Lit('3')))
    if rng.random() < 0.3:
        args.append(GAssoc('A', sub()))
    return C(rng.choice(['W', 'm::Gen']), *args)


def corrupt(rng, t):
    """single-point corruption of a generator term (for negative cases)"""
    spots = []

    def walk(x, path):
        if isinstance(x, tuple):
            if x and isinstance(x[0], str):
                spots.append(path)
            for i, y in enumerate(x):
                walk(y, path + (i,))
    walk(t, ())
    path = rng.choice(spots)

    def rebuild(x, path):
        if not path:
            return mutate(rng, x)
        return tuple(rebuild(y, path[1:]) if i == path[0] else y for i, y in enumerate(x))
    return rebuild(t, path)


def mutate(rng, x):
    k = x[0]
    if k == 'Ref':
        c = rng.randrange(3)
        if c == 0:
            return Ref(x[1], not x[2], x[3])
        if c == 1:
            return Ref('b' if x[1] != 'b' else 'c', x[2], x[3])
        return Ptr(x[2], x[3])
    if k == 'Ptr':
        return Ptr(not x[1], x[2])
    if k == 'Named':
        return x[2] if rng.random() < 0.5 else Named(x[1] + 'q', x[2])
    if k == 'Tup':
        return Tup(*(x[1] + (C('u8'),))) if rng.random() < 0.5 or not x[1] else Tup(*x[1][:-1])
    if k == 'C':
        c = rng.randrange(5)
        if c == 0:
            return C(x[1] + 'x', *x[2])
        if c == 1 and x[2]:
            return C(x[1], *x[2][:-1])
        if c >= 3:
            # a surplus trailing argument on the instance's side (a defaulted parameter written out)
            return C(x[1], *(tuple(x[2]) + (Tup(C('i8')) if c == 3 else C('u8'),)))
        return C('q::' + x[1], *x[2])
    if k == 'HB':
        lts = x[1].split(',')
        return HB(lts + ['z'], x[2]) if rng.random() < 0.5 else HB(lts[:-1] or ['w'], x[2])
    if k == 'CP':
        c = rng.randrange(3)
        if c == 0:
            return CP(x[1], x[2] + (C('u8'),), x[3])
        if c == 1:
            return CP(x[1], x[2], None if x[3] is not None else C('u8'))
        return CP(x[1] + 'x', x[2], x[3])
    if k == 'Arr':
        return Arr(x[1], Bin('+', x[2] if atomic(x[2]) else ParE(x[2]), Lit('1')))
    if k == 'Slice':
        return Arr(x[1], Lit('3'))
    if k == 'Fn':
        c = rng.randrange(3)
        if c == 0:
            return Fn(x[1], not x[2], x[3], x[4])
        if c == 1:
            return Fn(x[1], x[2], x[3] + (C('u8'),), x[4])
        return Fn('system' if x[1] != 'system' else None, x[2], x[3], x[4])
    if k == 'Lit':
        return Lit(x[1] + '0' if x[1][0].isdigit() else '7')
    if k == 'Bin':
        if rng.random() < 0.5:
            return Bin(x[1], x[3], x[2])      # operands swapped: only a commutative operator may still match
        return Bin('-' if x[1] != '-' else '/', x[2], x[3])
    if k == 'Un':
        return Un('!' if x[1] == '-' else '-', x[2])
    if k == 'GLt':
        return GLt(x[1] + 'x')
    if k == 'GAssoc':
        return GAssoc(x[1] + 'x', x[2])
    if k == 'GConstArg':
        return GConst(mutate(rng, x[1]))
    if k == 'Proj':
        return Proj(x[1], x[2], x[3] + 'x')
    if k == 'Meth':
        return Meth(x[1], x[2] + 'x', x[3], *x[4])
    if k == 'Fld':
        return Fld(x[1], x[2] + '1')
    if k == 'Paren':
        return Tup(x[1])
    if k in ('P', 'PE'):
        return (k, x[1])
    if is_expr(x):
        return Un('-', x if atomic(x) else ParE(x))
    return Tup(x)
