"""C17 -- inherent mode fidelity: items of the selected block are inherent items of the local
type with the visibility the user wrote; families for different self-type instantiations
(const / lifetime arguments) coexist; a type matching no block has no such items.
Programs: shadow traits (rustc's verdict on which block a probe satisfies), a positive program
reading pub items from outside the module and private ones from inside, and negative programs
that must NOT compile (item of a probe matching no block: E0599; private item from outside:
E0624/E0603)."""
import random, json
from . import common as cm
from . import gen_prog as gp
from . import prog_engine as pe
from . import rustc_engine as rc
from .c09 import finish

STRUCTS = {
    'w1': ('pub struct Wr<T>(pub core::marker::PhantomData<T>);', ['{T0}'], 'Wr<{T0}>'),
    'w2': ("pub struct Wr<'a, T, const N: usize>(pub core::marker::PhantomData<&'a T>);", None, "Wr<{L0}, {T0}, {C}>"),
    'w3': ('pub struct Wr<const N: usize, T>(pub core::marker::PhantomData<T>);', None, 'Wr<{C}, {T0}>'),
    'w4': ('pub struct Wr<T, U>(pub core::marker::PhantomData<(T, U)>);', None, 'Wr<{T0}, {T1}>'),
    'w5': ("pub struct Wr<'a, T, const N: usize>(pub core::marker::PhantomData<&'a T>);", None, "Wr<{L0}, ({T0}, {T1}), {C}>"),
    'w6': ('pub struct Wr<T, U: ?Sized>(pub core::marker::PhantomData<T>, pub core::marker::PhantomData<U>);', None, 'Wr<{T0}, {T1}>'),
    # the dispatched parameter itself may be unsized
    'w7': ('pub struct Wr<T: ?Sized>(pub core::marker::PhantomData<Box<T>>);', None, 'Wr<{T0}>'),
    # two lifetime parameters, declared by the blocks in any order; an item mentions the second one
    'w8': ("pub struct Wr<'a, 'b, T>(pub core::marker::PhantomData<(&'a T, &'b T)>);", None, "Wr<{L0}, {L1}, {T0}>"),
}


class ICase:
    pass


def gen(rng, idx=None, structs=None):
    c = ICase()
    pk = gp.Picker(rng, idx)
    sk = pk.choice(structs or list(STRUCTS))
    decl, _, self_tmpl = STRUCTS[sk]
    tr = rng.choice(['D', 'D2'])
    consts = rng.sample(['12', '14'], rng.choice([1, 2])) if '{C}' in self_tmpl else [None]
    generic_const = '{C}' in self_tmpl and pk.choice([False, True, False])
    ngroups = pk.choice([3, 2])
    blocks = []
    for fi, cval in enumerate(consts):
        groups = rng.sample(gp.GROUPS, ngroups)
        for g in groups:
            used = [s for s in ['L0', 'L1', 'T0', 'T1'] if '{%s}' % s in self_tmpl]
            slots = gp.mk_slots(rng, used)
            if generic_const:
                slots['N0'] = ('const', rng.choice(['N', 'M', 'LEN']))
            order = list(slots); rng.shuffle(order)
            order = [x for x in order if x[0] == 'L'] + [x for x in order if x[0] != 'L']
            self_fmt = self_tmpl.replace('{C}', '{N0}' if generic_const else (cval or ''))
            bounds = [('{T0}', tr, {'G': g}, rng.choice(['inline', 'where']))]
            if 'T1' in slots and rng.random() < 0.5:
                bounds.append(('{T1}', 'D', {}, rng.choice(['inline', 'where'])))
            b = gp.Block({x: slots[x] for x in order}, None, self_fmt, bounds, 'b%d' % len(blocks))
            if sk == 'w8':
                b.of_lifetime = '{L1} '
                # an outlives relation between the two lifetimes, written inline by this block only
                b.lt_bounds = rng.choice([{}, {'L0': 'L1'}, {'L1': 'L0'}, {'L0': 'L1'}])
            if sk == 'w6':
                b.bounds = [bd for bd in b.bounds if bd[0] != '{T1}']
            blocks.append(b)
        if generic_const:
            break
    nested_self = None
    nested2 = None
    if generic_const and rng.random() < 0.6:
        # a member for one concrete const argument nested under the family of the generic one
        used_groups = {bd[2].get('G') for b in blocks for bd in b.bounds}
        free = [x for x in gp.GROUPS + ['GD'] if x not in used_groups]
        used = [s_ for s_ in ['L0', 'T0', 'T1'] if '{%s}' % s_ in self_tmpl]
        slots = gp.mk_slots(rng, used)
        order = list(slots); rng.shuffle(order)
        order = [x for x in order if x[0] == 'L'] + [x for x in order if x[0] != 'L']
        blocks.append(gp.Block({x: slots[x] for x in order}, None, self_tmpl.replace('{C}', '12'), [('{T0}', tr, {'G': free[0]}, 'where')], 'bn'))
    nest_plan = pk.choice(['two', 'one', 'none']) if sk == 'w4' else 'none'
    if sk == 'w4' and nest_plan != 'none':   # (w6 has no nested members: T1 may be unsized)
        # a nested member: a more specific self type re-expressing the family's key
        used_groups = {bd[2].get('G') for b in blocks for bd in b.bounds}
        free = [x for x in gp.GROUPS + ['GD'] if x not in used_groups]
        slots = gp.mk_slots(rng, ['T0', 'T1'])
        order = list(slots); rng.shuffle(order)
        nested_self = 'Wr<Vec<{T0}>, {T1}>'
        blocks.append(gp.Block({x: slots[x] for x in order}, None, nested_self, [('Vec<{T0}>', tr, {'G': free[0]}, 'where')], 'bn'))
        if len(free) > 1 and nest_plan == 'two':
            # a second nested member (same or another more specific header)
            slots2 = gp.mk_slots(rng, ['T0', 'T1'])
            self2 = rng.choice([nested_self, 'Wr<Option<{T0}>, {T1}>'])
            key2 = self2[3:].split(',')[0]
            blocks.append(gp.Block(slots2, None, self2, [(key2, tr, {'G': free[1]}, 'where')], 'bm'))
            nested2 = self2
        else:
            nested2 = None
    rng.shuffle(blocks)
    for i, b in enumerate(blocks):
        b.tag = 'b%d' % i
    if (idx % 5 == 3) if idx is not None else (rng.random() < 0.25):
        # the blocks name the type through a path (fixed findings F33/F34)
        for b in blocks:
            b.self_ty = 'self::' + b.self_ty
    if sk in ('w6', 'w7'):
        # the struct's last parameter may be unsized: which blocks relax it (inline / where) is
        # planned by position, so that "only a later block relaxes" and "only the first" both occur
        slot = 'T1' if sk == 'w6' else 'T0'
        plan = pk.choice(['not_first', 'random', 'first_only', 'all', 'last_only'])
        for i, b in enumerate(blocks):
            on = {'not_first': i > 0, 'first_only': i == 0, 'all': True, 'last_only': i == len(blocks) - 1,
                  'random': rng.random() < 0.6}[plan]
            b.relaxed = {slot: rng.choice(['inline', 'where'])} if on else {}
    if ((idx % 4 == 1) if idx is not None else (rng.random() < 0.25)) and len(set((b.self_ty, len(b.slots)) for b in blocks)) == 1:
        # (only when every block has the same header: with a nested member or another number of
        # header parameters the expansion does not compile, known finding F37)
        for i, b in enumerate(blocks):
            b.item_lt = "'i%d" % i
    c.blocks = blocks
    c.decl = decl
    # probes: instantiate
    atoms = gp.ATOMS[:3]
    cvals = ['12', '14', '16'] if '{C}' in self_tmpl else ['']
    probes = []
    for cv in cvals:
        for a in atoms:
            for b2 in (atoms[:2] if '{T1}' in self_tmpl else ['']):
                probes.append(self_tmpl.replace('{C}', cv).format(L0="'static", L1="'static", T0=a, T1=b2))
    rng.shuffle(probes)
    c.probes = probes[:8]
    if sk == 'w6':
        c.probes = probes[:5] + [self_tmpl.format(T0=a, T1=u) for a in atoms[:2] for u in ('str', '[u8]')]
    if sk == 'w7':
        c.probes = probes[:5] + [self_tmpl.format(T0=u) for u in ('str', '[u8]')]
    if nested_self:
        c.probes = c.probes[:6] + [nested_self.format(T0=a, T1=b2) for a in atoms[:2] for b2 in atoms[:1]]
        if sk == 'w4' and nested2 and nested2 != nested_self:
            c.probes += [nested2.format(T0=a, T1=atoms[0]) for a in atoms[:2]]
    world = {}
    for a in atoms:
        world[(a, tr)] = {x: rng.choice(gp.GROUPS) for x in gp.TRAITS[tr]} if rng.random() < 0.85 else None
        world[(a, 'D')] = world.get((a, 'D')) or ({'G': rng.choice(gp.GROUPS)} if rng.random() < 0.8 else None)
        if nested_self:
            world[('Vec<%s>' % a, tr)] = {x: rng.choice(gp.GROUPS + ['GD']) for x in gp.TRAITS[tr]} if rng.random() < 0.9 else None
            world[('Option<%s>' % a, tr)] = {x: rng.choice(gp.GROUPS + ['GD']) for x in gp.TRAITS[tr]} if rng.random() < 0.9 else None
    if sk == 'w7':
        for u in ('str', '[u8]'):
            world[(u, tr)] = {x: rng.choice([bd[2].get('G') for b in blocks for bd in b.bounds if bd[2].get('G')] + gp.GROUPS[:1]) for x in gp.TRAITS[tr]} if rng.random() < 0.9 else None
    c.world = world
    return c


def first_type_arg(self_ty):
    """the first argument of the self type that mentions a type slot, e.g. 'Vec<{T0}>' in
    'Wr<Vec<{T0}>, {T1}>' (what the struct's first type parameter is instantiated with)"""
    inner = self_ty[self_ty.index('<') + 1:self_ty.rindex('>')]
    args, depth, cur = [], 0, ''
    for ch in inner:
        if ch in '<([':
            depth += 1
        elif ch in '>)]':
            depth -= 1
        if ch == ',' and depth == 0:
            args.append(cur.strip()); cur = ''
        else:
            cur += ch
    args.append(cur.strip())
    return next(a for a in args if '{T' in a)


def block_text(b):
    # `of` mentions a type parameter of the block in its signature (parameter order matters)
    ilt = getattr(b, 'item_lt', None)
    if ilt:
        # an impl-level lifetime that only the items mention (legal: unconstrained lifetimes are),
        # spelled differently by every block
        g = b.generics()
        g = ('<%s, %s' % (ilt, g[1:])) if g.startswith('<') else '<%s>' % ilt
        text = block_text_with(b, g)
        return text[:text.rindex('}')] + '    pub fn il(_x: &%s u8) -> u8 { %d }\n}\n' % (ilt, int(b.tag[1:]) + 1)
    return block_text_with(b, b.generics())


def block_text_with(b, generics):
    return 'impl%s %s%s {\n    pub const NAME: &\'static str = "%s";\n    const SECRET: u8 = %d;\n    pub fn f() -> &\'static str { "%s" }\n    pub fn of(_x: Option<&%s%s>) -> u8 { %d }\n    pub(crate) fn pc() -> u8 { %d }\n}\n' % (
        generics, b.fmt(b.self_ty), b.where(), b.tag, int(b.tag[1:]) + 1, b.tag, b.fmt(getattr(b, 'of_lifetime', '')), b.fmt(first_type_arg(b.self_ty)), int(b.tag[1:]) + 1, int(b.tag[1:]) + 1)


def invocation(c, order=None):
    blocks = c.blocks if order is None else [c.blocks[i] for i in order]
    return ''.join(block_text(b) for b in blocks)


def module(c, inside_fns):
    return 'pub mod m {\n    use super::*;\n    %s\n    disjoint_impls! {\n%s    }\n%s}\n' % (c.decl, invocation(c), inside_fns)


def shadow_program(c):
    src = gp.PRELUDE + gp.world_text(c.world) + 'pub mod m { use super::*; %s }\nuse m::Wr;\n' % c.decl
    for i, b in enumerate(c.blocks):
        src += 'pub trait S%d {}\nimpl%s S%d for %s%s {}\n' % (i, b.generics(), i, b.fmt(b.self_ty), b.where())
    lines = []
    for j, ty in enumerate(c.probes):
        for i in range(len(c.blocks)):
            lines.append('    println!("S%d_%d {}", impls!(%s: S%d));' % (j, i, ty, i))
    return src + 'fn main() {\n%s\n}\n' % '\n'.join(lines)


def positive_program(c, implemented):
    inside = ''.join('    pub fn secret_%d() -> u8 { <%s>::SECRET }\n' % (j, c.probes[j]) for j in implemented)
    src = gp.PRELUDE + gp.world_text(c.world) + module(c, inside) + 'use m::Wr;\n'
    lines = ['    println!("V%d {} {} {} {} {}", <%s>::NAME, <%s>::f(), m::secret_%d(), <%s>::of(None), <%s>::pc());' % (j, c.probes[j], c.probes[j], j, c.probes[j], c.probes[j]) for j in implemented]
    return src + 'fn main() {\n%s\n}\n' % '\n'.join(lines)


def negative_program(c, line):
    src = gp.PRELUDE + gp.world_text(c.world) + module(c, '') + 'use m::Wr;\n'
    return src + 'fn main() {\n    %s\n}\n' % line


def run(tier, seed, replay=None):
    rng = random.Random(seed)
    gate = cm.proof_gate(['C17_'])
    n = 36 if tier == 'quick' else 600
    if replay:
        rp = json.load(open(replay))
        if 'program' in rp:
            r = rc.compile_run(rp['program'])
            print('replay: compiles=%s errors=%s stdout=%s' % (r['ok'], r['errors'][:3], r.get('stdout', '')[:300]))
        return 0, dict(evaluations=1, distinct_nontrivial=0, obligations=len(gate['theorems']), discharged=len(gate['theorems']), checker_cmd='replay', trusted_base=[]), 0
    cases, stats, nontrivial, violations = core(rng, n)
    ncmp, gviol = pe.check_genimpls([invocation(c) for c in cases])
    stats['helper_impls_compared'] = ncmp
    violations += gviol
    ncmp2, mviol = pe.check_mainimpls([invocation(c) for c in cases])
    stats['main_impls_compared'] = ncmp2
    violations += mviol
    return finish('C17', tier, seed, gate, cases, stats, nontrivial, violations, set(KNOWN_LINES),
                  rule=RULE,
                  samples=[dict(invocation=invocation(c)[:500], probes=c.probes[:3]) for c in cases[:3]],
                  extra=dict(programs=stats['programs']))


KNOWN_LINES = set()
RULE = 'generated inherent-mode invocations over local generic types (type / lifetime+type+const / const-before-type / two type parameters / tuple argument), 1-2 families for different const arguments or a generic const parameter, random parameter spelling, declaration order and bound placement; per case: shadow-trait program, a positive program reading pub items from outside and the private item from inside the module, negative programs (item of a probe matching no block; private item from outside) that must not compile; non-trivial = distinct accepted invocation with an implemented probe'


def core(rng, n, cases=None):
    cases = cases if cases is not None else [gen(rng, idx=i) for i in range(n)]
    n = len(cases)
    corpus_violations = []
    import os
    cdir = os.path.join(cm.ROOT, 'corpus', 'C17')
    for f in sorted(os.listdir(cdir)) if os.path.isdir(cdir) else []:
        src = open(os.path.join(cdir, f)).read()
        r = rc.compile_run(src, run=False)
        if f.startswith('known_'):
            # witness of a recorded (not repaired) finding, known_<class>_*.rs: KNOWN-FINDING while
            # it still fails to compile and known_findings.json lists the class, else as below
            cls = f.split('_')[1].upper()
            k = next((k for k in cm.load_known() if k['property'] == 'C17' and k['status'] == 'known' and k['class'].upper() == cls), None)
            if r['ok']:
                continue
            if k and (not k.get('error_code') or any(k['error_code'] in e for e in r['errors'])):
                KNOWN_LINES.add('KNOWN-FINDING: property=C17 %s: %s' % (k['class'], k['what']))
                continue
        if not f.endswith('_must_not_compile.rs') and not r['ok']:
            corpus_violations.append(dict(kind='property', request='corpus/C17/' + f, program=src, errors=r['errors'][:4],
                                          oracle='a corpus program of a fixed inherent-mode finding no longer compiles: %s' % r['errors'][:2]))
        if f.endswith('_must_not_compile.rs') and r['ok']:
            corpus_violations.append(dict(kind='property', request='corpus/C17/' + f, program=src, oracle='fixed finding F7 is back: inherent blocks disagreeing on an item\'s visibility are accepted (a private item becomes reachable from outside the module)'))
    shadow = rc.compile_many([shadow_program(c) for c in cases])
    stats = dict(cases=n, programs=n, shadow_invalid=0, rejected=0, probes=0, implemented=0, values_checked=0, negative_none=0, negative_private=0)
    violations, nontrivial = list(corpus_violations), set()
    pos_jobs, neg_jobs = [], []
    tables = {}
    for ci, (c, r) in enumerate(zip(cases, shadow)):
        if not (r['ok'] and r.get('run_ok')):
            stats['shadow_invalid'] += 1
            continue
        S = {}
        for k, v in pe.parse_table(r['stdout'], 'S').items():
            j, b = k.split('_')
            S.setdefault(int(j), [])
            if v == 'true':
                S[int(j)].append(int(b))
        tables[ci] = S
        stats['probes'] += len(S)
        if any(len(a) > 1 for a in S.values()):
            continue
        impl = sorted(j for j, a in S.items() if len(a) == 1)
        none = sorted(j for j, a in S.items() if len(a) == 0)
        pos_jobs.append((ci, impl, positive_program(c, impl)))
        if none:
            j = none[0]
            neg_jobs.append((ci, 'none', j, negative_program(c, 'let _ = <%s>::NAME;' % c.probes[j])))
        if impl:
            j = impl[0]
            neg_jobs.append((ci, 'private', j, negative_program(c, 'let _ = <%s>::SECRET;' % c.probes[j])))
    pos = rc.compile_many([p for _, _, p in pos_jobs])
    neg = rc.compile_many([p for _, _, _, p in neg_jobs], run=False)
    stats['programs'] += len(pos_jobs) + len(neg_jobs)
    for (ci, impl, prog), r in zip(pos_jobs, pos):
        c = cases[ci]
        if not (r['ok'] and r.get('run_ok')):
            stats['rejected'] += 1
            violations.append(dict(kind='property', request=invocation(c), program=prog, errors=r['errors'][:4],
                                   oracle='inherent-mode invocation with pairwise distinguishable blocks does not compile, or the items of implemented probes are not usable (pub from outside, private from inside): %s' % r['errors'][:2]))
            continue
        V = pe.parse_table(r['stdout'], 'V')
        stats['implemented'] += len(impl)
        for j in impl:
            b = c.blocks[tables[ci][j][0]]
            want = '%s %s %d %d %d' % (b.tag, b.tag, int(b.tag[1:]) + 1, int(b.tag[1:]) + 1, int(b.tag[1:]) + 1)
            stats['values_checked'] += 1
            if V.get(str(j)) != want:
                violations.append(dict(kind='property', request=invocation(c), program=prog,
                                       oracle='probe %s satisfies exactly block %s: expected items %s, got %s' % (c.probes[j], b.tag, want, V.get(str(j)))))
                break
        if impl:
            nontrivial.add(invocation(c))
    for (ci, what, j, prog), r in zip(neg_jobs, neg):
        c = cases[ci]
        # only meaningful if the positive program of the case compiles
        if r['ok']:
            violations.append(dict(kind='property', request=invocation(c), program=prog,
                                   oracle=('a type matching no block (%s) has the inherent item NAME' % c.probes[j]) if what == 'none'
                                   else ('the private item SECRET of %s is reachable from outside the defining module' % c.probes[j])))
        else:
            codes = rc.error_codes(r)
            stats['negative_' + what] += 1
            expected = {'none': {'E0599'}, 'private': {'E0624', 'E0603', 'E0616'}}[what]
            if not (set(codes) & expected) and not any('proc macro' in e for e in r['errors']):
                # compiled program fails for another reason: leave to the positive program's verdict
                pass
    return cases, stats, nontrivial, violations
