"""Shared plumbing for /verif/check: builds (Coq, extracted model, hook, dylib), the proof
gate, running the hook and the model, evidence / replay / known-finding bookkeeping."""
import json, os, re, subprocess, sys, time, hashlib, glob, shutil

ROOT = os.path.dirname(os.path.dirname(os.path.abspath(__file__)))
# The registered commands always work on /repo.  The VERIF_MUT_* variables are set only by the
# mutation campaign (tools/mutate.py), which runs the checks against scratch worktrees in parallel.
REPO = os.environ.get('VERIF_MUT_REPO', '/repo')
CACHE = os.environ.get('VERIF_MUT_CACHE', os.path.join(ROOT, '.cache'))
OUT = os.environ.get('VERIF_MUT_OUT', ROOT)
COQ = os.path.join(ROOT, 'coq')
GUARD = 'disjoint_impls_verif'
ENV = dict(os.environ, CARGO_NET_OFFLINE='true')

ALLOWED_AXIOMS = set()   # planned empty: every property theorem must be closed


class HarnessError(Exception):
    pass


def sh(cmd, timeout=3600, env=None, cwd=None, input=None):
    return subprocess.run(cmd, shell=isinstance(cmd, str), stdout=subprocess.PIPE,
                          stderr=subprocess.STDOUT, text=True, timeout=timeout,
                          env=env or ENV, cwd=cwd, input=input)


# ----------------------------------------------------------------------------------------
# Coq: full .vo build + audit + Print Assumptions
# ----------------------------------------------------------------------------------------

def build_coq():
    os.makedirs(CACHE, exist_ok=True)
    if not os.path.exists(os.path.join(COQ, 'Makefile')):
        r = sh('coq_makefile -f _CoqProject -o Makefile', cwd=COQ)
        if r.returncode:
            raise HarnessError('coq_makefile failed: ' + r.stdout)
    r = sh('timeout 3000 make -j16 2>&1', cwd=COQ, timeout=3100)
    log = r.stdout
    open(os.path.join(CACHE, 'coq_build.log'), 'w').write(log)
    return r.returncode == 0, log


FORBIDDEN = re.compile(
    r'\b(Admitted|admit|Axiom|Axioms|Parameter|Parameters|Conjecture|Conjectures|'
    r'Admit Obligations|bypass_check|Unset Guard Checking|Unset Positivity Checking|'
    r'Unset Universe Checking|type-in-type|impredicative-set)\b')


def strip_coq_comments(src):
    out, depth, i = [], 0, 0
    while i < len(src):
        if src.startswith('(*', i):
            depth += 1; i += 2
        elif src.startswith('*)', i) and depth:
            depth -= 1; i += 2
        else:
            if not depth:
                out.append(src[i])
            i += 1
    return ''.join(out)


def audit_coq():
    """grep-style audit of the whole development; returns list of offending lines."""
    bad = []
    for path in sorted(glob.glob(os.path.join(COQ, '**', '*.v'), recursive=True)):
        src = strip_coq_comments(open(path).read())
        for n, line in enumerate(src.split('\n'), 1):
            if FORBIDDEN.search(line):
                bad.append('%s:%d: %s' % (os.path.relpath(path, ROOT), n, line.strip()))
            if re.match(r'\s*(Variable|Variables|Hypothesis|Hypotheses|Context)\b', line):
                # only allowed inside a Section: checked coarsely by requiring "Section" earlier
                pre = src.split('\n')[:n]
                opens = sum(1 for l in pre if re.match(r'\s*Section\b', l))
                closes = sum(1 for l in pre if re.match(r'\s*End\b', l))
                if opens <= closes:
                    bad.append('%s:%d: %s (outside a section)' % (os.path.relpath(path, ROOT), n, line.strip()))
    flags = open(os.path.join(COQ, '_CoqProject')).read()
    if re.search(r'type-in-type|impredicative-set|-noinit', flags):
        bad.append('_CoqProject: forbidden flag')
    return bad


def proof_gate(prefixes):
    if os.environ.get('VERIF_MUT_REPO'):
        # mutation campaign: the Coq development is not touched and was gated by the caller
        return dict(ok=True, theorems=[], failures=[])
    gate = _proof_gate(prefixes)
    if os.environ.get('VERIF_TIER_EFFECTIVE') == 'thorough':
        ok, summary = coqchk_gate()
        gate['coqchk'] = summary
        if not ok:
            gate['ok'] = False
            gate['failures'].append('coqchk: ' + summary)
    return gate


def coqchk_gate():
    """thorough tier: the independent checker re-checks Properties.vo and everything it depends
    on and must report no axioms (cached by the hash of the compiled files)"""
    vos = sorted(glob.glob(os.path.join(COQ, '*.vo')) + glob.glob(os.path.join(COQ, 'proofs', '*.vo')))
    h = hashlib.sha256(b''.join(open(v, 'rb').read() for v in vos)).hexdigest()
    cache = os.path.join(CACHE, 'coqchk.json')
    if os.path.exists(cache):
        c = json.load(open(cache))
        if c.get('hash') == h:
            return c['ok'], c['summary']
    r = sh('timeout 1500 coqchk -o -silent -Q . DI DI.Properties 2>&1', cwd=COQ, timeout=1600)
    out = r.stdout
    ok = r.returncode == 0 and 'Axioms: <none>' in out and 'type-in-type: <none>' in out and \
        'unsafe (co)fixpoints: <none>' in out and 'positivity is assumed: <none>' in out
    summary = ' '.join(l.strip() for l in out.split('\n') if l.strip().startswith('*'))[:600]
    os.makedirs(CACHE, exist_ok=True)
    json.dump(dict(hash=h, ok=ok, summary=summary), open(cache, 'w'))
    return ok, summary


def _proof_gate(prefixes):
    """Build everything, audit, and read Print Assumptions for the theorems in
    Properties.v whose name starts with one of `prefixes`.
    Returns dict(ok, theorems=[(name, status)], failures=[...], log)."""
    ok, log = build_coq()
    failures = []
    if not ok:
        m = re.findall(r'File "([^"]+)", line (\d+).*?\n(Error:.*?)(?:\n\n|\Z)', log, re.S)
        failures.append('coq build failed: ' + ('; '.join('%s:%s %s' % (f, l, e.split('\n')[0]) for f, l, e in m) or log[-400:]))
    bad = audit_coq()
    failures += ['audit: ' + b for b in bad]
    theorems = []
    props_v = os.path.join(COQ, 'Properties.v')
    names = re.findall(r'^(?:Theorem|Lemma|Corollary|Example)\s+(\w+)', strip_coq_comments(open(props_v).read()), re.M)
    wanted = [n for n in names if any(n.startswith(p) for p in prefixes)]
    if ok:
        # Properties.v is compiled last by make; re-run coqc on it alone to capture output
        r = sh('timeout 600 coqc -Q . DI Properties.v 2>&1', cwd=COQ, timeout=700)
        out = r.stdout
        open(os.path.join(CACHE, 'properties.log'), 'w').write(out)
        if r.returncode:
            failures.append('Properties.v does not compile: ' + out[-400:])
        blocks, cur = [], None
        for line in out.split('\n'):
            if line.startswith('Closed under the global context'):
                if cur is not None:
                    blocks.append(cur)
                    cur = None
                blocks.append('Closed under the global context')
            elif line.startswith('Axioms:'):
                if cur is not None:
                    blocks.append(cur)
                cur = 'Axioms:\n'
            elif cur is not None:
                if line.strip() == '' or (not line.startswith(' ') and ':' not in line):
                    blocks.append(cur); cur = None
                else:
                    cur += line + '\n'
        if cur is not None:
            blocks.append(cur)
        # sequential association: one Print Assumptions per theorem, in order
        printed = re.findall(r'^Print Assumptions (\w+)\.', strip_coq_comments(open(props_v).read()), re.M)
        if len(printed) != len(blocks):
            failures.append('Print Assumptions blocks (%d) != statements (%d)' % (len(blocks), len(printed)))
        assum = dict(zip(printed, blocks))
        for n in wanted:
            b = assum.get(n)
            if b is None:
                theorems.append((n, 'no Print Assumptions'))
                failures.append('theorem %s has no Print Assumptions' % n)
            elif b.startswith('Closed'):
                theorems.append((n, 'closed'))
            else:
                axioms = set(re.findall(r'^(\S+)\s*:', b, re.M)) - {'Axioms'}
                if axioms <= ALLOWED_AXIOMS:
                    theorems.append((n, 'allowed axioms: ' + ','.join(sorted(axioms))))
                else:
                    theorems.append((n, 'AXIOMS: ' + ','.join(sorted(axioms))))
                    failures.append('theorem %s depends on %s' % (n, ','.join(sorted(axioms - ALLOWED_AXIOMS))))
    else:
        theorems = [(n, 'not checked (build failed)') for n in wanted]
    if not wanted:
        failures.append('no theorem with prefix %s in Properties.v' % (prefixes,))
    return dict(ok=not failures, theorems=theorems, failures=failures)


# ----------------------------------------------------------------------------------------
# extracted model
# ----------------------------------------------------------------------------------------

def build_model():
    d = os.path.join(CACHE, 'ocaml')
    os.makedirs(d, exist_ok=True)
    srcs = [os.path.join(COQ, 'model.ml'), os.path.join(COQ, 'model.mli'), os.path.join(ROOT, 'ocaml', 'driver.ml')]
    for s in srcs:
        if not os.path.exists(s):
            raise HarnessError('missing ' + s + ' (coq build/extraction failed?)')
    h = hashlib.sha256(b''.join(open(s, 'rb').read() for s in srcs)).hexdigest()
    stamp = os.path.join(d, 'stamp')
    exe = os.path.join(d, 'model_eval')
    if os.path.exists(exe) and os.path.exists(stamp) and open(stamp).read() == h:
        return exe
    for s in srcs:
        shutil.copy(s, d)
    r = sh('ocamlfind ocamlopt -w -a model.mli model.ml driver.ml -o model_eval', cwd=d)
    if r.returncode:
        raise HarnessError('ocaml build failed: ' + r.stdout[-2000:])
    open(stamp, 'w').write(h)
    return exe


def run_model(lines, exe=None):
    exe = exe or build_model()
    inp = '\n'.join(lines) + '\n'
    r = subprocess.run(['bash', '-c', 'ulimit -s unlimited; exec ' + exe], input=inp, stdout=subprocess.PIPE,
                       stderr=subprocess.PIPE, text=True, timeout=3600)
    if r.returncode:
        raise HarnessError('model_eval failed: ' + r.stderr[-1000:])
    out = r.stdout.split('\n')
    if out and out[-1] == '':
        out.pop()
    if len(out) != len(lines):
        raise HarnessError('model_eval: %d responses for %d requests' % (len(out), len(lines)))
    return out


# ----------------------------------------------------------------------------------------
# the implementation: hook test binary and proc-macro dylib, rebuilt from /repo's tree
# ----------------------------------------------------------------------------------------

def build_hook():
    """cargo test --no-run with the guard on; returns the lib test binary path."""
    tdir = os.path.join(CACHE, 'hook')
    env = dict(ENV, RUSTFLAGS='--cfg ' + GUARD)
    r = subprocess.run(['cargo', 'test', '--offline', '--lib', '--no-run', '--message-format=json',
                        '--target-dir', tdir], cwd=REPO, env=env, stdout=subprocess.PIPE,
                       stderr=subprocess.PIPE, text=True, timeout=1800)
    if r.returncode:
        raise HarnessError('hook build failed:\n' + r.stderr[-3000:])
    exe = None
    for line in r.stdout.split('\n'):
        if line.startswith('{'):
            try:
                m = json.loads(line)
            except ValueError:
                continue
            if m.get('reason') == 'compiler-artifact' and m.get('executable') and m.get('profile', {}).get('test'):
                exe = m['executable']
    if not exe:
        raise HarnessError('hook build: test executable not found')
    return exe


_hook_seq = [0]
_sysroot = []


def sysroot_lib():
    if not _sysroot:
        r = sh('rustc --print sysroot', cwd=REPO)
        root = r.stdout.strip().split('\n')[-1]
        libs = [os.path.join(root, 'lib')] + glob.glob(os.path.join(root, 'lib', 'rustlib', '*', 'lib'))
        _sysroot.append(':'.join(libs))
    return _sysroot[0]


def run_hook(lines, exe):
    """Run the in-crate driver on request lines; returns response lines."""
    d = os.path.join(CACHE, 'io')
    os.makedirs(d, exist_ok=True)
    _hook_seq[0] += 1
    fin = os.path.join(d, 'req_%d_%d.txt' % (os.getpid(), _hook_seq[0]))
    fout = os.path.join(d, 'resp_%d_%d.txt' % (os.getpid(), _hook_seq[0]))
    open(fin, 'w').write('\n'.join(lines) + '\n')
    env = dict(ENV, DISJOINT_IMPLS_VERIF_IN=fin, DISJOINT_IMPLS_VERIF_OUT=fout, RUST_MIN_STACK='67108864',
               LD_LIBRARY_PATH=sysroot_lib() + ':' + os.environ.get('LD_LIBRARY_PATH', ''))
    r = subprocess.run([exe, 'superset::verif_hook::driver', '--exact', '--test-threads=1', '-q'],
                       env=env, stdout=subprocess.PIPE, stderr=subprocess.STDOUT, text=True, timeout=3600)
    if r.returncode or not os.path.exists(fout):
        raise HarnessError('hook driver failed: ' + r.stdout[-2000:])
    out = open(fout).read().split('\n')
    if out and out[-1] == '':
        out.pop()
    os.remove(fin); os.remove(fout)
    if len(out) != len(lines):
        raise HarnessError('hook: %d responses for %d requests' % (len(out), len(lines)))
    return out


# ----------------------------------------------------------------------------------------
# known findings, replays, evidence
# ----------------------------------------------------------------------------------------

def load_known():
    p = os.path.join(ROOT, 'known_findings.json')
    if not os.path.exists(p):
        return []
    return json.load(open(p))['findings']


def write_replay(prop, payload):
    d = os.path.join(OUT, 'replays')
    os.makedirs(d, exist_ok=True)
    n = 0
    while os.path.exists(os.path.join(d, '%s-%03d.json' % (prop, n))):
        n += 1
    path = os.path.join(d, '%s-%03d.json' % (prop, n))
    json.dump(payload, open(path, 'w'), indent=1, ensure_ascii=False)
    return path


def write_evidence(prop, tier, seed, level, coverage, wall_s, violations, assumptions):
    d = os.path.join(OUT, 'evidence')
    os.makedirs(d, exist_ok=True)
    ev = dict(property_id=prop, tier=tier, seed=seed, level=level, coverage=coverage,
              assumptions=assumptions, wall_s=round(wall_s, 2), violations=violations)
    json.dump(ev, open(os.path.join(d, prop + '.json'), 'w'), indent=1, ensure_ascii=False)


TRUSTED_BASE = [
    'Coq 8.16.1 kernel (coqc); no native_compute; vm_compute only in Examples/witness lemmas',
    'axioms: none (every property theorem prints "Closed under the global context")',
    'extraction: ExtrOcamlBasic only (Extract Inductive bool/option/unit/list/prod/sumbool/sumor), no Extract Constant; OCaml 4.13.1; ocaml/driver.ml I/O glue',
    'correspondence check: harness/*.py generators and comparison, the cfg(disjoint_impls_verif) hook src/superset/verif_hook.rs (syn -> S-expression serializer, catch_unwind)',
    'modelled, not verified: syn parsing/derived Eq+Hash, quote, proc_macro2, indexmap, itertools cartesian products, proc-macro-error2',
]
