"""C16 -- trait-argument fidelity: traits with lifetime/type/const parameters (bounds,
outlives, ?Sized); blocks for generic and concrete instantiations; probes with matching and
non-matching argument lists.  Same engine and oracle as C02 (shadow traits carry the same
trait generics)."""
from .progprops import run_prop, KINDS, PREFIX

KINDS['C16'] = ['targs:generic', 'targs:concrete', 'targs:lifetime', 'targs:const', 'targs:bounded', 'targs:unsized_arg', 'targs:mixed', 'targs:default_omitted', 'targs:nested_unsized', 'targs:unsized_where', 'targs:unsized_nested_arg', 'targs:nested_arg', 'targs:reflexive_mix', 'targs:bounded_composite', 'combo', 'combo', 'targs:repeated_arg', 'targs:nested_arg_wild']
PREFIX['C16'] = ['C16_']


def run(tier, seed, replay=None):
    return run_prop('C16', tier, seed, replay)
