"""C15 -- ?Sized relaxation is exact: unsized probes (str, [u8]) obtain the implementation
exactly when the block they satisfy relaxed Sized on the parameter they instantiate (inline or
where-clause, whichever block of the family wrote it).  Same engine and oracle as C02 (rustc's
verdict on shadow traits, which evaluates ?Sized natively), restricted to families with
relaxations and worlds with unsized types."""
import random
from . import gen_prog as gp
from .progprops import run_prop, KINDS, PREFIX

KINDS['C15'] = ['unsized', 'unsized2', 'targs:nested_unsized', 'unsized2', 'unsized', 'targs:unsized_arg', 'targs:unsized_where', 'targs:unsized_nested_arg', 'nested_relaxed_inner', 'combo', 'unsized_free']
PREFIX['C15'] = ['C15_']


def run(tier, seed, replay=None):
    return run_prop('C15', tier, seed, replay)
