"""Run generated invocation cases through: (1) the shadow-trait program (rustc's own verdict
on "probe satisfies block i"), (2) the macro program, (3) the Coq spec `applicable` on the
canonical blocks the hook reports.  Produces per-case observations used by C01-C06,C15-C17."""
import re, json
from . import common as cm
from . import rustc_engine as rc
from . import gen_prog as gp


def parse_table(stdout, prefix):
    out = {}
    for line in stdout.split('\n'):
        if line.startswith(prefix):
            k, _, v = line.partition(' ')
            out[k[len(prefix):]] = v
    return out


def observe(cases, with_values=True, with_spec=True, orders=None):
    """returns list of dict per case:
       shadow_ok, S (probe -> list of applicable block idx), macro_ok, macro_errors,
       P (probe -> bool), V (probe -> (NAME, ID, f)), spec (probe -> list idx) or None"""
    n = len(cases)
    shadow = rc.compile_many([c.shadow_program() for c in cases])
    macro = rc.compile_many([c.macro_program(orders[i] if orders else None) for i, c in enumerate(cases)])
    obs = []
    for i, c in enumerate(cases):
        o = dict(shadow_ok=shadow[i]['ok'] and shadow[i].get('run_ok', False), macro_ok=macro[i]['ok'] and macro[i].get('run_ok', False),
                 macro_errors=macro[i]['errors'], macro_stderr=macro[i]['stderr'][-1500:], shadow_stderr=shadow[i]['stderr'][-800:])
        if o['shadow_ok']:
            t = parse_table(shadow[i]['stdout'], 'S')
            S = {}
            for k, v in t.items():
                j, b = k.split('_')
                S.setdefault(int(j), [])
                if v == 'true':
                    S[int(j)].append(int(b))
            for j in range(len(c.probes)):
                S.setdefault(j, [])
            o['S'] = S
        if o['macro_ok']:
            t = parse_table(macro[i]['stdout'], 'P')
            o['P'] = {int(k): v == 'true' for k, v in t.items()}
        obs.append(o)
    if with_values:
        idx = [i for i in range(n) if obs[i]['macro_ok'] and any(obs[i]['P'].values())]
        progs = [cases[i].macro_program(orders[i] if orders else None, values_for={j for j, v in obs[i]['P'].items() if v}) for i in idx]
        res = rc.compile_many(progs)
        for i, r in zip(idx, res):
            if r['ok'] and r.get('run_ok'):
                t = parse_table(r['stdout'], 'V')
                obs[i]['V'] = {int(k): tuple(v.split(' ')) for k, v in t.items()}
            else:
                obs[i]['V_error'] = r['errors'][:3]
    if with_spec:
        exe_hook = cm.build_hook()
        exe_model = cm.build_model()
        reqs = []
        for c in cases:
            reqs.append('groups\t' + c.invocation().replace('\n', ' '))
            tn = getattr(c, 'trait_prefix', '') + c.trait_name if c.trait_name else None   # the path as the blocks write it
            probes = '@@'.join('%s for %s' % (('%s<%s>' % (tn, p[0]) if p[0] else tn) if tn else '-', p[1]) for p in c.probes)
            reqs.append('world\t%s\t%s' % ((gp.world_text(c.world) + getattr(c, 'extra_world', '')).replace('\n', ' '), probes))
        resp = cm.run_hook(reqs, exe_hook)
        mreq, midx = [], []
        for i in range(n):
            g, w = resp[2 * i], resp[2 * i + 1]
            obs[i]['hook_groups'] = g if g.startswith('(Crash') or g.startswith('(Unsupported') else None
            if g.startswith('(Blocks') and w.startswith('(World'):
                blocks, grouping, expansion = g.split('\t')
                world, queries = w.split('\t')
                obs[i]['grouping'] = grouping
                obs[i]['blocks_term'] = blocks
                mreq.append('applicable\t%s\t%s\t%s' % (blocks, world, queries)); midx.append(i)
            elif w.startswith('(World') and not g.startswith('(Blocks'):
                # the macro rejects/crashes: still evaluate the spec on canonical blocks
                cg = cm.run_hook(['canon\t' + cases[i].invocation().replace('\n', ' ')], exe_hook)[0]
                if cg.startswith('(Blocks'):
                    from . import sexp2coq as sx
                    t = sx.parse(cg)
                    blocks = '(Blocks ""%s)' % ''.join(' ' + show(p[2][1]) for p in t[2])
                    world, queries = w.split('\t')
                    obs[i]['blocks_term'] = blocks
                    mreq.append('applicable\t%s\t%s\t%s' % (blocks, world, queries)); midx.append(i)
        if mreq:
            mresp = cm.run_model(mreq, exe_model)
            for i, m in zip(midx, mresp):
                parts = m.split(';') if m != '' else ['']
                if len(parts) == len(cases[i].probes):
                    obs[i]['spec'] = {j: [int(x) for x in p.split(',') if x != ''] for j, p in enumerate(parts)}
    return obs


def show(t):
    kind, data, kids = t
    return '(%s "%s"%s)' % (kind, data.replace('\\', '\\\\').replace('"', '\\"'), ''.join(' ' + show(k) for k in kids))


def expected_values(case, block_idx):
    b = case.blocks[block_idx]
    base = (b.tag, str(int(b.tag[1:]) + 1) if 'ID' in b.overrides else '0', b.tag if 'f' in b.overrides else 'default')
    if getattr(case, 'with_type', False):
        base += ('[u8;%d]' % (int(b.tag[1:]) + 1),)
    return base


def check_genimpls(invocations):
    """the helper impls the macro generates (hook op genimpls) against the Coq model Gen.gen_render
    (the user's block with the helper path, the row, forward-substituted wildcard projections and
    inherent self-type arguments): returns (compared, violations)"""
    exe_hook = cm.build_hook()
    exe_model = cm.build_model()
    reqs = ['genimpls\t' + inv.replace('\n', ' ') for inv in invocations]
    resp = cm.run_hook(reqs, exe_hook)
    mreq, idx = [], []
    for i, r in enumerate(resp):
        if r.startswith('(Blocks'):
            mreq.append('genimpls\t' + r.split('\t')[0]); idx.append(i)
    mresp = cm.run_model(mreq, exe_model) if mreq else []
    out = []
    for i, m in zip(idx, mresp):
        e = resp[i].split('\t')[2]
        if m != e:
            out.append(dict(kind='correspondence', request=invocations[i], impl=e[:4000], model=m[:4000],
                            oracle='corr:hook/genimpls: the helper impls the macro generates and the Coq model (Gen.gen_helper_impls) disagree'))
    return len(idx), out


def _norm_main(s):
    """main impls with the generic parameter list as a set (its order is the indexing order of the
    pruning pass, which is not modelled and is irrelevant to rustc)"""
    from . import sexp2coq as sx
    t = sx.parse(s)
    if t[0] != 'MainImpls':
        return s
    return [(im[1], tuple(sorted(sx.show(x) for x in im[2][0][2]))) + tuple(sx.show(k) for k in im[2][1:]) for im in t[2]]


ITEMS_COMPARED = 0


def _plain_patterns(items_sexp):
    """every argument pattern is a plain identifier (the model forwards names only)"""
    import re
    return all(re.fullmatch(r'[A-Za-z_][A-Za-z0-9_]*', p) for p in re.findall(r'\(Arg "([^"]*)"', items_sexp))


def check_mainimpls(invocations):
    """the main impl of every family (hook op mainimpl, items dropped) against the Coq model
    GenMain.gen_main_render: trait path, self type, where-clause and the set of parameters"""
    exe_hook = cm.build_hook()
    exe_model = cm.build_model()
    reqs = ['mainimpl\t' + inv.replace('\n', ' ') for inv in invocations]
    resp = cm.run_hook(reqs, exe_hook)
    mreq, idx = [], []
    for i, r in enumerate(resp):
        if r.startswith('(Trait') or r.startswith('(NoTrait'):
            fields = r.split('\t')
            t, b, g, e, h, mi, ti = fields[:7]
            hi = fields[7] if len(fields) > 7 else None
            mreq.append('mainimpl\t%s\t%s' % (t, b)); idx.append((i, 'main'))
            mreq.append('helpertraits\t%s\t%s' % (t, b)); idx.append((i, 'helper'))
            if '(Unsupported' not in mi and '(Unsupported' not in ti and _plain_patterns(mi):
                mreq.append('mainitems\t%s\t%s\t%s' % (t, ti, b)); idx.append((i, 'items'))
            if hi is not None and '(Unsupported' not in hi and '(Unsupported' not in ti:
                mreq.append('helperitems\t%s\t%s\t%s' % (t, ti, b)); idx.append((i, 'hitems'))
    mresp = cm.run_model(mreq, exe_model) if mreq else []
    out = []
    global ITEMS_COMPARED
    for (i, what), m in zip(idx, mresp):
        if what == 'hitems':
            hi = resp[i].split('\t')[7]
            if m != hi:
                out.append(dict(kind='correspondence', request=invocations[i], impl=hi[:4000], model=m[:4000],
                                oracle='corr:hook/helperitems: the items of the helper trait the macro generates (the trait\'s own items / the signatures of the first inherent block) and the Coq model (GenMain.gen_helper_items) disagree'))
        elif what == 'items':
            ITEMS_COMPARED += 1
            mi = resp[i].split('\t')[5]
            if m != mi:
                out.append(dict(kind='correspondence', request=invocations[i], impl=mi[:4000], model=m[:4000],
                                oracle='corr:hook/mainitems: the items of the main impl the macro generates (forwarders to the helper trait) and the Coq model (GenMain.gen_main_items) disagree'))
        elif what == 'main':
            e = resp[i].split('\t')[3]
            if _norm_main(m) != _norm_main(e):
                out.append(dict(kind='correspondence', request=invocations[i], impl=e[:4000], model=m[:4000],
                                oracle='corr:hook/mainimpl: the main impl the macro generates and the Coq model (GenMain.gen_main_impl) disagree'))
        else:
            h = resp[i].split('\t')[4]
            if m != h:
                out.append(dict(kind='correspondence', request=invocations[i], impl=h[:4000], model=m[:4000],
                                oracle='corr:hook/helpertrait: the helper trait the macro generates (name, parameters, where-clause) and the Coq model (GenMain.gen_helper_trait) disagree'))
    return sum(1 for _, w in idx if w == 'main'), out
