"""C09 -- header generalisation is exact first-order matching.
Correspondence: hook op sup_* (the crate's is_superset) vs the extracted Coq model `sup`;
property oracle on the implementation's own answer: equivb (apply sigma a) b, every
parameter bound; completeness on constructed instances."""
import random, itertools, json, os
from . import common as cm
from . import gen_terms as g

CORPUS = [
    # minimized failures / fixed findings first (known_findings.json: F2, F3, F5, F18)
    ('sup_ty', '(_ŠČ0, Box<dyn Tr<_ŠČ0, A = u32>>)', '(i32, Box<dyn Tr<u64, A = u32>>)', 'neg'),
    ('sup_ty', "(_ŠČ0, W<'a, _ŠČ0>)", "(i32, W<'a, u64>)", 'neg'),
    ('sup_ty', 'fn(_ŠČ0)', 'fn(u8)', 'pos'),
    ('sup_ty', 'fn(u8) -> u8', 'fn(u8) -> u8', 'pos'),
    ('sup_ty', 'extern "C" fn(_ŠČ0)', 'fn(u8)', 'neg'),
    ('sup_ty', '[u8; 1 - _ŠČ0]', '[u8; N - 1]', 'neg'),
    ('sup_ty', '[u8; 1 + _ŠČ0]', '[u8; N + 1]', 'any'),
    ('sup_path', '::a::Tr<_ŠČ0>', 'a::Tr<u8>', 'neg'),
    ('sup_path', 'a::Tr<_ŠČ0>', 'a::Tr<u8>', 'pos'),
    ('sup_ty', '(_ŠČ0, Vec<_ŠČ0>)', '(Vec<_ŠČ0>, Vec<_ŠČ0>)', 'neg'),
    ('sup_ty', '(_ŠČ0, _ŠČ1)', '(_ŠČ1, _ŠČ0)', 'pos'),
    ('sup_ty', '_ŠČ0', '(u8)', 'pos'),
    ('sup_ty', '<Option<_ŠČ0> as Deref>::Target', '<Vec<_ŠČ0> as Deref>::Target', 'neg'),
    ('sup_ty', '<Vec<_ŠČ0> as Deref>::Target', '<Vec<u8> as Deref>::Target', 'neg'),
    ('sup_ty', 'W<_ŠČ0, _ŠČ1>', 'W<u8, 3>', 'pos'),
    ('sup_ty', 'W<_ŠČ0, { _ŠČ1 }>', 'W<u8, 3>', 'neg'),
    ('sup_ty', "&'_ _ŠČ0", "&'a u8", 'pos'),
    ('sup_ty', '&_ŠČ0', "&'a u8", 'neg'),
    ('sup_ty', '*const _ŠČ0', '*mut u8', 'neg'),
    ('sup_ty', 'dyn Tr<_ŠČ0> + Send', 'dyn Send + Tr<u8>', 'neg'),
    ('sup_expr', '_ŠČ0.len::<u8>()', 'x.len()', 'pos'),
    ('sup_expr', '(_ŠČ0)', '3', 'neg'),
    ('sup_gid', 'Kita<_ŠČ0>', '(_ŠČ0, _ŠČ1)', 'Kita<u8>', '(u8, Vec<_ŠČ0>)', 'pos'),
    ('sup_gid', '-', 'W<_ŠČ0>', '-', 'W<u8>', 'pos'),
    ('sup_gid', '-', 'W<_ŠČ0>', 'Kita', 'W<u8>', 'neg'),
    # argument lists of different lengths never match, whichever side is longer (seed C09h)
    ('sup_ty', 'W<_ŠČ0>', 'W<_ŠČ0, (_ŠČ1,)>', 'neg'),
    ('sup_ty', 'W<_ŠČ0, _ŠČ1>', 'W<u8>', 'neg'),
    ('sup_path', 'Tr<_ŠČ0>', 'Tr<Vec<i32>, u8>', 'neg'),
    ('sup_path', 'Iterator<>', 'Iterator<Item = _ŠČ0>', 'neg'),
    # order-sensitive operators are never matched crosswise (seed C09i)
    ('sup_ty', '[u8; { 1 < 2 } as usize]', '[u8; { 2 < 1 } as usize]', 'neg'),
    ('sup_expr', '1 < _ŠČ0', 'N < 1', 'neg'),
    ('sup_expr', '1 <= _ŠČ0', 'N <= 1', 'neg'),
    ('sup_expr', '1 > _ŠČ0', 'N > 1', 'neg'),
    ('sup_expr', '1 >> _ŠČ0', 'N >> 1', 'neg'),
    ('sup_expr', 'true && _ŠČ0', 'N && true', 'neg'),
]


def instances(rng, a, nground=3):
    """b = a[theta] for random theta (ground and parameter-bearing values, non-injective)"""
    ps = g.params_of(a)
    out = []
    for _ in range(nground):
        theta = {}
        reliable = True
        for p in ps:
            if is_const_param(a, p):
                e = g.rand_expr(rng, rng.randrange(2), 3, allow_params=rng.random() < 0.3)
                if operand_position(a, p) and (e[0] == 'Lit' or not g.atomic(e)):
                    e = g.ParE(e) if rng.random() < 0.5 else g.Cn(rng.choice(['N', 'M']))
                if in_type_position(a, p):
                    if operand_position(a, p):
                        reliable = False   # `_ŠČ2.0` -> `3.0` re-lexes as a float: the text is no longer the instance
                    e = g.Lit(rng.choice(['0', '3', '12', 'true']))   # `W<_ŠČ2>` -> `W<3>`: only a literal stays a syntactic instance
                theta[p] = e
            else:
                theta[p] = g.rand_type(rng, rng.randrange(3), 3, allow_params=rng.random() < 0.4, exprs=False)
                if toplevel_plus(theta[p]) and noplus_position(a, p):
                    reliable = False
        if len(ps) > 1 and rng.random() < 0.3:
            theta[ps[1]] = theta[ps[0]] if is_const_param(a, ps[1]) == is_const_param(a, ps[0]) else theta[ps[1]]
            e = theta[ps[1]]
            if is_const_param(a, ps[1]) and operand_position(a, ps[1]) and (e[0] == 'Lit' or not g.atomic(e)):
                reliable = False     # the copied value is not parenthesised for an operand position
            if is_const_param(a, ps[1]) and in_type_position(a, ps[1]) and e[0] != 'Lit':
                reliable = False
        if any(toplevel_plus(v) and noplus_position(a, p) for p, v in theta.items()):
            reliable = False
        if ps and rng.random() < 0.3:
            del theta[ps[0]]   # identity
        out.append((g.subst(a, theta), dict(reliable=reliable, theta={g.PFX + str(p): ('ex' if is_const_param(a, p) else 'ty', g.show(v)) for p, v in theta.items()})))
    return out


def toplevel_plus(v):
    """does the printed value contain a `+` outside all brackets (a type that is not a
    `TypeNoBounds`: substituting it where the grammar takes no `+` re-parses differently)?"""
    txt = g.show(v)
    depth = 0
    for i, c in enumerate(txt):
        if c in '<([{':
            depth += 1
        elif c in ')]}' or (c == '>' and (i == 0 or txt[i - 1] != '-')):
            depth -= 1
        elif c == '+' and depth == 0:
            return True
    return False


def noplus_position(a, p):
    """does type parameter p occur where the grammar takes a type without `+` (target of a
    reference, pointer, cast or fn return)?  `&_ŠČ0` -> `&dyn A + Send` re-parses differently."""
    def isp(y):
        return isinstance(y, tuple) and len(y) > 1 and y[0] == 'P' and y[1] == p
    def walk(x):
        if isinstance(x, tuple):
            if x and x[0] in ('Ref', 'Ptr', 'Cast', 'CP') and isp(x[-1]):
                return True
            if x and x[0] == 'Fn' and isp(x[4]):
                return True
            return any(walk(y) for y in x)
        if isinstance(x, list):
            return any(walk(y) for y in x)
        return False
    return walk(a)


def operand_position(a, p):
    """does parameter p occur as a direct operand (where substituting text could change the
    parse through precedence or lexing, e.g. `_ŠČ2.0` -> `3.0`)?"""
    def walk(x):
        if isinstance(x, tuple):
            if x and x[0] in ('Bin', 'Un', 'Cast', 'Meth', 'Idx', 'Fld', 'RefE'):
                if any(isinstance(y, tuple) and y and y[0] == 'PE' and y[1] == p for y in x[1:]):
                    return True
            return any(walk(y) for y in x)
        return False
    return walk(a)


def in_type_position(a, p):
    def walk(x):
        if isinstance(x, tuple):
            if x and x[0] == 'P' and x[1] == p:
                return True
            return any(walk(y) for y in x)
        return False
    return walk(a)


def is_const_param(a, p):
    return p >= 2
    found = []

    def walk(x):
        if isinstance(x, tuple):
            if x and x[0] == 'PE' and x[1] == p:
                found.append(True)
            for y in x:
                walk(y)
    walk(a)
    return bool(found)


def under_proj_or_paren(a):
    """does `a` bind a parameter beneath an associated-type projection (the property's
    exclusion) or use expression parentheses/blocks around parameters (where instances are
    ambiguous through precedence)?"""
    def walk(x, inside):
        if isinstance(x, tuple):
            if x and x[0] in ('P', 'PE') and inside:
                return True
            ins = inside or (bool(x) and x[0] == 'Proj')
            return any(walk(y, ins) for y in x)
        return False
    return walk(a, False)


THETA = {}


def gen_cases(rng, tier):
    THETA.clear()
    cases = []   # (op, fields..., expectation)
    for c in CORPUS:
        cases.append(c)
    # round 10 (seed C09j): one parameter at two positions of ONE angle-bracketed list, the later
    # one a bare argument given a constant: equal constants match, different ones (or a type
    # first and a constant later) never do, whatever was bound first
    consts = ['2', '3', 'N', '{ 1 + 1 }', '_ŠČ0', 'u8']
    for c1 in consts:
        for c2 in consts:
            for pat, inst in (('W<_ŠČ0, _ŠČ0>', 'W<%s, %s>'), ('W<_ŠČ0, u8, _ŠČ0>', 'W<%s, u8, %s>'), ('W<[u8; _ŠČ0], _ŠČ0>', 'W<[u8; %s], %s>'),
                              ('W<Q<_ŠČ0>, _ŠČ0>', 'W<Q<%s>, %s>'), ('(W<_ŠČ0>, W<_ŠČ0>)', '(W<%s>, W<%s>)')):
                cases.append(('sup_ty', pat, inst % (c1, c2), 'any' if c1 == c2 else 'neg'))
            cases.append(('sup_path', 'a::Tr<_ŠČ0, _ŠČ0>', 'a::Tr<%s, %s>' % (c1, c2), 'any' if c1 == c2 else 'neg'))
    # exhaustive small scope
    A = g.small_types(2)
    B2 = g.small_types(2)
    for a in A:
        for b in B2:
            cases.append(('sup_ty', g.show(a), g.show(b), 'any'))
    B3 = g.small_types(3)
    pairs3 = [(a, b) for a in A for b in B3[len(B2):]]
    if tier == 'quick':
        rng.shuffle(pairs3)
        pairs3 = pairs3[:15000]
    for a, b in pairs3:
        cases.append(('sup_ty', g.show(a), g.show(b), 'any'))
    if tier != 'quick':
        A3 = B3[len(B2):]
        sel = rng.sample(A3, min(len(A3), 600))
        for a in sel:
            for b in rng.sample(B3, 300):
                cases.append(('sup_ty', g.show(a), g.show(b), 'any'))
    E = g.small_exprs(3)
    for a in E:
        for b in E:
            cases.append(('sup_expr', g.show(a), g.show(b), 'any'))
    # random positives with repeated parameters, and their corruptions
    n = 4000 if tier == 'quick' else 60000
    for _ in range(n):
        a = g.rand_type(rng, rng.randrange(1, 5), 3)
        insts = instances(rng, a, 2)
        if len(insts) == 2 and rng.random() < 0.3:
            # trait arguments and self type instantiated differently: the shared parameters conflict
            cases.append(('sup_gid', 'Kita<%s>' % g.show(a), g.show(a), 'Kita<%s>' % g.show(insts[0][0]), g.show(insts[1][0]), 'any'))
        for b, theta in insts:
            exp = 'pos' if theta['reliable'] and not under_proj_or_paren(a) else 'any'
            THETA['\t'.join(('sup_ty', g.show(a), g.show(b)))] = theta['theta']
            cases.append(('sup_ty', g.show(a), g.show(b), exp))
            cases.append(('sup_ty', g.show(a), g.show(g.corrupt(rng, b)), 'any'))
            if rng.random() < 0.2:
                cases.append(('sup_gid', 'Kita<%s>' % g.show(a), g.show(a), 'Kita<%s>' % g.show(b), g.show(b), exp))
                cases.append(('sup_path', 'm::Tr<%s>' % g.show(a), 'm::Tr<%s>' % g.show(b), exp))
    for _ in range(n // 2):
        a = g.rand_expr(rng, rng.randrange(1, 4), 3)
        for b, theta in instances(rng, a, 2):
            cases.append(('sup_expr', g.show(a), g.show(b), 'any'))
            THETA['\t'.join(('sup_expr', g.show(a), g.show(b)))] = theta['theta']
            cases.append(('sup_expr', g.show(a), g.show(g.corrupt(rng, b)), 'any'))
    # unrelated random pairs
    for _ in range(n // 2):
        cases.append(('sup_ty', g.show(g.rand_type(rng, 3, 3)), g.show(g.rand_type(rng, 3, 3)), 'any'))
    # dedupe, keep order
    seen, out = set(), []
    for c in cases:
        if c[:-1] not in seen:
            seen.add(c[:-1]); out.append(c)
    return out


def run(tier, seed, replay=None):
    rng = random.Random(seed)
    known = [k for k in cm.load_known() if k['property'] == 'C09' and k['status'] == 'known']
    gate = cm.proof_gate(['C09_'])
    exe_model = cm.build_model()
    exe_hook = cm.build_hook()
    if replay:
        rp = json.load(open(replay))
        cases = [tuple(rp['request'].split('\t')) + ('any',)] if 'request' in rp else []
    else:
        cases = gen_cases(rng, tier)
    reqs = ['\t'.join(c[:-1]) for c in cases]
    resp = cm.run_hook(reqs, exe_hook)

    stats = dict(unsupported=0, crash=0, some=0, none=0, nonexact_equiv=0, known_f5c=0, pos_expected=0, complete_hyps_met=0, complete_theorem_instances=0)
    model_reqs, idx = [], []
    for i, r in enumerate(resp):
        if r.startswith('(Unsupported'):
            stats['unsupported'] += 1
            continue
        if r.startswith('(Crash'):
            stats['crash'] += 1
            continue
        a, b, res = r.split('\t')
        model_reqs.append('sup\t%s\t%s' % (a, b)); idx.append((i, 'sup'))
        if res.startswith('(Subs'):
            model_reqs.append('sound\t%s\t%s\t%s' % (a, b, res)); idx.append((i, 'sound'))
    # the completeness theorem as the oracle: parse theta's values through the same hook,
    # let the model decide C09_complete's hypotheses (cwf theta a, b = apply theta a) and,
    # for an answer, its conclusion (every entry is theta's value, only parameters of a)
    vals = sorted({v for rq in reqs for v in THETA.get(rq, {}).values()})
    vresp = cm.run_hook(['%s\t%s\t%s' % ('sup_ty' if sort == 'ty' else 'sup_expr', txt, txt) for sort, txt in vals], exe_hook) if vals else []
    vsexp = {}
    for (sort, txt), r in zip(vals, vresp):
        if not r.startswith('(Unsupported') and not r.startswith('(Crash'):
            vsexp[(sort, txt)] = r.split('\t')[0]
    for i, r in enumerate(resp):
        th = THETA.get(reqs[i])
        if th is None or r.startswith('(Unsupported') or r.startswith('(Crash'):
            continue
        if any(v not in vsexp for v in th.values()):
            continue
        a, b, res = r.split('\t')
        ths = '(Subs ""%s)' % ''.join(' (Bind "%s" %s)' % (p, vsexp[v]) for p, v in th.items())
        model_reqs.append('complete\t%s\t%s\t%s\t%s' % (a, b, ths, res)); idx.append((i, 'complete'))
    mresp = cm.run_model(model_reqs, exe_model)

    violations, known_lines, nontrivial = [], set(), set()
    per = {}
    for (i, kind), m in zip(idx, mresp):
        per.setdefault(i, {})[kind] = m
    for i, r in enumerate(resp):
        c = cases[i]
        if r.startswith('(Crash'):
            violations.append(dict(kind='crash', request=reqs[i], impl=r, oracle='is_superset must not panic on fragment inputs'))
            continue
        if i not in per:
            continue
        a, b, res = r.split('\t')
        m = per[i]
        is_some = res.startswith('(Subs')
        stats['some' if is_some else 'none'] += 1
        if is_some and 'Bind' in res:
            nontrivial.add(reqs[i])
        prop_fail = None
        if is_some:
            exact, equiv, bound, comm, hyp = m['sound'].split('\t')
            if hyp == 'true':
                stats['complete_hyps_met'] += 1
            if equiv != 'true':
                prop_fail = 'reported substitution does not reproduce the instance: apply(sigma, a) is not equivalent to b'
            elif bound != 'true':
                prop_fail = 'a parameter of the pattern is left unbound'
            elif exact != 'true':
                stats['nonexact_equiv'] += 1
                if comm == 'true' and res == m['sup']:
                    k = next((k for k in known if k['class'] == 'F5c'), None)
                    if k:
                        stats['known_f5c'] += 1
                        known_lines.add('KNOWN-FINDING: property=C09 F5c: %s' % k['what'])
                    # (documented congruence otherwise: parens, \'_ , extern "C", turbofish)
        else:
            if c[-1] == 'pos':
                prop_fail = 'an instance constructed by substitution is not recognised (completeness)'
        if c[-1] == 'pos':
            stats['pos_expected'] += 1
        if 'complete' in m and m['complete'] != 'nosubs':
            hyp, concl = m['complete'].split('\t')
            if hyp == 'true':
                stats['complete_theorem_instances'] += 1
                if not is_some:
                    prop_fail = prop_fail or 'completeness: b = apply(theta, a) with theta meeting the hypotheses of theorem C09_complete, yet no substitution is reported'
                elif concl != 'true':
                    prop_fail = prop_fail or 'completeness: the reported substitution differs from theta (conclusion of theorem C09_complete)'
        if c[-1] == 'neg' and is_some:
            prop_fail = prop_fail or 'a mismatch was glossed over (corpus negative answered Some)'
        if prop_fail:
            violations.append(dict(kind='property', request=reqs[i], impl=res, model=m['sup'], oracle=prop_fail))
        elif res != m['sup']:
            violations.append(dict(kind='correspondence', request=reqs[i], impl=res, model=m['sup'],
                                   oracle='corr:hook/sup: implementation and Coq model disagree'))
    return finish('C09', tier, seed, gate, cases, stats, nontrivial, violations, known_lines,
                  rule='corpus + exhaustive pairs of types (<=2 x <=3 nodes) and const expressions (<=3 nodes) over a small alphabet + random patterns with 2 instances each (b = a[theta], theta ground/parametric/non-injective/identity) + a single-point corruption of every instance + unrelated pairs; non-trivial = distinct request whose answer binds at least one parameter',
                  samples=[dict(request=reqs[i], impl=resp[i].split('\t')[-1][:300]) for i in range(0, len(reqs), max(1, len(reqs) // 6))][:6])


def finish(prop, tier, seed, gate, cases, stats, nontrivial, violations, known_lines, rule, samples, extra=None):
    import time
    out = 0
    for l in sorted(known_lines):
        print(l)
    reported = []
    if not gate['ok']:
        # a broken proof obligation: search already happened (the correspondence ran); if no
        # property-level failure was found, report no-failing-input-found
        prop_v = [v for v in violations if v['kind'] != 'correspondence']
        path = cm.write_replay(prop, dict(kind='proof-gate', failures=gate['failures'], theorems=gate['theorems'],
                                          failing_input=prop_v[0] if prop_v else None))
        print('VIOLATION property=%s replay=%s%s' % (prop, path, '' if prop_v else ' no-failing-input-found'))
        out = 1
    # property-level failures first, then pure correspondence failures
    prop_v = [v for v in violations if v['kind'] in ('property', 'crash')]
    corr_v = [v for v in violations if v['kind'] == 'correspondence']
    if prop_v:
        v = min(prop_v, key=lambda v: len(v['request']))
        path = cm.write_replay(prop, dict(v, others=len(prop_v) - 1))
        print('VIOLATION property=%s replay=%s' % (prop, path))
        out = 1
    elif corr_v:
        v = min(corr_v, key=lambda v: len(v['request']))
        path = cm.write_replay(prop, dict(v, others=len(corr_v) - 1,
                                          note='no input found on which the property oracle itself fails; the correspondence named in "oracle" no longer checks'))
        print('VIOLATION property=%s replay=%s no-failing-input-found' % (prop, path))
        out = 1
    cov = dict(obligations=len(gate['theorems']), discharged=sum(1 for _, s in gate['theorems'] if s.startswith('closed') or s.startswith('allowed')),
               checker_cmd='cd /verif/coq && make (coqc 8.16.1, full .vo) + coqc Properties.v (Print Assumptions) + source audit',
               trusted_base=cm.TRUSTED_BASE, theorems=gate['theorems'],
               evaluations=len(cases), distinct_nontrivial=len(nontrivial), rule=rule, samples=samples,
               traces_validated_against_impl=len(cases) - stats.get('unsupported', 0), stats=stats,
               proof_gate_failures=gate['failures'])
    if gate.get('coqchk'):
        cov['coqchk'] = gate['coqchk']
    if extra:
        cov.update(extra)
    return out, cov, len(violations) + (0 if gate['ok'] else 1)
