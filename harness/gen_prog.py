"""Generator of whole `disjoint_impls!` invocations + worlds + probes (DESIGN 7.2), and the
Rust programs that observe them (macro program, shadow-trait program)."""
import itertools, random

ATOMS = ['X0', 'X1', 'X2', 'X3']
GROUPS = ['GA', 'GB', 'GC']
TRAITS = {'D': ['G'], 'D2': ['G', 'H'], 'Dp': ['G'], 'Dp<u8>': ['G'], 'Dq': ['G'], 'Dl': ['G'], 'Dc<1>': ['G'], 'Dc<2>': ['G'],
          # dispatch traits named through a path: the same last segment as `D` one module down, and a
          # trait two modules down with a mirrored sibling (`y::x::Dn` is another trait)
          'legacy::D': ['G'], 'x::y::Dn': ['G'], 'y::x::Dn': ['G'], 'p::q::Dm': ['G']}


def assocs_of(tr):
    return TRAITS.get(tr) or TRAITS[tr.split('<')[0]]

PRELUDE = '''#![allow(dead_code, unused)]
extern crate self as me;
use disjoint_impls::disjoint_impls;
pub trait D { type G: ?Sized; }
pub trait D2 { type G: ?Sized; type H: ?Sized; }
pub trait Dp<P = ()> { type G: ?Sized; }
pub trait Dq<P: ?Sized> { type G: ?Sized; }
pub trait Dl<'a, 'b> { type G: ?Sized; }
pub trait Dc<const N: usize> { type G: ?Sized; }
pub trait Tr0 {}
pub mod legacy { pub trait D { type G: ?Sized; } }
pub mod x { pub mod y { pub trait Dn { type G: ?Sized; } } }
pub mod y { pub mod x { pub trait Dn { type G: ?Sized; } } }
pub mod p { pub mod q { pub trait Dm { type G: ?Sized; } } }
pub enum GA {} pub enum GB {} pub enum GC {} pub enum GD {}
pub struct X0; pub struct X1; pub struct X2; pub struct X3;
pub struct W<T, const N: usize>(core::marker::PhantomData<T>);
macro_rules! impls {
    ($t:ty : $($tr:tt)+) => {{
        struct Probe<T: ?Sized>(core::marker::PhantomData<T>);
        trait No { const V: bool = false; }
        impl<T: ?Sized> No for Probe<T> {}
        impl<T: ?Sized + $($tr)+> Probe<T> { const V: bool = true; }
        <Probe<$t>>::V
    }};
}
'''


class Block:
    """one user-written impl block.
    params: list of (kind, name) in declaration order, kind in 'lt','ty','const'
    header: (trait_args or None, self_ty) as format strings over canonical slot names {T0},{T1},{N0},{L0}
    bounds: list of (bounded fmt, trait name, {assoc: payload fmt}, place) place in 'inline','where'
    relaxed: set of slots with ?Sized (and where it is written)"""
    def __init__(self, slots, trait_args, self_ty, bounds, tag, relaxed=None, overrides=('NAME',), unsafe=False):
        self.slots = slots            # dict slot -> (kind, spelled name)
        self.order = list(slots)      # declaration order of slots
        self.trait_args = trait_args
        self.self_ty = self_ty
        self.bounds = bounds
        self.tag = tag
        self.relaxed = relaxed or {}
        self.overrides = set(overrides)
        self.unsafe = unsafe

    def fmt(self, s):
        return s.format(**{k: v[1] for k, v in self.slots.items()})

    def generics(self, with_bounds=True):
        parts = []
        for slot in self.order:
            kind, name = self.slots[slot]
            if kind == 'lt':
                o = getattr(self, 'lt_bounds', {}).get(slot)      # an inline outlives bound `'a: 'b`
                parts.append('%s: %s' % (name, self.slots[o][1]) if (o and with_bounds and o in self.slots) else name)
            elif kind == 'const':
                parts.append('const %s: usize' % name)
            else:
                bs = []
                if with_bounds:
                    if self.relaxed.get(slot) == 'inline':
                        bs.append(self.maybe_sized())
                    for bound in self.bounds:
                        if self.is_inline(bound) and bound[0] == '{%s}' % slot:
                            bs.append(self.bound_text(bound[1], bound[2]))
                parts.append(name + (': ' + ' + '.join(bs) if bs else ''))
        return '<%s>' % ', '.join(parts) if parts else ''

    def maybe_sized(self):
        # the relaxation may name `Sized` through a path; one spelling per block
        return getattr(self, 'sized_spelling', '?Sized')

    def bound_text(self, tr, binds):
        if tr == '__outlives__':
            return self.slots['L0'][1]
        if '{' in tr:
            tr = self.fmt(tr)
        if not binds:
            return tr
        bs = ', '.join('%s = %s' % (a, self.fmt(x)) for a, x in binds.items())
        if tr.endswith('>'):
            return '%s, %s>' % (tr[:-1], bs)
        return '%s<%s>' % (tr, bs)

    def is_inline(self, bound):
        bounded, tr, binds, place = bound
        return place == 'inline' and bounded.startswith('{') and bounded.endswith('}') and \
            bounded[1:-1] in self.slots and bounded.count('{') == 1 and self.slots[bounded[1:-1]][0] == 'ty'

    def where(self):
        preds = []
        for slot, place in self.relaxed.items():
            if place == 'where':
                preds.append('%s: %s' % (self.slots[slot][1], self.maybe_sized()))
        for bound in self.bounds:
            if not self.is_inline(bound):
                bounded, tr, binds, place = bound
                preds.append('%s: %s' % (self.fmt(bounded), self.bound_text(tr, binds)))
        return (' where ' + ', '.join(preds)) if preds else ''

    def header_text(self, trait_name):
        self_ty = self.fmt(self.self_ty)
        if trait_name is None:
            return self_ty
        targs = '<%s>' % self.fmt(self.trait_args) if self.trait_args else ''
        return '%s%s for %s' % (trait_name, targs, self_ty)


def trait_def(name, generics='', unsafe=False, with_fn=True, where='', with_type=False, by_value=False):
    # a const parameter of the trait is used in the trait's body (a defaulted item every block inherits)
    uses_const = '    fn arr() -> [u8; N] { [0; N] }\n    const TWICE: usize = N * 2;\n' if 'const N: usize' in generics else ''
    return ('pub %strait %s%s' + (' ' + where if where else '') + ' {\n    const NAME: &\'static str;\n    const ID: u8 = 0;\n'
            + ('    type Out;\n' if with_type else '') + ('    fn k(self) -> u8;\n' if by_value else '') + uses_const +
            '    fn f() -> &\'static str { "default" }\n}\n') % ('unsafe ' if unsafe else '', name, generics)


def block_text(b, trait_name, with_type=False, by_value=False):
    items = ['    const NAME: &\'static str = "%s";' % b.tag]
    if by_value:
        items.append('    fn k(self) -> u8 { %d }' % (int(b.tag[1:]) + 1))
    if with_type:
        items.append('    type Out = [u8; %d];' % (int(b.tag[1:]) + 1))
    if 'ID' in b.overrides:
        items.append('    const ID: u8 = %d;' % (int(b.tag[1:]) + 1))
    if 'f' in b.overrides:
        items.append('    fn f() -> &\'static str { "%s" }' % b.tag)
    return '%simpl%s %s%s {\n%s\n}\n' % ('unsafe ' if b.unsafe else '', b.generics(), b.header_text(trait_name), b.where(), '\n'.join(items))


def shadow_text(i, b, trait_generics_decl):
    """the same header and bounds as an impl of a private marker trait S<i>"""
    return 'pub trait S%d%s {}\nimpl%s %s%s {}\n' % (i, trait_generics_decl, b.generics(), b.header_text('S%d' % i), b.where())


def world_text(world):
    out = []
    for (ty, tr), groups in sorted(world.items()):
        if groups is None:
            continue
        out.append('impl %s for %s { %s }' % (tr, ty, ' '.join('type %s = %s;' % (a, g) for a, g in groups.items())))
    return '\n'.join(out) + '\n'


# ---- header templates: (self type fmt, slots used, instantiation choices) ----------------
HEADERS = {
    'T': ('{T0}', ['T0']),
    'pair': ('({T0}, {T1})', ['T0', 'T1']),
    'vec': ('Vec<{T0}>', ['T0']),
    'opt': ('Option<{T0}>', ['T0']),
    'box': ('Box<{T0}>', ['T0']),
    'ref': ("&{L0} {T0}", ['L0', 'T0']),
    'arr': ('[{T0}; {N0}]', ['T0', 'N0']),
    'vecpair': ('(Vec<{T0}>, {T1})', ['T0', 'T1']),
    'pairvec': ('({T0}, Vec<{T1}>)', ['T0', 'T1']),
    'dup': ('({T0}, {T0})', ['T0']),
    'w': ('W<{T0}, {N0}>', ['T0', 'N0']),
    'pairbox': ('({T0}, Box<{T1}>)', ['T0', 'T1']),
    'refpair': ("&{L0} ({T0}, Box<{T1}>)", ['L0', 'T0', 'T1']),
    'xpair': ('(X0, {T0})', ['T0']),
    'pairx': ('({T0}, X0)', ['T0']),
    'optpair': ('(Option<{T0}>, {T1})', ['T0', 'T1']),
    'vecvec': ('(Vec<{T0}>, Vec<{T1}>)', ['T0', 'T1']),
    'refvec': ("&{L0} Vec<{T0}>", ['L0', 'T0']),
    'arr2': ('[{T0}; 2]', ['T0']),
    'arrvec': ('[Vec<{T0}>; {N0}]', ['T0', 'N0']),
    'w3': ('W<{T0}, 3>', ['T0']),
    'optvec': ('(Option<{T0}>, Vec<{T1}>)', ['T0', 'T1']),
    'fnptr': ('fn({T0}) -> {T1}', ['T0', 'T1']),
    'fnvec': ('fn(Vec<{T0}>) -> Vec<{T1}>', ['T0', 'T1']),
    'fnarg': ('fn(Vec<{T0}>) -> {T1}', ['T0', 'T1']),
}
SPELL = {'T0': ['T', 'U', 'A', 'Elem', 'Tr', 'T0'], 'T1': ['U', 'T', 'B', 'Other', 'V', 'G'],
         'N0': ['N', 'M', 'LEN'], 'L0': ["'a", "'b", "'x"], 'L1': ["'y", "'c", "'p"], 'L2': ["'z", "'d", "'q"],
         'T9': ['P', 'Q', 'Pay', 'Item']}


class Picker:
    """systematic choice of a case's primary axes: with an index the named axes are enumerated
    in mixed radix (so a run of consecutive indices covers their cross product), without one
    they are random"""
    def __init__(self, rng, idx=None):
        self.rng, self.idx, self.radix = rng, idx, 1

    def choice(self, options):
        options = list(options)
        if self.idx is None:
            return self.rng.choice(options)
        v = options[(self.idx // self.radix) % len(options)]
        self.radix *= len(options)
        return v


def slot_kind(slot):
    return {'T': 'ty', 'N': 'const', 'L': 'lt'}[slot[0]]


def mk_slots(rng, used, canonical=False):
    slots = {}
    taken = set()
    for s in used:
        names = SPELL[s]
        name = names[0] if canonical else rng.choice([n for n in names if n not in taken])
        if s[0] == 'L':
            pass
        taken.add(name)
        slots[s] = (slot_kind(s), name)
    return slots


def gen_family(rng, hname, nblocks, tag0, key_choices=None, canonical_names=False, extra=True, relax=False, tr=None):
    """blocks of one flat family, pairwise distinguished on a shared key"""
    self_fmt, used = HEADERS[hname]
    tyslots = [s for s in used if s[0] == 'T']
    # the distinguishing key: bounded type over the header's slots
    cands = ['{%s}' % s for s in tyslots]
    if hname in ('vec', 'opt', 'box', 'vecpair', 'pair', 'arr', 'w', 'dup'):
        cands.append(self_fmt)
    if hname == 'vecpair':
        cands.append('Vec<{T0}>')
    if hname == 'pairvec':
        cands.append('Vec<{T1}>')
    bounded = rng.choice(key_choices or cands)
    tr = tr or rng.choice(['D', 'D', 'D2', 'Dp', 'Dp<u8>'])
    assoc = rng.choice(TRAITS[tr])
    groups = rng.sample(GROUPS, min(nblocks, 3))
    blocks = []
    for i in range(nblocks):
        slots = mk_slots(rng, used, canonical_names)
        order = list(slots)
        rng.shuffle(order)
        # lifetimes must be declared first
        order = [s for s in order if s[0] == 'L'] + [s for s in order if s[0] != 'L']
        binds = {assoc: groups[i % len(groups)]}
        if tr == 'D2' and rng.random() < 0.6:
            other = [a for a in TRAITS[tr] if a != assoc][0]
            binds[other] = rng.choice(GROUPS)
        bounds = [(bounded, tr, binds, rng.choice(['inline', 'where']))]
        if len(binds) > 1 and rng.random() < 0.6:
            # the same bound written in two pieces, each binding one associated type
            (a1, x1), (a2, x2) = list(binds.items())[:2]
            bounds = [(bounded, tr, {a1: x1}, rng.choice(['inline', 'where'])), (bounded, tr, {a2: x2}, rng.choice(['inline', 'where']))]
            rng.shuffle(bounds)
        if extra and rng.random() < 0.5 and len(tyslots) > 1:
            o = '{%s}' % rng.choice([s for s in tyslots if '{%s}' % s != bounded] or tyslots)
            bounds.append((o, rng.choice(['D', 'D2']), {} if rng.random() < 0.5 else {'G': rng.choice(GROUPS)}, rng.choice(['inline', 'where'])))
        rng.shuffle(bounds)
        relaxed = {}
        if relax and hname in ('T', 'box', 'ref'):
            r = rng.random()
            if r < 0.35:
                relaxed['T0'] = 'inline'
            elif r < 0.7:
                relaxed['T0'] = 'where'
        b = Block({s: slots[s] for s in order}, None, self_fmt, bounds, 'b%d' % (tag0 + i), relaxed=relaxed,
                  overrides=['NAME'] + (['ID'] if rng.random() < 0.5 else []) + (['f'] if rng.random() < 0.5 else []))
        blocks.append(b)
    return blocks


UNSIZED_OK = {'{T0}': ['T0'], 'Box<{T0}>': ['T0'], "&{L0} {T0}": ['T0'], '({T0}, Box<{T1}>)': ['T1'], "&{L0} ({T0}, Box<{T1}>)": ['T1']}


def instances(self_fmt, used, rng, limit=6, unsized=False):
    """ground instantiations of a header over the atoms: list of dict slot -> text"""
    pools = []
    for s in used:
        if s[0] == 'T':
            pool = list(ATOMS[:3]) + ['Vec<X0>']
            if unsized and s in UNSIZED_OK.get(self_fmt, []):
                pool += ['str', '[u8]']
            pools.append(pool)
        elif s[0] == 'N':
            pools.append(['2', '3'])
        else:
            pools.append(["'static"])
    combos = list(itertools.product(*pools))
    rng.shuffle(combos)
    return [dict(zip(used, c)) for c in combos[:limit]]


def subst_fmt(fmt, inst):
    return fmt.format(**inst)


class Case:
    def __init__(self, kind, trait_name, trait_generics, blocks, probes, world, note='', extra_world=''):
        self.extra_world = extra_world
        self.kind = kind
        self.trait_name = trait_name          # None => inherent mode
        self.trait_generics = trait_generics  # declaration text e.g. "<'a, P>" or ''
        self.blocks = blocks
        self.probes = probes                  # list of (trait_args text or None, self type text)
        self.world = world                    # dict (type text, trait) -> {assoc: group} | None
        self.note = note

    def invocation(self, order=None):
        blocks = self.blocks if order is None else [self.blocks[i] for i in order]
        wt = getattr(self, 'with_type', False)
        us = getattr(self, 'unsafe_trait', False)
        for b in blocks:
            b.unsafe = us
        bv = getattr(self, 'by_value', False)
        body = (trait_def(self.trait_name, self.trait_generics, where=getattr(self, 'trait_where', ''), with_type=wt, unsafe=us, by_value=bv) if self.trait_name else '')
        # the blocks may name the trait through a longer path (`self::K`): the same trait
        body += ''.join(block_text(b, getattr(self, 'trait_prefix', '') + self.trait_name, with_type=wt, by_value=bv) for b in blocks)
        return body

    def bound_of_probe(self, p):
        targs, ty = p
        return '%s: %s%s' % (ty, self.trait_name, '<%s>' % targs if targs else '')

    def macro_program(self, order=None, values_for=None):
        src = PRELUDE + world_text(self.world) + self.extra_world
        src += 'disjoint_impls! {\n%s}\n' % self.invocation(order)
        lines = []
        for j, p in enumerate(self.probes):
            targs, ty = p
            tr = '%s%s' % (self.trait_name, '<%s>' % targs if targs else '')
            if values_for is None:
                lines.append('    println!("P%d {}", impls!(%s: %s));' % (j, ty, tr))
            elif j in values_for and getattr(self, 'with_type', False):
                lines.append('    println!("V%d {} {} {} {}", <%s as %s>::NAME, <%s as %s>::ID, <%s as %s>::f(), core::any::type_name::<<%s as %s>::Out>().replace(" ", ""));' % (j, ty, tr, ty, tr, ty, tr, ty, tr))
            elif j in values_for:
                lines.append('    println!("V%d {} {} {}", <%s as %s>::NAME, <%s as %s>::ID, <%s as %s>::f());' % (j, ty, tr, ty, tr, ty, tr))
        src += 'fn main() {\n%s\n}\n' % '\n'.join(lines)
        return src

    def shadow_program(self):
        src = PRELUDE + world_text(self.world) + self.extra_world
        for i, b in enumerate(self.blocks):
            src += shadow_text(i, b, self.trait_generics)
        lines = []
        for j, (targs, ty) in enumerate(self.probes):
            for i in range(len(self.blocks)):
                lines.append('    println!("S%d_%d {}", impls!(%s: S%d%s));' % (j, i, ty, i, '<%s>' % targs if targs else ''))
        src += 'fn main() {\n%s\n}\n' % '\n'.join(lines)
        return src


def build_world_and_probes(rng, blocks, headers, unsized=False, nprobes=6, impl_rate=0.8, prefer_rate=0.0):
    """probes = ground instances of every block header; world = impls of the dispatch traits
    for the ground bounded types those instances induce"""
    probes, world = [], {}
    seen = set()
    for b, (self_fmt, used) in zip(blocks, headers):
        for inst in instances(self_fmt, used, rng, nprobes, unsized):
            ty = subst_fmt(self_fmt, inst)
            if ty in seen:
                continue
            seen.add(ty)
            probes.append((None, ty))
    # world: for every block and probe that matches its header textually, instantiate bounds
    for b, (self_fmt, used) in zip(blocks, headers):
        for inst in instances(self_fmt, used, rng, 50, unsized):
            for (bounded, tr, binds, place) in b.bounds:
                try:
                    ty = subst_fmt(bounded, inst)
                    trt = subst_fmt(tr, inst) if '{' in tr else tr
                except KeyError:
                    continue
                key = (ty, trt)
                if key not in world:
                    if rng.random() < impl_rate:
                        prefer = [g for g in binds.values() if g in GROUPS]
                        world[key] = {a: (rng.choice(prefer) if prefer and rng.random() < prefer_rate else rng.choice(GROUPS)) for a in assocs_of(tr)}
                    else:
                        world[key] = None
    # a few probes that match no header
    probes.append((None, 'X3'))
    probes.append((None, '*const X0'))
    return probes, world


def gen_targs_case(rng, variant=None, idx=None):
    """traits with lifetime / type / const parameters (bounds, defaults, ?Sized): blocks for
    generic and for concrete instantiations, families per instantiation"""
    variant = variant or rng.choice(['generic', 'concrete', 'lifetime', 'const', 'bounded', 'unsized_arg', 'mixed', 'default_omitted', 'nested_unsized', 'unsized_where', 'unsized_nested_arg', 'nested_arg', 'reflexive_mix', 'bounded_composite', 'repeated_arg', 'nested_arg_wild'])
    tr = rng.choice(['D', 'D2'])
    trait_where = ''
    pk = Picker(rng, idx)
    def fam(trait_args, self_fmt, used, groups, tag0, extra_bounds=(), relaxed=None):
        out = []
        for i, g in enumerate(groups):
            slots = mk_slots(rng, used)
            order = list(slots); rng.shuffle(order)
            order = [x for x in order if x[0] == 'L'] + [x for x in order if x[0] != 'L']
            bounds = [('{T0}', tr, {'G': g}, rng.choice(['inline', 'where']))] + [(b, t, dict(bi), rng.choice(['inline', 'where'])) for (b, t, bi) in extra_bounds]
            out.append(Block({x: slots[x] for x in order}, trait_args, self_fmt, bounds, 'b%d' % (tag0 + i), relaxed=dict(relaxed or {}),
                             overrides=['NAME'] + (['ID'] if rng.random() < 0.5 else [])))
        return out
    extra_world = ''
    atoms = ATOMS[:3]
    if variant == 'generic':
        tg = '<P>'
        blocks = fam('{T1}', '{T0}', ['T0', 'T1'], rng.sample(GROUPS, 2), 0)
        targs_pool = ['X0', 'X1', 'Vec<X0>']
    elif variant == 'concrete':
        tg = '<P>'
        blocks = fam('X0', '{T0}', ['T0'], rng.sample(GROUPS, 2), 0) + fam('X1', '{T0}', ['T0'], rng.sample(GROUPS, 2), 2)
        if rng.random() < 0.5:
            blocks += fam('Vec<{T1}>', '{T0}', ['T0', 'T1'], rng.sample(GROUPS, 2), 4)
        targs_pool = ['X0', 'X1', 'X2', 'Vec<X0>']
    elif variant == 'lifetime':
        tg = "<'a, P: 'a>"
        blocks = fam("{L0}, {T1}", "&{L0} {T0}", ['L0', 'T0', 'T1'], rng.sample(GROUPS, 2), 0, extra_bounds=[('{T1}', "'static", {})][:0])
        for b in blocks:
            b.bounds.append(('{T1}', "__outlives__", {}, 'where'))
        targs_pool = ["'static, X0", "'static, X1"]
    elif variant == 'const':
        tg = '<P, const N: usize>'
        blocks = fam('{T1}, 2', '{T0}', ['T0', 'T1'], rng.sample(GROUPS, 2), 0) + fam('{T1}, 3', '{T0}', ['T0', 'T1'], rng.sample(GROUPS, 2), 2)
        if rng.random() < 0.5:
            blocks = fam('{T1}, {N0}', '{T0}', ['T0', 'T1', 'N0'], rng.sample(GROUPS, 2), 0)
        targs_pool = ['X0, 2', 'X1, 3', 'X0, 4']
    elif variant == 'bounded':
        tg = '<P: Tr0>'
        blocks = fam('{T1}', '{T0}', ['T0', 'T1'], rng.sample(GROUPS, 2), 0, extra_bounds=[('{T1}', 'Tr0', {})])
        extra_world = 'impl Tr0 for X0 {}\nimpl Tr0 for Vec<X0> {}\n'
        targs_pool = ['X0', 'Vec<X0>']
    elif variant == 'unsized_arg':
        tg = '<P: ?Sized>'
        blocks = fam('{T1}', '{T0}', ['T0', 'T1'], rng.sample(GROUPS, 2), 0, relaxed={'T1': rng.choice(['inline', 'where'])})
        targs_pool = ['X0', 'str', '[u8]']
    elif variant == 'bounded_composite':
        # a bounded trait parameter given a type built from a parameter of the block
        tg = pk.choice(['<P: ?Sized + Tr0>', '<P: Tr0>'])
        wrap = pk.choice(['({T1},)', 'Vec<{T1}>', 'Box<{T1}>', '&\'static {T1}', '[{T1}; 2]'])
        blocks = fam(wrap, '{T0}', ['T0', 'T1'], rng.sample(GROUPS, 2), 0, extra_bounds=[(wrap, 'Tr0', {})])
        extra_world = 'impl Tr0 for %s {}\n' % wrap.format(T1='X0')
        targs_pool = [wrap.format(T1='X0')]
    elif variant == 'unsized_where':
        # ?Sized declared inline on the trait parameter, and a where-clause on the same parameter
        # in the trait definition (the where predicate comes first in the generated main impl)
        tg = '<P: ?Sized>'
        trait_where = 'where P: Tr0'
        blocks = fam('{T1}', '{T0}', ['T0', 'T1'], rng.sample(GROUPS, 2), 0, extra_bounds=[('{T1}', 'Tr0', {})],
                     relaxed={'T1': rng.choice(['inline', 'where'])})
        extra_world = 'impl Tr0 for X0 {}\nimpl Tr0 for str {}\nimpl Tr0 for [u8] {}\n'
        targs_pool = ['X0', 'str', '[u8]']      # `K<X1>` would be ill-formed (X1: Tr0 does not hold)
    elif variant == 'unsized_where_overlap':
        # the trait of `unsized_where`, a general block over the relaxed parameter and a block for
        # the unsized argument `str` with the SAME row: they overlap (witness: any type of that
        # row with the argument str), whatever order the predicates of the main impl come in
        tg = '<P: ?Sized>'
        trait_where = 'where P: Tr0'
        g0 = rng.choice(GROUPS)
        pl = lambda: rng.choice(['inline', 'where'])
        b0 = Block(mk_slots(rng, ['T0', 'T1']), '{T1}', '{T0}', [('{T0}', tr, {'G': g0}, pl()), ('{T1}', 'Tr0', {}, pl())], 'b0', relaxed={'T1': pl()})
        b1 = Block(mk_slots(rng, ['T0']), pk.choice(['str', '[u8]']), '{T0}', [('{T0}', tr, {'G': g0}, pl())], 'b1')
        blocks = [b0, b1]
        extra_world = 'impl Tr0 for X0 {}\nimpl Tr0 for str {}\nimpl Tr0 for [u8] {}\n'
        targs_pool = ['X0', 'str', '[u8]']
    elif variant == 'unsized_nested_arg':
        # a relaxed parameter that is not dispatched on and occurs in the header only nested
        # inside a trait argument: K<Box<V>> for T, V: ?Sized
        tg = '<P>'
        wrap = rng.choice(['Box<{T1}>', "&'static {T1}"])
        blocks = fam(wrap, '{T0}', ['T0', 'T1'], rng.sample(GROUPS, 2), 0, relaxed={'T1': rng.choice(['inline', 'where'])})
        if rng.random() < 0.5:
            blocks[0].relaxed = {}       # only one block relaxes
        targs_pool = [wrap.format(T1=x) for x in ('X0', 'str', '[u8]')]
    elif variant == 'nested_arg':
        # a member nested through a trait argument, with a wildcard key and a bound of its own
        # on the inner parameter:  K<U> for T (T: D2<G=.., H=..>)  >  K<Vec<U>> for T (T: D2<G=..>, U: D<G=..>)
        tg = '<P>'
        tr = 'D2'
        g = rng.sample(GROUPS, 3)
        pl = lambda: rng.choice(['inline', 'where'])
        on_arg = rng.random() < 0.5        # the key is on the trait-argument parameter itself
        kb, nkb = ('{T1}', 'Vec<{T1}>') if on_arg else ('{T0}', '{T0}')
        general = [Block(mk_slots(rng, ['T0', 'T1']), '{T1}', '{T0}', [(kb, 'D2', {'G': g[i], 'H': rng.choice(GROUPS)}, pl())], 'b%d' % i) for i in range(rng.choice([1, 2]))]
        nb = Block(mk_slots(rng, ['T0', 'T1']), 'Vec<{T1}>', '{T0}', [(nkb, 'D2', {'G': g[2]}, 'where' if on_arg else pl()), ('{T1}', 'D', {'G': rng.choice(GROUPS)}, pl())], 'bn')
        blocks = general + [nb]
        targs_pool = ['X0', 'X1', 'Vec<X0>', 'Vec<X1>']
    elif variant == 'repeated_arg':
        # one parameter given for two trait arguments, next to an instantiation that differs at
        # those positions:  K<U, U> for T   |   K<X0, X1> for T   (two families)
        tg = '<P, Q>'
        g = rng.sample(GROUPS, 3)
        pl = lambda: rng.choice(['inline', 'where'])
        rep = [Block(mk_slots(rng, ['T0', 'T1']), '{T1}, {T1}', '{T0}', [('{T0}', tr, {'G': g[i]}, pl())], 'b%d' % i) for i in range(2)]
        a0, a1 = rng.choice([('X0', 'X1'), ('X1', 'X0'), ('Vec<X0>', 'X0')])
        other = [Block(mk_slots(rng, ['T0']), '%s, %s' % (a0, a1), '{T0}', [('{T0}', tr, {'G': g[2]}, pl())], 'b2')]
        if rng.random() < 0.5:
            other.append(Block(mk_slots(rng, ['T0']), '%s, %s' % (a0, a1), '{T0}', [('{T0}', tr, {'G': g[0]}, pl())], 'b3'))
        blocks = rep + other
        if rng.random() < 0.5:
            blocks = other + rep
        targs_pool = ['X0, X0', 'X1, X1', '%s, %s' % (a0, a1), 'X0, X2']
    elif variant == 'nested_arg_wild':
        # a member nested through a trait argument that leaves the key of that position open:
        #   K<U> for T (T: D<G=..>, U: D2<G=..>)  >  K<Vec<U>> for T (T: D<G=..>, Vec<U>: D2)
        # its helper impl names the open key by a projection over ITS OWN header: <Vec<U> as D2>::G
        tg = '<P>'
        g = rng.sample(GROUPS, 3)
        pl = lambda: rng.choice(['inline', 'where'])
        general = [Block(mk_slots(rng, ['T0', 'T1']), '{T1}', '{T0}', [('{T0}', 'D', {'G': g[i]}, pl()), ('{T1}', 'D2', {'G': rng.choice(GROUPS)}, pl())], 'b%d' % i) for i in range(2)]
        nb = Block(mk_slots(rng, ['T0', 'T1']), 'Vec<{T1}>', '{T0}', [('{T0}', 'D', {'G': g[2]}, pl()), ('Vec<{T1}>', 'D2', {}, 'where')], 'bn')
        blocks = general + [nb]
        targs_pool = ['X0', 'X1', 'Vec<X0>', 'Vec<X1>']
    elif variant == 'reflexive_mix':
        # a parameter shared by the trait arguments and the self type, next to headers that
        # instantiate the two occurrences differently
        tg = '<P>'
        g = rng.sample(GROUPS, 3)
        pl = lambda: rng.choice(['inline', 'where'])
        b0 = Block(mk_slots(rng, ['T0']), '{T0}', '{T0}', [('{T0}', tr, {'G': g[0]}, pl())], 'b0')
        b1 = Block(mk_slots(rng, ['T0']), 'X0', 'Vec<{T0}>', [('Vec<{T0}>', tr, {'G': g[1]}, 'where')], 'b1')
        b2 = Block(mk_slots(rng, ['T0']), 'X1', '{T0}', [('{T0}', tr, {'G': g[2]}, pl())], 'b2')
        blocks = [b0, b1] + ([b2] if rng.random() < 0.6 else [])
        targs_pool = ['X0', 'X1', 'Vec<X0>']
    elif variant == 'default_omitted':
        # a defaulted (bounded) trailing parameter omitted at every use site, after a lifetime
        # or const parameter
        shape = pk.choice(['relaxed', 'lt', 'const_first', 'const_default'])
        if shape == 'lt':
            tg = "<'a, P: 'a, Q: Tr0 = X0>"
            blocks = fam("{L0}, {T1}", "&{L0} {T0}", ['L0', 'T0', 'T1'], rng.sample(GROUPS, 2), 0)
            for b in blocks:
                b.bounds.append(('{T1}', "__outlives__", {}, 'where'))
            targs_pool = ["'static, X1", "'static, X0", "'static, X1, Vec<X0>"]
        elif shape == 'const_first':
            tg = '<const N: usize, P, Q: Tr0 = X0>'
            blocks = fam('2, {T1}', '{T0}', ['T0', 'T1'], rng.sample(GROUPS, 2), 0)
            targs_pool = ['2, X1', '2, X0, Vec<X0>', '3, X1']
        elif shape == 'const_default':
            # a defaulted CONST parameter omitted at the use site (the trait's items mention it)
            tg = '<P, const N: usize = 3>'
            blocks = fam('{T1}', '{T0}', ['T0', 'T1'], rng.sample(GROUPS, 2), 0)
            targs_pool = ['X1', 'X0', 'X1, 2']
        else:
            # a RELAXED defaulted parameter omitted at the use site: its default is a concrete
            # (here unsized) type, no bound of it may reach the main impl
            tg = rng.choice(['<P, Q: ?Sized = str>', '<P, Q: ?Sized + Tr0 = str>', "<'a, P: 'a, Q: ?Sized = [u8]>"])
            if tg.startswith("<'a"):
                blocks = fam("{L0}, {T1}", "&{L0} {T0}", ['L0', 'T0', 'T1'], rng.sample(GROUPS, 2), 0)
                for b in blocks:
                    b.bounds.append(('{T1}', "__outlives__", {}, 'where'))
                targs_pool = ["'static, X1", "'static, X0"]
            else:
                blocks = fam('{T1}', '{T0}', ['T0', 'T1'], rng.sample(GROUPS, 2), 0)
                targs_pool = ['X1', 'X0', 'X1, X0']
            extra_world = 'impl Tr0 for str {}\n'
        extra_world = extra_world + 'impl Tr0 for X0 {}\nimpl Tr0 for Vec<X0> {}\n'
    elif variant == 'nested_unsized':
        # a ?Sized trait parameter; a general block `K<U> for T` next to the reflexive `K<T> for T`
        tg = '<P: ?Sized>'
        g = rng.sample(GROUPS, 3)
        rel = lambda: rng.choice(['inline', 'where'])
        b0 = Block(mk_slots(rng, ['T0', 'T1']), '{T1}', '{T0}', [('{T0}', tr, {'G': g[0]}, rel())], 'b0', relaxed=rng.choice([{'T1': rel()}, {'T1': rel()}, {'T0': rel(), 'T1': rel()}, {}]))
        b1 = Block(mk_slots(rng, ['T0']), '{T0}', '{T0}', [('{T0}', tr, {'G': g[1]}, rel())], 'b1', relaxed={'T0': rel()})
        b2 = Block(mk_slots(rng, ['T0']), 'X0', '{T0}', [('{T0}', tr, {'G': g[2]}, rel())], 'b2', relaxed=({'T0': rel()} if rng.random() < 0.5 else {}))
        blocks = [b0, b1] + ([b2] if rng.random() < 0.5 else [])
        targs_pool = ['X0', 'str', '[u8]', 'X1']
        if pk.choice([False, True, False]):
            # the trait parameter itself must be Sized: only the self parameter is relaxed, by the
            # general block and / or by the member nested through the concrete argument (whose
            # canonical name for the self parameter is the group's name for the trait argument)
            tg = '<P>'
            b0.relaxed = rng.choice([{}, {'T0': rel()}])
            b2.relaxed = {'T0': rel()}
            blocks = [b0, b2]
            targs_pool = ['X0', 'X1']
    else:
        tg = "<'a, P: 'a + ?Sized, const N: usize>"
        blocks = fam("{L0}, {T1}, {N0}", "&{L0} {T0}", ['L0', 'T0', 'T1', 'N0'], rng.sample(GROUPS, 2), 0, relaxed={'T1': 'where'})
        for b in blocks:
            b.bounds.append(('{T1}', "__outlives__", {}, 'where'))
        targs_pool = ["'static, X0, 2", "'static, str, 3"]
    order = list(range(len(blocks))); rng.shuffle(order)
    blocks = [blocks[i] for i in order]
    for i, b in enumerate(blocks):
        b.tag = 'b%d' % i
    # probes: self types x argument lists
    self_pool = ["&'static X0", "&'static X1", "&'static X2"] if variant in ('lifetime', 'mixed') or tg.startswith("<'a") else ['X0', 'X1', 'X2', 'Vec<X0>']
    if variant == 'nested_unsized':
        self_pool = ['X0', 'X1', 'str', '[u8]']
    if variant == 'reflexive_mix':
        self_pool = ['X0', 'X1', 'Vec<X0>', 'Vec<X1>']
    probes = [(ta, ty) for ty in self_pool for ta in targs_pool]
    rng.shuffle(probes)
    probes = probes[:12]
    world = {}
    for ty in ['X0', 'X1', 'X2', 'Vec<X0>'] + (['str', '[u8]'] if variant == 'nested_unsized' else []) + (['Vec<X1>'] if variant in ('reflexive_mix', 'nested_arg') else []):
        world[(ty, tr)] = {a: rng.choice(GROUPS) for a in TRAITS[tr]} if rng.random() < 0.85 else None
    if variant == 'nested_arg':
        for ty in ['X0', 'X1', 'X2']:
            world[(ty, 'D')] = {'G': rng.choice(GROUPS)} if rng.random() < 0.85 else None
    if variant == 'unsized_where_overlap':
        world[('X0', tr)] = {a: g0 for a in TRAITS[tr]}      # the witness
    c = Case('targs:' + variant, 'K', tg, blocks, probes, world, extra_world=extra_world)
    c.trait_where = trait_where
    return c


def gen_combo(rng, idx=None):
    """compositional generator: the feature axes are chosen independently (trait signature x
    header x how the trait arguments are given x nested specialisations x keys (trait, bounded
    type, payload form, second key with wildcards) x ?Sized x extra bounds x placement), the
    blocks of a family are pairwise distinguished on the first key by construction"""
    pk = Picker(rng, idx)
    # ---- trait signature: list of (kind, decl text) ; P may be bounded / relaxed
    sig = pk.choice(['none', 'P', 'aP', 'PN', 'aPN', 'PQ'])
    pbound = pk.choice(['', 'Tr0', '?Sized'])
    nested_how = pk.choice(['none', 'wrap', 'concrete', 'identify', 'arg', 'two'])
    root_h = pk.choice(['T', 'pair', 'box', 'ref'])
    key_tr = pk.choice(['D', 'D2', 'Dp', 'Dp<u8>', 'Dc<1>'])
    payload = pk.choice(['ground', 'generic'])
    decl = {'none': [], 'P': ['P'], 'aP': ["'a", 'P'], 'PN': ['P', 'N'], 'aPN': ["'a", 'P', 'N'], 'PQ': ['P', 'Q']}[sig]
    parts = []
    for d in decl:
        if d == "'a":
            parts.append("'a")
        elif d == 'P':
            b = [x for x in [("'a" if "'a" in decl else ''), pbound] if x]
            parts.append('P' + (': ' + ' + '.join(b) if b else ''))
        elif d == 'N':
            parts.append('const N: usize')
        else:
            parts.append('Q: Tr0 = X0')
    tg = '<%s>' % ', '.join(parts) if parts else ''
    self_fmt, used0 = HEADERS[root_h]
    used = list(used0)
    if 'P' in decl and 'T1' not in used:
        used.append('T1')
    if "'a" in decl and 'L0' not in used:
        used.append('L0')
    if 'N' in decl:
        used.append('N0')
    # the trait arguments of the root blocks: bare parameters (P := T1; N := N0 or a literal)
    n_lit = 'N' in decl and rng.random() < 0.4
    def targs(p_arg='{T1}', n_arg=None):
        out = []
        for d in decl:
            if d == "'a":
                out.append('{L0}')
            elif d == 'P':
                out.append(p_arg)
            elif d == 'N':
                out.append(n_arg or ('3' if n_lit else '{N0}'))
        return ', '.join(out) if out else None
    if n_lit and 'N0' in used and '{N0}' not in self_fmt:
        used.remove('N0')
    assoc = 'G'
    key_b = '{T0}'
    pl = lambda: rng.choice(['inline', 'where'])
    groups = list(GROUPS) + ['GD']
    rng.shuffle(groups)
    def payload_of(g, slots_used):
        if payload == 'generic' and g in ('GA', 'GB'):
            return {'GA': 'Vec<{T9}>', 'GB': 'Option<{T9}>'}[g]
        return g
    nroot = pk.choice([1, 2, 2])
    second_key = 'T1' in used and rng.random() < 0.4      # a second key on T1 with wildcards in some blocks
    def mk_block(self_f, ta, used_slots, key_bounded, g, tag, relaxed=None, extra=()):
        row = payload_of(g, used_slots)
        u = list(used_slots) + (['T9'] if '{T9}' in row else [])
        slots = mk_slots(rng, u)
        order = list(slots); rng.shuffle(order)
        order = [x for x in order if x[0] == 'L'] + [x for x in order if x[0] != 'L']
        binds = {assoc: row}
        if key_tr == 'D2' and rng.random() < 0.5:
            binds['H'] = rng.choice(GROUPS)
        bounds = [(key_bounded, key_tr, binds, pl())]
        if second_key and '{T1}' in (self_f + (ta or '')):
            bounds.append(('{T1}', 'D', ({'G': rng.choice(GROUPS)} if rng.random() < 0.6 else {}), pl()))
        if 'P' in decl and pbound == 'Tr0' and ta and '{T1}' in ta:
            pa = [x.strip() for x in ta.split(',') if '{T1}' in x][0]
            bounds.append((pa, 'Tr0', {}, pl() if pa == '{T1}' else 'where'))
        if "'a" in decl and 'P' in decl and ta and '{T1}' in ta:
            pa = [x.strip() for x in ta.split(',') if '{T1}' in x][0]
            bounds.append(('{T1}', '__outlives__', {}, 'where'))     # T: 'x (implies Vec<T>: 'x)
        for e in extra:
            bounds.append(e)
        rng.shuffle(bounds)
        return Block({x: slots[x] for x in order}, ta, self_f, bounds, tag, relaxed=dict(relaxed or {}),
                     overrides=['NAME'] + (['ID'] if rng.random() < 0.5 else []))
    relax_p = {'T1': pl()} if ('P' in decl and pbound == '?Sized' and rng.random() < 0.7) else {}
    blocks, headers = [], []
    for i in range(nroot):
        blocks.append(mk_block(self_fmt, targs(), used, key_b, groups[i], 'r%d' % i, relaxed=relax_p))
        headers.append((self_fmt, [x for x in used]))
    # ---- nested members
    def nested(kind_, g, tag):
        if kind_ == 'wrap' and root_h in ('T', 'pair'):
            sf = self_fmt.replace('{T0}', 'Vec<{T0}>', 1)
            return mk_block(sf, targs(), used, 'Vec<{T0}>', g, tag, relaxed=relax_p), (sf, list(used))
        if kind_ == 'concrete' and root_h == 'pair':
            sf = '({T0}, X0)'          # T1 := X0 everywhere, also as the trait argument
            u = [x for x in used if x != 'T1']
            return mk_block(sf, targs(p_arg='X0'), u, '{T0}', g, tag), (sf, u)
        if kind_ == 'identify' and root_h == 'pair' and 'P' not in decl:
            sf = '({T0}, {T0})'
            u = [x for x in used if x != 'T1']
            return mk_block(sf, targs(), u, '{T0}', g, tag), (sf, u)
        if kind_ == 'arg' and 'P' in decl and pbound != 'Tr0':
            ta = targs(p_arg='Vec<{T1}>')
            return mk_block(self_fmt, ta, used, key_b, g, tag), (self_fmt, list(used))
        return None
    kinds_n = {'none': [], 'wrap': ['wrap'], 'concrete': ['concrete'], 'identify': ['identify'], 'arg': ['arg'], 'two': ['wrap', 'arg']}[nested_how]
    gi = nroot
    for kn in kinds_n:
        r = nested(kn, groups[gi % len(groups)], 'n%d' % gi)
        if r:
            blocks.append(r[0]); headers.append(r[1]); gi += 1
    order = list(range(len(blocks)))
    if pk.choice([False, True]):
        rng.shuffle(order)
    blocks = [blocks[i] for i in order]; headers = [headers[i] for i in order]
    for i, b in enumerate(blocks):
        b.tag = 'b%d' % i
    # ---- probes and world
    atoms = ATOMS[:3]
    self_pool = []
    for (sf, u) in headers:
        for inst in instances(sf, [x for x in u if '{%s}' % x in sf], rng, 6, unsized=(pbound == '?Sized')):
            ty = subst_fmt(sf, inst)
            if ty not in self_pool:
                self_pool.append(ty)
    rng.shuffle(self_pool)
    p_pool = ['X0', 'X1', 'Vec<X0>'] + (['str'] if pbound == '?Sized' else [])
    if pbound == 'Tr0':
        p_pool = ['X0', 'Vec<X0>']
    ta_pool = [None]
    if decl:
        ta_pool = []
        for pa in p_pool:
            out = []
            for d in decl:
                if d == "'a":
                    out.append("'static")
                elif d == 'P':
                    out.append(pa)
                elif d == 'N':
                    out.append(rng.choice(['3', '3', '2']))
            ta_pool.append(', '.join(out))
    if "'a" in decl:
        self_pool = [t for t in self_pool]
    probes = [(ta, ty) for ty in self_pool[:6] for ta in ta_pool][:14]
    world = {}
    tys = set()
    for (ta, ty) in probes:
        tys.add(ty)
    base = ['X0', 'X1', 'X2', 'Vec<X0>', 'Vec<X1>', 'str'] + sorted(tys)
    for ty in base:
        for trn in {key_tr, 'D'}:
            if rng.random() < 0.85:
                vals = {}
                for a_ in assocs_of(trn):
                    g = rng.choice(groups[:max(2, len(blocks))])
                    vals[a_] = rng.choice(['Vec<X0>', 'Option<X1>', g]) if (payload == 'generic' and trn == key_tr and rng.random() < 0.6) else (g if g != 'GD' or trn == key_tr else 'GA')
                world[(ty, trn)] = vals
    extra_world = 'impl Tr0 for X0 {}\nimpl Tr0 for Vec<X0> {}\n' if ('Q' in decl or pbound == 'Tr0') else ''
    c = Case('combo', 'K', tg, blocks, probes, world, extra_world=extra_world)
    c.combo = dict(sig=sig, pbound=pbound, nested=nested_how, root=root_h, key=key_tr, payload=payload)
    return c


def gen_case(rng, kind, idx=None):
    pk = Picker(rng, idx)
    if kind == 'combo':
        return gen_combo(rng, idx)
    if kind == 'targs':
        return gen_targs_case(rng)
    if kind.startswith('targs:'):
        return gen_targs_case(rng, kind.split(':')[1], idx=idx)
    if kind == 'flat':
        h = pk.choice(['T', 'pair', 'vec', 'opt', 'box', 'arr', 'vecpair', 'w', 'dup', 'ref'])
        blocks = gen_family(rng, h, rng.choice([2, 2, 3]), 0, tr=pk.choice(['D', 'D2', 'Dp', 'Dp<u8>', 'Dc<1>', 'Dc<2>']))
        headers = [HEADERS[h]] * len(blocks)
    elif kind == 'unsized':
        h = pk.choice(['T', 'box', 'ref'])
        blocks = gen_family(rng, h, pk.choice([2, 3]), 0, relax=True, tr=pk.choice(['D', 'D2', 'Dp', 'Dp<u8>']))
        headers = [HEADERS[h]] * len(blocks)
        for i, b in enumerate(blocks):
            b.tag = 'b%d' % i
        probes, world = build_world_and_probes(rng, blocks, headers, unsized=True, nprobes=10)
        return Case(kind, 'K', '', blocks, probes, world)
    elif kind in ('unsized2', 'unsized2x'):
        # a family dispatched on two parameters; some blocks relax Sized on the boxed one,
        # inline or in the where-clause; a sibling may leave that key as a wildcard
        h = pk.choice(['pairbox', 'refpair'])
        self_fmt, used = HEADERS[h]
        tr = pk.choice(['D', 'D2'])
        rows = pk.choice([
            [('GA', 'GA'), ('GA', 'GB'), ('GB', None)],
            [('GA', 'GA'), ('GB', 'GA')],
            [('GA', None), ('GB', 'GC'), ('GC', 'GA')],
            [('GA', 'GA'), ('GA', 'GB'), ('GB', 'GB'), ('GC', None)],
        ] + ([
            # neither row covers the other, yet the blocks overlap (rustc rejects the helper impls):
            # only for the correspondence of the family search (C11), not for acceptance oracles
            [('GA', None), (None, 'GB')],
            [('GA', None), (None, 'GB'), ('GB', 'GC')],
        ] if kind == 'unsized2x' else []))
        blocks = []
        for i, (g0, g1) in enumerate(rows):
            slots = mk_slots(rng, used)
            order = list(slots); rng.shuffle(order)
            order = [x for x in order if x[0] == 'L'] + [x for x in order if x[0] != 'L']
            bounds = [('{T0}', tr, ({'G': g0} if g0 else {}), rng.choice(['inline', 'where'])),
                      ('{T1}', tr, ({'G': g1} if g1 else {}), rng.choice(['inline', 'where']))]
            rng.shuffle(bounds)
            relaxed = {}
            r = rng.random()
            if r < 0.4:
                relaxed['T1'] = 'inline'
            elif r < 0.8:
                relaxed['T1'] = 'where'
            blocks.append(Block({x: slots[x] for x in order}, None, self_fmt, bounds, 'b%d' % i, relaxed=relaxed))
        headers = [HEADERS[h]] * len(blocks)
        probes, world = build_world_and_probes(rng, blocks, headers, unsized=True, nprobes=14, impl_rate=0.9)
        return Case(kind, 'K', '', blocks, probes, world)
    elif kind == 'chain3':
        # a chain of three headers (T > Vec<T> > Vec<Vec<T>>, alone or inside a pair), one block each
        # (optionally two at the root), every order of the blocks is a different processing order
        wrap = pk.choice(['{T0}', '({T0}, {T1})', '({T1}, {T0})'])
        used = ['T0'] + (['T1'] if '{T1}' in wrap else [])
        lv = ['{T0}', 'Vec<{T0}>', 'Vec<Vec<{T0}>>']
        if pk.choice([False, True]):
            lv = ['{T0}', 'Option<{T0}>', 'Option<Vec<{T0}>>']
        tr = pk.choice(['D', 'D2'])
        rows = ['GA', 'GB', 'GC']
        specs = [(0, 'GA'), (1, 'GB'), (2, 'GC')] + ([(0, 'GB')] if pk.choice([False, True]) else [])
        order = pk.choice([[0, 2, 1], [2, 0, 1], [2, 1, 0], [0, 1, 2], [1, 2, 0], [1, 0, 2]])
        blocks, headers = [], []
        for (level, g) in specs:
            self_fmt = wrap.replace('{T0}', lv[level])
            slots = mk_slots(rng, used)
            blocks.append(Block(dict(slots), None, self_fmt, [(lv[level], tr, {'G': g}, 'where' if level else rng.choice(['inline', 'where']))], 'b'))
            headers.append((self_fmt, used))
        idx_order = order + list(range(3, len(blocks)))
        blocks = [blocks[i] for i in idx_order]; headers = [headers[i] for i in idx_order]
        for i, b in enumerate(blocks):
            b.tag = 'b%d' % i
        probes, world = build_world_and_probes(rng, blocks, headers, nprobes=8, impl_rate=0.95, prefer_rate=0.7)
        return Case(kind, 'K', '', blocks, probes, world)
    elif kind == 'overlap_repeat':
        # a key repeated with another key written in between, the binding on the later occurrence:
        #   b0: T: D<G = GA>      b1: T: D2 + D, where T: D2<G = GB>
        # b1 leaves (T, D) open, so a type with D<G = GA> and D2<G = GB> satisfies both blocks
        h = pk.choice(['T', 'vec', 'pair'])
        self_fmt, used = HEADERS[h]
        ta, tb = pk.choice([('D', 'D2'), ('D2', 'D'), ('D', 'Dp'), ('Dp<u8>', 'D')])
        pl = lambda: rng.choice(['inline', 'where'])
        b0 = Block(mk_slots(rng, used), None, self_fmt, [('{T0}', ta, {'G': 'GA'}, pl())], 'b0')
        first = pk.choice(['inline', 'where'])
        b1 = Block(mk_slots(rng, used), None, self_fmt, [('{T0}', tb, {}, first), ('{T0}', ta, {}, first), ('{T0}', tb, {'G': 'GB'}, 'where')], 'b1')
        blocks = [b0, b1] if pk.choice([True, False]) else [b1, b0]
        for i, b in enumerate(blocks):
            b.tag = 'b%d' % i
        headers = [HEADERS[h]] * 2
        probes, world = build_world_and_probes(rng, blocks, headers, nprobes=6, impl_rate=1.0)
        for (ty, trt) in list(world):
            if trt == ta:
                world[(ty, trt)] = {a: 'GA' for a in assocs_of(ta)}
            if trt == tb:
                world[(ty, trt)] = {a: 'GB' for a in assocs_of(tb)}
        return Case(kind, 'K', '', blocks, probes, world)
    elif kind == 'refmut_overlap':
        # round 10 (seeds C04j, C11j): a `&T` block next to TWO `&mut T` blocks with the same payload
        # (a genuine overlap: `&mut X0` satisfies both), in all six orders: must be rejected; a
        # matcher for which `&T` generalises `&mut T` parks one of the two in the `&T` family
        ga, gb = [('GA', 'GB'), ('GB', 'GC'), ('GC', 'GA')][(idx or 0) // 6 % 3]
        tr = 'D'
        spec = [("&{L0} {T0}", ga), ("&{L0} mut {T0}", gb), ("&{L0} mut {T0}", gb)]
        import itertools as _it
        order = list(_it.permutations(range(3)))[(idx or 0) % 6]
        blocks = []
        for n_, j in enumerate(order):
            slots = mk_slots(rng, ['L0', 'T0'])
            blocks.append(Block({x: slots[x] for x in ['L0', 'T0']}, None, spec[j][0], [('{T0}', tr, {'G': spec[j][1]}, rng.choice(['inline', 'where']))], 'b%d' % n_))
        world = {('X0', tr): {'G': gb}, ('X1', tr): {'G': ga}}
        probes = [(None, "&'static mut X0"), (None, "&'static X1"), (None, "&'static X0"), (None, "&'static mut X1"), (None, 'X0')]
        return Case(kind, 'K', '', blocks, probes, world)
    elif kind == 'refmut':
        # two headers that differ only in the mutability of a reference (at the top or inside a
        # tuple), with payloads that do not collide across the two: two families
        inner = pk.choice(['{T0}', '({T0}, X0)', 'Vec<{T0}>'])
        ha = ("&{L0} %s" % inner, ['L0', 'T0'])
        hb = ("&{L0} mut %s" % inner, ['L0', 'T0'])
        if pk.choice([False, True]):
            ha, hb = ('(%s, X1)' % ha[0], ha[1]), ('(%s, X1)' % hb[0], hb[1])
        tr = pk.choice(['D', 'D2'])
        g = rng.sample(GROUPS, 3)
        split = pk.choice([1, 2])
        blocks, headers = [], []
        for i in range(3):
            h = ha if i < split else hb
            slots = mk_slots(rng, h[1])
            order = [x for x in slots if x[0] == 'L'] + [x for x in slots if x[0] != 'L']
            blocks.append(Block({x: slots[x] for x in order}, None, h[0], [('{T0}', tr, {'G': g[i]}, rng.choice(['inline', 'where']))], 'b%d' % i))
            headers.append(h)
        order = list(range(3)); rng.shuffle(order)
        blocks = [blocks[i] for i in order]; headers = [headers[i] for i in order]
        for i, b in enumerate(blocks):
            b.tag = 'b%d' % i
        probes, world = build_world_and_probes(rng, blocks, headers, nprobes=8, impl_rate=0.95, prefer_rate=0.6)
        return Case(kind, 'K', '', blocks, probes, world)
    elif kind in ('twokeys', 'twokeys_mix'):
        # one parameter dispatched on through TWO traits (the same path at two argument lists, two
        # traits with the same last segment at different depths, ..) and the other parameter
        # through a third key; every block binds all three, the bounds of the first parameter are
        # written around the other parameter's (inline / where, interleaved)
        self_fmt, used = HEADERS['pair']
        tra, trb = pk.choice([('Dc<1>', 'Dc<2>'), ('legacy::D', 'D'), ('Dp', 'Dp<u8>'), ('p::q::Dm', 'D2'), ('D', 'legacy::D'), ('x::y::Dn', 'y::x::Dn'), ('D', 'D2')])
        trc = 'D'
        rows = pk.choice([
            [('GA', 'GA', 'GA'), ('GA', 'GA', 'GB'), ('GB', 'GA', 'GA')],
            [('GA', 'GB', 'GC'), ('GA', 'GA', 'GC'), ('GA', 'GB', 'GA'), ('GB', 'GB', 'GC')],
            [('GA', 'GA', 'GB'), ('GB', 'GA', 'GB')],
        ])
        plans = [(('where', 'where', 'where'), False), (('inline', 'inline', 'where'), False), (('inline', 'where', 'inline'), False),
                 (('where', 'where', 'where'), True), (('inline', 'inline', 'inline'), False), (('where', 'inline', 'where'), True)]
        p0 = pk.choice(list(range(len(plans))))
        if kind == 'twokeys_mix' and idx is not None:
            # round 10 (seed C02j): the axes advance TOGETHER (7 trait pairs, 3 row sets, 6 plans are
            # pairwise coprime or nearly so), so that a handful of consecutive indices already has
            # first blocks whose keys on one parameter are separated by the other parameter's key
            # (inline, inline, where) as well as adjacent ones; the first block fixes the key order
            tra, trb = [('Dc<1>', 'Dc<2>'), ('legacy::D', 'D'), ('Dp', 'Dp<u8>'), ('p::q::Dm', 'D2'), ('D', 'legacy::D'), ('x::y::Dn', 'y::x::Dn'), ('D', 'D2')][idx % 7]
            p0 = [1, 5, 0, 2, 3, 4][idx % 6]
        blocks = []
        for i, (ga, gc, gb) in enumerate(rows):
            slots = mk_slots(rng, used)
            order = list(slots); rng.shuffle(order)
            pl, rev = plans[(p0 + i) % len(plans)]
            bounds = [('{T0}', tra, {'G': ga}, pl[0]), ('{T1}', trc, {'G': gc}, pl[1]), ('{T0}', trb, {'G': gb}, pl[2])]
            if rev:
                bounds.reverse()
            blocks.append(Block({x: slots[x] for x in order}, None, self_fmt, bounds, 'b%d' % i))
        headers = [HEADERS['pair']] * len(blocks)
        probes, world = build_world_and_probes(rng, blocks, headers, nprobes=10, impl_rate=0.95, prefer_rate=0.6)
        return Case(kind, 'K', '', blocks, probes, world)
    elif kind == 'unsized_free':
        # a parameter that is NOT dispatched on (it only occurs inside a Box / behind a reference of
        # the header) is relaxed by some blocks of the family and not by others: which ones, by
        # position, is planned, so that "only a later block relaxes" occurs
        h = pk.choice(['pairbox', 'refpair'])
        self_fmt, used = HEADERS[h]
        tr = pk.choice(['D', 'D2'])
        plan = pk.choice(['not_first', 'first_only', 'all', 'last_only'])
        groups = rng.sample(GROUPS, pk.choice([2, 3]))
        blocks = []
        for i, g in enumerate(groups):
            slots = mk_slots(rng, used)
            order = list(slots); rng.shuffle(order)
            order = [x for x in order if x[0] == 'L'] + [x for x in order if x[0] != 'L']
            on = {'not_first': i > 0, 'first_only': i == 0, 'all': True, 'last_only': i == len(groups) - 1}[plan]
            blocks.append(Block({x: slots[x] for x in order}, None, self_fmt, [('{T0}', tr, {'G': g}, rng.choice(['inline', 'where']))], 'b%d' % i,
                                relaxed=({'T1': rng.choice(['inline', 'where'])} if on else {})))
        headers = [HEADERS[h]] * len(blocks)
        probes, world = build_world_and_probes(rng, blocks, headers, unsized=True, nprobes=14, impl_rate=0.9)
        return Case(kind, 'K', '', blocks, probes, world)
    elif kind == 'split':
        # one bound written in two pieces in every block: the distinguishing binding and another one
        h = rng.choice(['T', 'pair', 'vec', 'opt', 'box'])
        self_fmt, used = HEADERS[h]
        bounded = rng.choice(['{T0}'] + ([self_fmt] if h != 'T' else []))
        dist, other = rng.choice([('G', 'H'), ('H', 'G')])
        groups = rng.sample(GROUPS, rng.choice([2, 3]))
        blocks = []
        for i, g in enumerate(groups):
            slots = mk_slots(rng, used)
            order = list(slots); rng.shuffle(order)
            # the six arrangements of the two pieces (which one the visitor meets last, inline
            # bounds being visited before the where-clause) are cycled through systematically
            arr = ((idx or 0) + i) % 6 if idx is not None else rng.randrange(6)
            pd, po = [('inline', 'where'), ('where', 'inline'), ('where', 'where'), ('where', 'where'), ('inline', 'inline'), ('inline', 'inline')][arr]
            if bounded != '{T0}':
                pd, po = 'where', 'where'
            pieces = [(bounded, 'D2', {dist: g}, pd), (bounded, 'D2', {other: rng.choice(GROUPS)}, po)]
            if arr in (3, 5):
                pieces.reverse()
            blocks.append(Block({x: slots[x] for x in order}, None, self_fmt, pieces, 'b%d' % i))
            blocks[-1].dist_assoc = dist
        headers = [HEADERS[h]] * len(blocks)
    elif kind == 'multi':
        hs = rng.choice([('vec', 'opt'), ('vec', 'pair'), ('box', 'arr', 'opt'), ('pair', 'vec', 'opt'), ('ref', 'vec')])
        blocks, headers, tag = [], [], 0
        for h in hs:
            fam = gen_family(rng, h, 2, tag)
            tag += len(fam)
            blocks += fam
            headers += [HEADERS[h]] * len(fam)
        order = list(range(len(blocks)))
        rng.shuffle(order)
        blocks = [blocks[i] for i in order]
        headers = [headers[i] for i in order]
    elif kind == 'nested':
        # general family on a key the nested members can express
        gen_h, spec_h, key, spec_key = pk.choice([
            ('pair', 'vecpair', '{T1}', '{T1}'),          # (T,U) > (Vec<T>,U), key on U
            ('pair', 'pairvec', '{T0}', '{T0}'),          # (T,U) > (T,Vec<U>), key on T
            ('T', 'vec', None, None), ('T', 'opt', None, None),
            ('pair', 'xpair', '{T1}', '{T0}'),            # (T,U) > (X0,T): the parameter shifts position
            ('pair', 'pairx', '{T0}', '{T0}'),            # (T,U) > (T,X0)
            ('pair', 'dup', '{T1}', '{T0}'),              # (T,U) > (T,T): non-injective
            ('pair', 'dup', '{T0}', '{T0}'),
            ('pair', 'pairvec', '{T1}', 'Vec<{T1}>'),     # key on U, re-expressed as Vec<U>
            ('ref', 'refvec', '{T0}', 'Vec<{T0}>'),       # &'a T > &'a Vec<T>
            ('arr', 'arr2', '{T0}', '{T0}'),              # [T; N] > [T; 2]: a const parameter bound to an expression
            ('arr', 'arrvec', '{T0}', 'Vec<{T0}>'),       # [T; N] > [Vec<T>; N]
            ('w', 'w3', '{T0}', '{T0}'),                  # W<T, N> > W<T, 3>
        ])
        if key is None:
            # T > Vec<T>: general key on T itself == the whole nested header
            general = gen_family(rng, gen_h, 2, 0, key_choices=['{T0}'], extra=False)
            tr, binds = general[0].bounds[0][1], general[0].bounds[0][2]
            assoc = list(binds)[0]
            used_groups = {v for b in general for bd in b.bounds for v in bd[2].values()}
            free = [g for g in GROUPS if g not in used_groups] or GROUPS
            self_fmt, used = HEADERS[spec_h]
            slots = mk_slots(rng, used)
            nb = Block(slots, None, self_fmt, [(self_fmt, tr, {assoc: free[0]}, 'where')], 'b%d' % len(general))
            nb.keymap = {'{T0}': self_fmt}
            blocks = general + [nb]
            headers = [HEADERS[gen_h]] * len(general) + [HEADERS[spec_h]]
        else:
            general = gen_family(rng, gen_h, 2, 0, key_choices=[key], extra=False)
            tr, binds = general[0].bounds[0][1], general[0].bounds[0][2]
            assoc = list(binds)[0]
            used_groups = {bd[2][assoc] for b in general for bd in b.bounds if assoc in bd[2]}
            free = [g for g in GROUPS if g not in used_groups] or GROUPS
            self_fmt, used = HEADERS[spec_h]
            slots = mk_slots(rng, used)
            nb = Block(slots, None, self_fmt, [(spec_key, tr, {assoc: free[0]}, 'where')], 'b%d' % len(general))
            nb.keymap = {key: spec_key}
            blocks = general + [nb]
            headers = [HEADERS[gen_h]] * len(general) + [HEADERS[spec_h]]
        if rng.random() < 0.5:
            order = list(range(len(blocks)))
            rng.shuffle(order)
            blocks = [blocks[i] for i in order]
            headers = [headers[i] for i in order]
    elif kind == 'nestedx':
        # a nested member that also bounds a parameter the general header cannot name, over a
        # dispatch trait with a type parameter:  (T,U): T: Dq<U, G=..>  >  (Vec<T>,U): [Vec<T>: Dq<U, G=..>,] T: Dq<U, G=..>
        spec_h, wrap = pk.choice([('vecpair', 'Vec<{T0}>'), ('optpair', 'Option<{T0}>')])
        tr = 'Dq<{T1}>'
        g = rng.sample(GROUPS, 3)
        pl = lambda: rng.choice(['inline', 'where'])
        general = [Block(mk_slots(rng, ['T0', 'T1']), None, '({T0}, {T1})', [('{T0}', tr, {'G': g[i]}, pl())], 'b%d' % i) for i in range(pk.choice([1, 2]))]
        variant = pk.choice(['only_inner', 'key_then_inner', 'inner_then_key'])
        inner = ('{T0}', tr, {'G': rng.choice(GROUPS)}, pl())
        keyb = (wrap, tr, {'G': g[2]}, 'where')
        nb_bounds = {'only_inner': [inner], 'key_then_inner': [keyb, inner], 'inner_then_key': [inner, keyb]}[variant]
        nb = Block(mk_slots(rng, ['T0', 'T1']), None, HEADERS[spec_h][0], nb_bounds, 'bn')
        blocks = general + [nb]
        headers = [HEADERS['pair']] * len(general) + [HEADERS[spec_h]]
        if rng.random() < 0.5:
            order = list(range(len(blocks))); rng.shuffle(order)
            blocks = [blocks[i] for i in order]; headers = [headers[i] for i in order]
        for i, b in enumerate(blocks):
            b.tag = 'b%d' % i
        probes, world = build_world_and_probes(rng, blocks, headers, nprobes=8, impl_rate=0.9, prefer_rate=0.7)
        # make witnesses likely: element types carry the inner bound's group, wrapped types a general one
        wname = wrap.split('<')[0]
        for (ty, trt) in list(world):
            if world[(ty, trt)] is None:
                continue
            if ty.startswith(wname + '<') and rng.random() < 0.7:
                world[(ty, trt)] = {'G': rng.choice([b.bounds[0][2]['G'] for b in general])}
            elif not ty.startswith(wname + '<') and rng.random() < 0.5:
                world[(ty, trt)] = {'G': inner[2]['G']}
        return Case(kind, 'K', '', blocks, probes, world)
    elif kind == 'fnnest':
        # function-pointer headers: fn(T) -> U keyed on the RETURN type, with a member under
        # fn(Vec<T>) -> Vec<U> (or fn(Vec<T>) -> U) that re-expresses the key, or bounds only the
        # parameter inside the return type (unnameable over the general header: its own family,
        # overlapping the general one wherever Vec<U>: D holds)
        spec_h = pk.choice(['fnvec', 'fnarg'])
        variant = pk.choice(['inner_only', 'keyed', 'key_then_inner'])
        tr = 'D'
        g = rng.sample(GROUPS, 3)
        pl = lambda: rng.choice(['inline', 'where'])
        general = [Block(mk_slots(rng, ['T0', 'T1']), None, HEADERS['fnptr'][0], [('{T1}', tr, {'G': g[i]}, pl())], 'b%d' % i) for i in range(pk.choice([2, 1]))]
        ret = 'Vec<{T1}>' if spec_h == 'fnvec' else '{T1}'
        inner = ('{T1}', tr, {'G': g[2]}, pl())
        keyb = (ret, tr, {'G': g[2]}, 'where')
        if spec_h == 'fnarg':
            variant = 'keyed'           # the return type is the parameter itself
        nb_bounds = {'inner_only': [inner], 'keyed': [keyb], 'key_then_inner': [keyb, ('{T1}', tr, {'G': rng.choice(GROUPS)}, pl())]}[variant]
        nb = Block(mk_slots(rng, ['T0', 'T1']), None, HEADERS[spec_h][0], nb_bounds, 'bn')
        blocks = general + [nb]
        headers = [HEADERS['fnptr']] * len(general) + [HEADERS[spec_h]]
        if rng.random() < 0.5:
            order = list(range(len(blocks))); rng.shuffle(order)
            blocks = [blocks[i] for i in order]; headers = [headers[i] for i in order]
        for i, b in enumerate(blocks):
            b.tag = 'b%d' % i
        probes, world = build_world_and_probes(rng, blocks, headers, nprobes=8, impl_rate=0.9, prefer_rate=0.7)
        for a in ATOMS[:3]:
            # witnesses: the wrapped return type carries a general block's group, its element the member's
            if rng.random() < 0.8:
                world[('Vec<%s>' % a, tr)] = {'G': rng.choice([b.bounds[0][2]['G'] for b in general])}
            if rng.random() < 0.6:
                world[(a, tr)] = {'G': g[2]}
        return Case(kind, 'K', '', blocks, probes, world)
    elif kind == 'nested_relaxed_inner':
        # a nested member relaxes a parameter of its own that the general header cannot name
        # (K for T  >  K for Box<U>, U: ?Sized); the trait has a by-value method, so the general
        # family must stay Sized
        gen_h, spec_h, wrapfmt = pk.choice([('T', 'box', 'Box<{T0}>'), ('pair', 'pairbox', None), ('T', 'ref', None)])
        tr = pk.choice(['D', 'D2'])
        g = rng.sample(GROUPS, 3)
        pl = lambda: rng.choice(['inline', 'where'])
        sf, used = HEADERS[gen_h]
        general = [Block(mk_slots(rng, used), None, sf, [('{T0}', tr, {'G': g[i]}, pl())], 'b%d' % i) for i in range(pk.choice([1, 2]))]
        ssf, sused = HEADERS[spec_h]
        inner = 'T1' if spec_h == 'pairbox' else 'T0'
        skey = {'box': 'Box<{T0}>', 'pairbox': '{T0}', 'ref': '&{L0} {T0}'}[spec_h]
        slots = mk_slots(rng, sused)
        order = [x for x in slots if x[0] == 'L'] + [x for x in slots if x[0] != 'L']
        nb = Block({x: slots[x] for x in order}, None, ssf, [(skey, tr, {'G': g[2]}, 'where')], 'bn', relaxed={inner: pl()})
        blocks = general + [nb]
        headers = [HEADERS[gen_h]] * len(general) + [HEADERS[spec_h]]
        if pk.choice([False, True]):
            blocks.reverse(); headers.reverse()
        for i, b in enumerate(blocks):
            b.tag = 'b%d' % i
        probes, world = build_world_and_probes(rng, blocks, headers, unsized=True, nprobes=8, impl_rate=0.9, prefer_rate=0.6)
        c = Case(kind, 'K', '', blocks, probes, world)
        c.by_value = True
        return c
    elif kind == 'arity':
        # one key common to the blocks, and a dispatch trait used at two arities on the side:
        # T: D<G=a> + Dp<G=x>   |   T: D<G=b> + Dp<u8, G=y>
        h = pk.choice(['T', 'vec', 'pair'])
        self_fmt, used = HEADERS[h]
        g = rng.sample(GROUPS, 2)
        side = pk.choice([('Dp', 'Dp<u8>'), ('Dp<u8>', 'Dp'), ('Dc<1>', 'Dc<2>')])
        blocks = []
        for i in range(2):
            slots = mk_slots(rng, used)
            order = list(slots); rng.shuffle(order)
            bounds = [('{T0}', 'D', {'G': g[i]}, rng.choice(['inline', 'where'])), ('{T0}', side[i], {'G': rng.choice(GROUPS)}, rng.choice(['inline', 'where']))]
            if rng.random() < 0.5:
                bounds.reverse()
            blocks.append(Block({x: slots[x] for x in order}, None, self_fmt, bounds, 'b%d' % i))
        headers = [HEADERS[h]] * 2
        probes, world = build_world_and_probes(rng, blocks, headers, nprobes=8, impl_rate=0.6, prefer_rate=0.7)
        for key in list(world):       # D itself mostly implemented, the side traits often only one of the two
            if key[1] == 'D' and world[key] is None and rng.random() < 0.7:
                world[key] = {'G': rng.choice(g)}
        return Case(kind, 'K', '', blocks, probes, world)
    elif kind == 'payload':
        # generic payloads: the bound's associated type is bound to a type built from a parameter
        # that occurs nowhere else (`T: D<G = Vec<P>>`); rows pairwise non-unifiable
        h = pk.choice(['T', 'vec', 'pair', 'opt', 'box'])
        self_fmt, used0 = HEADERS[h]
        tr = pk.choice(['D', 'D2', 'Dp'])
        assoc = 'G'
        templates = ['Vec<{T9}>', 'Option<{T9}>', '({T9},)', '[{T9}; 1]', 'GA', '*const {T9}', '({T9}, GB)', '({T9}, GC)']
        rows = rng.sample(templates, pk.choice([2, 3]))
        bounded = rng.choice(['{T0}'] + ([self_fmt] if h != 'T' else []))
        blocks = []
        for i, row in enumerate(rows):
            used = list(used0) + (['T9'] if '{T9}' in row else [])
            slots = mk_slots(rng, used)
            order = list(slots); rng.shuffle(order)
            binds = {assoc: row}
            if tr == 'D2' and rng.random() < 0.5:
                binds['H'] = rng.choice(GROUPS)
            blocks.append(Block({x: slots[x] for x in order}, None, self_fmt, [(bounded, tr, binds, rng.choice(['inline', 'where']))], 'b%d' % i,
                                overrides=['NAME'] + (['ID'] if rng.random() < 0.5 else [])))
        headers = [HEADERS[h]] * len(blocks)
        for i, b in enumerate(blocks):
            b.tag = 'b%d' % i
        probes, world = build_world_and_probes(rng, blocks, headers, nprobes=8, impl_rate=0.9)
        # payload values: instances of the rows (and a few non-instances)
        vals = [r.format(T9=a) for r in templates for a in ('X0', 'X1')]
        for key in list(world):
            if world[key] is not None:
                world[key] = dict(world[key])
                world[key][assoc] = rng.choice([r.format(T9=rng.choice(['X0', 'X1', 'Vec<X0>'])) for r in rows]) if rng.random() < 0.75 else rng.choice(vals)
        return Case(kind, 'K', '', blocks, probes, world)
    elif kind == 'dupcols':
        # a family over (T, U) with two key columns: on one column the payloads are a specific
        # and a general instance of each other (Option<GA> vs Option<P>), the other column tells
        # the blocks apart; a member under (V, V) can be keyed on either column, and only the
        # distinguishing column is a usable key whatever the order of the blocks
        col = pk.choice([0, 1])
        specific_first = pk.choice([True, False])
        wrapk = pk.choice(['Option<%s>', 'Vec<%s>', '(%s, GC)'])
        g = rng.sample(GROUPS, 3)
        cols = ['{T0}', '{T1}']
        pl = lambda: rng.choice(['inline', 'where'])
        def mk(payload, gi, tag, extra):
            slots = mk_slots(rng, ['T0', 'T1'] + extra)
            order = list(slots); rng.shuffle(order)
            bounds = [(cols[col], 'D', {'G': payload}, pl()), (cols[1 - col], 'D', {'G': g[gi]}, pl())]
            if rng.random() < 0.5:
                bounds.reverse()
            return Block({x: slots[x] for x in order}, None, HEADERS['pair'][0], bounds, tag)
        spec = mk(wrapk % 'GA', 0, 'bs', [])
        gen = mk(wrapk % '{T9}', 1, 'bg', ['T9'])
        slots = mk_slots(rng, ['T0'])
        dup = Block(slots, None, HEADERS['dup'][0], [('{T0}', 'D', {'G': g[2]}, pl())], 'bd')
        blocks = ([spec, gen] if specific_first else [gen, spec])
        blocks.insert(pk.choice([2, 0, 1]), dup)
        headers = [HEADERS['dup'] if b is dup else HEADERS['pair'] for b in blocks]
        for i, b in enumerate(blocks):
            b.tag = 'b%d' % i
        probes, world = build_world_and_probes(rng, blocks, headers, nprobes=10, impl_rate=0.95)
        vals = [wrapk % 'GA', wrapk % 'GB', g[0], g[1], g[2], g[2]]
        for key in list(world):
            if world[key] is not None:
                world[key] = {'G': rng.choice(vals)}
        return Case(kind, 'K', '', blocks, probes, world)
    elif kind == 'shiftoverlap':
        # a nested header in which a concrete type precedes the parameter, so the positional
        # names shift ((T, U) = (_0, _1) over (X0, Y) = (X0, _0)); the nested block bounds the
        # parameter the general block does NOT dispatch on: it cannot join the family, its own main
        # impl overlaps the general one, and a type satisfying both must make the program fail
        gen_h, spec = pk.choice([('pair', '(X0, {T0})'), ('pair', '(Vec<X0>, {T0})'), ('vecpair', '(Vec<X0>, {T0})')])
        tr = pk.choice(['D', 'D2'])
        g = rng.sample(GROUPS, 3)
        pl = lambda: rng.choice(['inline', 'where'])
        general = [Block(mk_slots(rng, ['T0', 'T1']), None, HEADERS[gen_h][0], [('{T0}', tr, {'G': g[i]}, pl())], 'b%d' % i) for i in range(pk.choice([1, 2]))]
        nb = Block(mk_slots(rng, ['T0']), None, spec, [('{T0}', tr, {'G': g[2]}, pl())], 'bn')
        blocks = general + [nb]
        headers = [HEADERS[gen_h]] * len(general) + [(spec, ['T0'])]
        if rng.random() < 0.5:
            order = list(range(len(blocks))); rng.shuffle(order)
            blocks = [blocks[i] for i in order]; headers = [headers[i] for i in order]
        for i, b in enumerate(blocks):
            b.tag = 'b%d' % i
        probes, world = build_world_and_probes(rng, blocks, headers, nprobes=8, impl_rate=0.95, prefer_rate=0.7)
        # witnesses: the fixed first component satisfies a general block, some second component the nested one
        world[('X0', tr)] = {a: g[0] for a in assocs_of(tr)}
        world[('Vec<X0>', tr)] = {a: g[0] for a in assocs_of(tr)}
        for a in ATOMS[1:3]:
            world[(a, tr)] = {x: g[2] for x in assocs_of(tr)}
        probes += [(None, spec.format(T0=a)) for a in ATOMS[1:3]]
        return Case(kind, 'K', '', blocks, probes, world)
    elif kind == 'tworoots_overlap':
        # as `tworoots`, but the common specialisation repeats a left block's condition on the
        # Vec it fixes: (W<T>, U) where U: D<G = g>  vs  (W<T>, Vec<U>) where Vec<U>: D<G = g>.
        # D2 is implemented for no wrapper, so the two roots' main impls do not collide.
        lh, sh, wrap = pk.choice([('vecpair', 'vecvec', 'Vec<{T0}>'), ('optpair', 'optvec', 'Option<{T0}>')])
        nleft, nright = pk.choice([(1, 1), (2, 1), (1, 2), (2, 2)])
        pl = lambda: rng.choice(['inline', 'where'])
        gl = rng.sample(GROUPS, nleft); gr = rng.sample(GROUPS, 2)
        blocks, headers = [], []
        for i in range(nleft):
            blocks.append(Block(mk_slots(rng, ['T0', 'T1']), None, HEADERS[lh][0], [('{T1}', 'D', {'G': gl[i]}, pl())], 'l%d' % i)); headers.append(HEADERS[lh])
        for i in range(nright):
            blocks.append(Block(mk_slots(rng, ['T0', 'T1']), None, HEADERS['pairvec'][0], [('{T0}', 'D2', {'G': gr[i]}, pl())], 'r%d' % i)); headers.append(HEADERS['pairvec'])
        blocks.append(Block(mk_slots(rng, ['T0', 'T1']), None, HEADERS[sh][0], [('Vec<{T1}>', 'D', {'G': gl[0]}, 'where')], 's')); headers.append(HEADERS[sh])
        order = list(range(len(blocks)))
        if pk.choice([False, True]):
            rng.shuffle(order)
        blocks = [blocks[i] for i in order]; headers = [headers[i] for i in order]
        for i, b in enumerate(blocks):
            b.tag = 'b%d' % i
        probes, world = build_world_and_probes(rng, blocks, headers, nprobes=8, impl_rate=0.9, prefer_rate=0.6)
        for key in list(world):
            if key[1] == 'D2' and (key[0].startswith('Vec<') or key[0].startswith('Option<')):
                world[key] = None      # D2 for no wrapper at all
            if key[1] == 'D' and key[0].startswith('Vec<') and rng.random() < 0.7:
                world[key] = {'G': gl[0]}
        return Case(kind, 'K', '', blocks, probes, world)
    elif kind == 'tworoots':
        # two incomparable headers with a common specialisation and no common generalisation:
        # (W<T>, U) keyed on U: D   |   (T, Vec<U>) keyed on T: D2   |   (W<T>, Vec<U>) keyed on W<T>: D2
        # D is implemented for no Vec<_>, so the two main impls do not collide in coherence
        lh, sh, wrap = pk.choice([('vecpair', 'vecvec', 'Vec<{T0}>'), ('optpair', 'optvec', 'Option<{T0}>')])
        nleft, nright = pk.choice([(2, 1), (1, 2), (2, 2), (1, 1)])
        pl = lambda: rng.choice(['inline', 'where'])
        gl = rng.sample(GROUPS, nleft); gr = rng.sample(GROUPS, 3)
        blocks, headers = [], []
        for i in range(nleft):
            blocks.append(Block(mk_slots(rng, ['T0', 'T1']), None, HEADERS[lh][0], [('{T1}', 'D', {'G': gl[i]}, pl())], 'l%d' % i)); headers.append(HEADERS[lh])
        for i in range(nright):
            blocks.append(Block(mk_slots(rng, ['T0', 'T1']), None, HEADERS['pairvec'][0], [('{T0}', 'D2', {'G': gr[i]}, pl())], 'r%d' % i)); headers.append(HEADERS['pairvec'])
        blocks.append(Block(mk_slots(rng, ['T0', 'T1']), None, HEADERS[sh][0], [(wrap, 'D2', {'G': gr[2]}, 'where')], 's')); headers.append(HEADERS[sh])
        order = list(range(len(blocks)))
        if pk.choice([False, True]):
            rng.shuffle(order)
        blocks = [blocks[i] for i in order]; headers = [headers[i] for i in order]
        for i, b in enumerate(blocks):
            b.tag = 'b%d' % i
        probes, world = build_world_and_probes(rng, blocks, headers, nprobes=8, impl_rate=0.9, prefer_rate=0.6)
        for key in list(world):
            if key[1] == 'D' and (key[0].startswith('Vec<') or key[0].startswith('Option<')) and key[0].endswith('>') and lh == 'vecpair' and key[0].startswith('Vec<'):
                world[key] = None
        for key in list(world):
            if key[1] == 'D' and key[0].startswith('Vec<'):
                world[key] = None      # D for no Vec<_> at all
        return Case(kind, 'K', '', blocks, probes, world)
    elif kind == 'ltbound':
        # lifetimes that occur only in bounds, as arguments of the dispatch trait, declared in
        # a different order in every block
        h = pk.choice(['T', 'vec', 'ref', 'pair'])
        self_fmt, used0 = HEADERS[h]
        used = list(used0) + ['L1', 'L2']
        tr = pk.choice(['Dl<{L1}, {L2}>', 'Dl<{L2}, {L1}>'])
        groups = rng.sample(GROUPS, pk.choice([2, 3]))
        blocks = []
        for i, g in enumerate(groups):
            slots = mk_slots(rng, used)
            order = list(slots); rng.shuffle(order)
            order = [x for x in order if x[0] == 'L'] + [x for x in order if x[0] != 'L']
            bounds = [('{T0}', tr, {'G': g}, rng.choice(['inline', 'where']))]
            blocks.append(Block({x: slots[x] for x in order}, None, self_fmt, bounds, 'b%d' % i))
        headers = [(self_fmt, used)] * len(blocks)
    elif kind == 'overlap':
        mode = pk.choice(['same', 'wild', 'otherkey', 'generic_payload'])
        h = pk.choice(['T', 'pair', 'vec', 'opt', 'vecpair'])
        blocks = gen_family(rng, h, 2, 0, extra=False, tr=pk.choice(['D', 'D2', 'Dp', 'Dp<u8>', 'Dc<1>']))
        b0, b1 = blocks
        bounded, tr, binds, place = b1.bounds[0]
        if mode == 'same':
            b1.bounds[0] = (bounded, tr, dict(b0.bounds[0][2]), place)
        elif mode == 'wild':
            b1.bounds[0] = (bounded, tr, {}, place)
        elif mode == 'generic_payload':
            # b0's row generalises b1's (overlap), or differs from it only by non-linearity (no overlap)
            assoc0 = list(b0.bounds[0][2])[0]
            gen_row, inst_row = rng.choice([('{T9}', 'GA'), ('Vec<{T9}>', 'Vec<GB>'), ('({T9}, {T9})', '(GA, GA)'),
                                            ('({T9}, {T9})', '(GA, GB)'), ('({T9}, GA)', '(GB, GA)'), ('Option<{T9}>', 'Option<Vec<{T9}>>')])
            for blk, row in ((b0, gen_row), (b1, inst_row)):
                bd, t, bi, plc = blk.bounds[0]
                blk.bounds[0] = (bd, t, {assoc0: row}, plc)
                if '{T9}' in row:
                    blk.slots['T9'] = ('ty', rng.choice([n for n in SPELL['T9'] if n not in {v[1] for v in blk.slots.values()}]))
                    blk.order = list(blk.slots)
            ground_rows = [inst_row.format(T9='X0'), gen_row.format(T9='X1')]
        else:
            # distinguished only on DIFFERENT keys: D::G vs D2::G on the same bounded type
            other = {'D': 'D2', 'D2': 'D', 'Dp': 'Dp<u8>', 'Dp<u8>': 'Dp', 'Dc<1>': 'Dc<2>'}[tr]
            b1.bounds[0] = (bounded, other, {'G': rng.choice(GROUPS)}, place)
        headers = [HEADERS[h]] * 2
    else:
        raise ValueError(kind)
    for i, b in enumerate(blocks):
        b.tag = 'b%d' % i
    probes, world = build_world_and_probes(rng, blocks, headers, prefer_rate=0.5 if kind == 'overlap' else 0.0)
    if kind == 'overlap' and mode == 'generic_payload':
        for key in list(world):
            if world[key] is not None and assoc0 in world[key] and rng.random() < 0.7:
                world[key] = dict(world[key]); world[key][assoc0] = rng.choice(ground_rows)
    return Case(kind, 'K', '', blocks, probes, world)
