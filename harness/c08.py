"""C08 -- scope hygiene and trait fidelity.
(1) expanded text: the items the invocation adds to its module are, token for token, the trait
the user wrote followed by exactly one `const _: () = { ... };` whose content is the helper
traits, helper impls and main impls the hook reports (this ties the final assembly in
`disjoint_impls()` -- reachable only through the proc-macro entry point -- to the generators);
nothing but the const in inherent mode;
(2) name resolution: helpers cannot be named from outside (E0405/E0412/E0433/E0425), invocations
for equally named traits/types in sibling modules and several invocations in one module do not
collide, a user item named like a helper that is not referenced inside is fine, a default
method of the emitted trait can be relied upon by impls outside the macro;
known finding F8: inside the anonymous const the helper trait shadows a user item of the same
name that a block refers to."""
import random, json, re
from . import common as cm
from . import gen_prog as gp
from . import rustc_engine as rc
from . import sexp2coq as sx
from . import c17
from .c09 import finish

TOK = re.compile(r"'[A-Za-z_]\w*(?!')|\"(?:[^\"\\]|\\.)*\"|'(?:[^'\\]|\\.)'|\d[\w.]*|[^\W\d]\w*|\S", re.UNICODE)


def lex(text):
    text = re.sub(r'//[^\n]*', '', text)
    toks = TOK.findall(text)
    # drop trailing commas before a closer: the pretty printer normalises them
    out = []
    for i, t in enumerate(toks):
        if t == ',' and i + 1 < len(toks) and toks[i + 1] in ')>}]':
            continue
        out.append(t)
    return out


def split_puncts(strs):
    out = []
    for s in strs:
        if re.match(r"^['\"\w]", s, re.UNICODE):
            out.append(s)
        else:
            out.extend(list(s))
    return out


TRAITS = [
    "pub trait K {\n    const NAME: &'static str;\n    const ID: u8 = 0;\n    fn f() -> &'static str { \"default\" }\n}\n",
    "pub trait K: Sized + Tr0 where Self: Clone {\n    const NAME: &'static str;\n    const ID: u8 = 0;\n    fn f() -> &'static str { \"default\" }\n    fn g(&self, x: u8) -> u8 where Self: Sized { x + Self::ID }\n}\n",
    "pub(crate) trait K {\n    const NAME: &'static str;\n    const ID: u8 = 1 + 2;\n    fn f() -> &'static str { if Self::ID > 1 { \"default\" } else { \"other\" } }\n}\n",
    # outer and inner attributes of the trait, attributes of its items
    "#[allow(dead_code)]\n#[doc = \"outer\"]\npub trait K {\n    #![allow(non_snake_case)]\n    #![doc = \"inner\"]\n    const NAME: &'static str;\n    #[doc = \"id\"]\n    const ID: u8 = 0;\n    #[inline]\n    fn f() -> &'static str { \"default\" }\n}\n",
]


def module_program(c, trait_text):
    # some invocations name the trait through a path: relative (`self::K`) or absolute (`::me::inv::K`)
    inv = trait_text + ''.join(gp.block_text(b, getattr(c, 'trait_prefix', '') + c.trait_name) for b in c.blocks)
    src = gp.PRELUDE + gp.world_text(c.world) + 'pub mod inv {\n    use super::*;\n    disjoint_impls! {\n%s    }\n}\nfn main() {}\n' % inv
    return src, inv


def extract_module(expanded, name):
    i = expanded.find('pub mod %s {' % name)
    if i < 0:
        return None
    j = expanded.index('{', i)
    depth, k = 0, j
    while k < len(expanded):
        if expanded[k] == '{':
            depth += 1
        elif expanded[k] == '}':
            depth -= 1
            if depth == 0:
                return expanded[j + 1:k]
        k += 1
    return None


def run(tier, seed, replay=None):
    rng = random.Random(seed)
    gate = cm.proof_gate(['C08_'])
    exe_hook = cm.build_hook()
    known = [k for k in cm.load_known() if k['property'] == 'C08' and k['status'] == 'known']
    n = 12 if tier == 'quick' else 150
    violations, nontrivial, known_lines = [], set(), set()
    stats = dict(expansions=0, tokens_compared=0, resolution_programs=0)
    if replay:
        rp = json.load(open(replay))
        if 'program' in rp:
            r = rc.compile_run(rp['program'], run=False)
            print('replay: compiles=%s errors=%s' % (r['ok'], r['errors'][:4]))
        return 0, dict(evaluations=1, distinct_nontrivial=0, obligations=len(gate['theorems']), discharged=len(gate['theorems']), checker_cmd='replay', trusted_base=[]), 0
    cases = []
    for i in range(n):
        if i % 6 == 4:
            # dispatch traits named through paths (two qualifying segments, the same last segment
            # at two depths, the same path at two argument lists)
            c = gp.gen_case(rng, 'twokeys', idx=[3, 1, 5, 0][(i // 6) % 4])
        else:
            c = gp.gen_case(rng, ['flat', 'multi', 'nested', 'unsized'][i % 4])
        # supertraits/where-clauses of the richer trait texts need world support: Tr0 + Clone for atoms
        c.trait_prefix = ['', '', 'self::', '', '::me::inv::', ''][i % 6]
        cases.append((c, [TRAITS[0], TRAITS[3], TRAITS[2], TRAITS[0], TRAITS[3]][i % 5]))
    # (1) expanded text
    for c, ttext in cases:
        prog, inv = module_program(c, ttext)
        r = rc.compile_run(prog, expanded=True)
        stats['expansions'] += 1
        h = cm.run_hook(['groups\t' + inv.replace('\n', ' ')], exe_hook)[0]
        if not r['ok'] and h.startswith('(Blocks') and any(code in e for e in r['errors'] for code in ('E0405', 'E0412', 'E0425', 'E0432', 'E0433')):
            # a name of the expansion does not resolve where it is written (e.g. the helper trait named through the
            # user's path to the main trait): a scope defect whatever else the program contains
            violations.append(dict(kind='property', request=inv, program=prog, errors=r['errors'][:4],
                                   oracle='a name in the expansion does not resolve in the scope it is emitted into: %s' % r['errors'][:2]))
            continue
        if not r['ok'] or not h.startswith('(Blocks'):
            stats['skipped'] = stats.get('skipped', 0) + 1
            continue
        body = extract_module(r['stdout'], 'inv')
        if body is None:
            violations.append(dict(kind='property', request=inv, oracle='module of the invocation not found in the expanded text'))
            continue
        actual = lex(body)
        exp_tree = sx.parse(h.split('\t')[2])
        helpers, impls, mains = [], [], []
        for gen in exp_tree[2]:
            helpers += [s[1] for s in gen[2][0][2]]
            for hi in gen[2][1][2]:
                impls += [s[1] for s in hi[2]]
            mains += [s[1] for s in gen[2][2][2]]
        expected = lex('use super::*;') + lex(ttext) + ['const', '_', ':', '(', ')', '=', '{'] + \
            lex(' '.join(split_puncts(helpers))) + lex(' '.join(split_puncts(impls))) + lex(' '.join(split_puncts(mains))) + ['}', ';']
        a, e = split_puncts(actual), split_puncts(expected)
        stats['tokens_compared'] += len(a)
        if a != e:
            k = next((i for i in range(min(len(a), len(e))) if a[i] != e[i]), min(len(a), len(e)))
            violations.append(dict(kind='property', request=inv, program=prog,
                                   oracle='the items the invocation adds to its module are not `<the trait as written> const _: () = { helpers }`: first difference at token %d: expanded ...%s... vs expected ...%s...' % (
                                       k, ' '.join(a[max(0, k - 8):k + 8]), ' '.join(e[max(0, k - 8):k + 8]))))
        else:
            nontrivial.add(inv)
    # inherent mode: nothing but the const
    for i in range(max(2, n // 4)):
        ic = c17.gen(rng)
        src = gp.PRELUDE + gp.world_text(ic.world) + 'pub mod inv {\n    use super::*;\n    %s\n    disjoint_impls! {\n%s    }\n}\nfn main() {}\n' % (ic.decl, c17.invocation(ic))
        r = rc.compile_run(src, expanded=True)
        stats['expansions'] += 1
        if not r['ok']:
            continue
        body = extract_module(r['stdout'], 'inv')
        toks = lex(body or '')
        decl_toks = lex('use super::*;') + lex(ic.decl)
        rest = toks[len(decl_toks):]
        if toks[:len(decl_toks)] != decl_toks or rest[:7] != ['const', '_', ':', '(', ')', '=', '{'] or rest[-2:] != ['}', ';']:
            violations.append(dict(kind='property', request=c17.invocation(ic), program=src, oracle='inherent mode adds something other than one anonymous const to the module: ' + ' '.join(rest[:12])))
        else:
            # no second top-level item: brace depth returns to zero only at the end
            depth, ok = 0, True
            for t in rest[:-2]:
                depth += (t == '{') - (t == '}')
                if depth == 0 and t == '}':
                    ok = False
            if not ok:
                violations.append(dict(kind='property', request=c17.invocation(ic), program=src, oracle='inherent mode adds more than one item'))
    # (2) name resolution programs
    base = cases[0][0]
    world = gp.PRELUDE + gp.world_text(base.world)
    inv0 = TRAITS[0] + ''.join(gp.block_text(b, 'K') for b in base.blocks)
    probe = next((p[1] for p in base.probes), 'X0')
    progs = [
        ('helper_trait_named_from_outside', False, world + 'pub mod inv { use super::*; disjoint_impls! {\n%s} }\nfn main() { fn g<T: inv::_K0<GA>>() {} }\n' % inv0),
        ('helper_trait_named_in_same_module', False, world + 'disjoint_impls! {\n%s}\nfn main() { fn g<T: _K0<GA>>() {} }\n' % inv0),
        ('sibling_modules_same_names', True, world + 'pub mod a { use super::*; disjoint_impls! {\n%s} }\npub mod b { use super::*; disjoint_impls! {\n%s} }\nfn main() {}\n' % (inv0, inv0)),
        ('two_invocations_one_module', True, world + 'disjoint_impls! {\n%s}\ndisjoint_impls! {\n%s}\nfn main() {}\n' % (inv0, inv0.replace('trait K', 'trait J').replace(' K for', ' J for'))),
        ('user_item_named_like_helper', True, world + 'pub struct _K0; pub trait _K1 {}\ndisjoint_impls! {\n%s}\nfn main() { let _ = _K0; }\n' % inv0),
        ('default_method_usable_outside', True, world + 'disjoint_impls! {\n%s}\npub struct Local;\nimpl K for Local { const NAME: &\'static str = "local"; }\nfn main() { assert_eq!(<Local as K>::f(), "default"); assert_eq!(<Local as K>::ID, 0); }\n' % inv0),
        ('trait_only_invocation', True, world + 'disjoint_impls! {\n%s}\npub struct Local;\nimpl K for Local { const NAME: &\'static str = "local"; }\nfn main() { assert_eq!(<Local as K>::f(), "default"); }\n' % TRAITS[0]),
        # one invocation over two equally named local types of sibling modules (and, in trait mode, two
        # self types that differ only in the module): both families must exist and keep their own items
        ('same_name_in_sibling_modules_inherent', True, gp.PRELUDE + 'impl D for X0 { type G = GA; }\nimpl D for X1 { type G = GB; }\npub mod a { pub struct W<T>(pub T); }\npub mod b { pub struct W<T>(pub T); }\n'
         'disjoint_impls! {\n    impl<T: D<G = GA>> a::W<T> { pub const NAME: &\'static str = "a-A"; }\n    impl<T: D<G = GB>> a::W<T> { pub const NAME: &\'static str = "a-B"; }\n'
         '    impl<T: D<G = GA>> b::W<T> { pub const NAME: &\'static str = "b-A"; }\n    impl<T: D<G = GB>> b::W<T> { pub const NAME: &\'static str = "b-B"; }\n}\n'
         'fn main() { assert_eq!(<a::W<X0>>::NAME, "a-A"); assert_eq!(<a::W<X1>>::NAME, "a-B"); assert_eq!(<b::W<X0>>::NAME, "b-A"); assert_eq!(<b::W<X1>>::NAME, "b-B"); }\n'),
        ('same_name_in_sibling_modules_trait', True, gp.PRELUDE + 'impl D for X0 { type G = GA; }\nimpl D for X1 { type G = GB; }\npub mod a { pub struct W<T>(pub T); }\npub mod b { pub struct W<T>(pub T); }\n'
         'disjoint_impls! {\n    pub trait K { const NAME: &\'static str; }\n    impl<T: D<G = GA>> K for a::W<T> { const NAME: &\'static str = "a-A"; }\n    impl<T: D<G = GB>> K for a::W<T> { const NAME: &\'static str = "a-B"; }\n'
         '    impl<T: D<G = GA>> K for b::W<T> { const NAME: &\'static str = "b-A"; }\n    impl<T: D<G = GB>> K for b::W<T> { const NAME: &\'static str = "b-B"; }\n}\n'
         'fn main() { assert_eq!(<a::W<X0> as K>::NAME, "a-A"); assert_eq!(<a::W<X1> as K>::NAME, "a-B"); assert_eq!(<b::W<X0> as K>::NAME, "b-A"); assert_eq!(<b::W<X1> as K>::NAME, "b-B"); }\n'),
    ]
    res = rc.compile_many([p for _, _, p in progs])
    stats['resolution_programs'] = len(progs)
    for (label, should_compile, p), r in zip(progs, res):
        ok = r['ok'] and (r.get('run_ok', True))
        if should_compile and not ok:
            violations.append(dict(kind='property', request=label, program=p, errors=r['errors'][:4], oracle='%s: must compile and run, got %s' % (label, r['errors'][:2] or r.get('run_stderr'))))
        if not should_compile:
            codes = set(rc.error_codes(r))
            if r['ok'] or not (codes & {'E0405', 'E0412', 'E0433', 'E0425', 'E0603'}):
                violations.append(dict(kind='property', request=label, program=p, errors=r['errors'][:4], oracle='%s: a helper can be named from outside the anonymous const' % label))
    # known finding F8
    f8 = world + 'pub struct _K0;\nimpl D for X0 { type G = _K0; }\n' if False else None
    prog_f8 = gp.PRELUDE + 'pub struct _K0;\npub struct Y0; pub struct Y1;\nimpl D for Y0 { type G = _K0; }\nimpl D for Y1 { type G = GB; }\ndisjoint_impls! {\n' + TRAITS[0] + \
        "impl<T: D<G = _K0>> K for T { const NAME: &'static str = \"b0\"; }\nimpl<T: D<G = GB>> K for T { const NAME: &'static str = \"b1\"; }\n}\nfn main() { assert_eq!(<Y0 as K>::NAME, \"b0\"); }\n"
    r = rc.compile_run(prog_f8)
    stats['resolution_programs'] += 1
    if not (r['ok'] and r.get('run_ok')):
        k = next((k for k in known if k['class'] == 'F8'), None)
        if k:
            known_lines.add('KNOWN-FINDING: property=C08 F8: %s' % k['what'])
        else:
            violations.append(dict(kind='property', request='user_item_named_like_helper_referenced_inside', program=prog_f8, errors=r['errors'][:4],
                                   oracle='a user type named like a helper and used as a payload inside the invocation is shadowed by the helper trait: %s' % r['errors'][:2]))
    return finish('C08', tier, seed, gate, cases, stats, nontrivial, violations, known_lines,
                  rule='generated invocations (trait definitions with visibility, supertraits, where-clauses, defaulted consts and methods with bodies) placed in their own module: the tokens of the module in `-Zunpretty=expanded` output are compared with <trait as written> + const _: () = { helper traits, helper impls, main impls as reported by the hook }; inherent mode: only the const; plus name-resolution programs (helper named from outside / same module, sibling modules, two invocations in one module, user items named like helpers, default methods relied upon outside, trait-only invocation); non-trivial = distinct invocation whose module matched token for token',
                  samples=[dict(invocation=(c[1] + ''.join(gp.block_text(b, 'K') for b in c[0].blocks))[:500]) for c in cases[:2]],
                  extra=dict(programs=stats['expansions'] + stats['resolution_programs']))
