"""Program-level properties decided on whole programs compiled by the real rustc:
C01 dispatch soundness, C02 exact coverage, C04 overlap never silently resolved.
Oracle for "probe satisfies block i": rustc's own verdict on shadow traits (one per block, same
header and bounds).  The Coq specification RustSem.applicable is evaluated on the same inputs
(canonical blocks from the hook) and must agree with the shadow verdict: a disagreement says
something about the model of rustc, not about /repo, and is counted as oracle_inconclusive."""
import random, json, os
from . import common as cm
from . import gen_prog as gp
from . import prog_engine as pe
from .c09 import finish

KINDS = {
    'C01': ['flat', 'combo', 'multi', 'nested', 'tworoots', 'payload', 'targs:nested_arg', 'targs:generic', 'combo', 'twokeys'],
    'C02': ['flat', 'multi', 'nested', 'nested', 'unsized', 'split', 'nestedx', 'tworoots', 'payload', 'arity', 'targs:nested_arg', 'combo', 'combo', 'targs:unsized_where', 'fnnest', 'targs:reflexive_mix', 'targs:repeated_arg', 'twokeys', 'refmut', 'chain3'],
    'C04': ['overlap', 'overlap', 'flat', 'nested', 'overlap', 'nestedx', 'targs:nested_arg', 'arity', 'tworoots_overlap', 'fnnest', 'shiftoverlap', 'targs:unsized_where_overlap', 'overlap_repeat'],
}
PREFIX = {'C01': ['C01_'], 'C02': ['C02_'], 'C04': ['C04_']}


def case_dump(c, order=None):
    return dict(kind=c.kind, program=c.macro_program(order), shadow_program=c.shadow_program())


def corpus_cases(prop):
    """fixed witness programs (full source) that must keep their verdict"""
    d = os.path.join(cm.ROOT, 'corpus', prop)
    out = []
    if os.path.isdir(d):
        for f in sorted(os.listdir(d)):
            if f.endswith('.rs'):
                out.append((f, open(os.path.join(d, f)).read()))
    return out


def run_prop(prop, tier, seed, replay=None, make_cases=None):
    from . import rustc_engine as rc
    rng = random.Random(seed)
    gate = cm.proof_gate(PREFIX[prop])
    n = 144 if tier == "quick" else 1800
    violations, nontrivial = [], set()
    stats = dict(cases=0, programs=0, shadow_invalid=0, macro_rejected=0, overlap_witnessed=0, probes=0,
                 implemented=0, values_checked=0, oracle_inconclusive=0, spec_checked=0, by_kind={})
    # corpus: witness programs of fixed findings -- must not compile (C04) / must compile
    known_lines = set()
    known = [k for k in cm.load_known() if k['property'] == prop and k['status'] == 'known']
    for name, src in corpus_cases(prop):
        r = rc.compile_run(src)
        stats['programs'] += 1
        expect_fail = prop == 'C04'
        if name.startswith('known_'):
            # the witness program of a finding that is recorded, not repaired (known_findings.json
            # names it by class; the file is known_<class>_*.rs): reported as KNOWN-FINDING while it
            # still fails, silently gone once the defect is repaired, a violation when unlisted
            cls = name.split('_')[1].upper()
            k = next((k for k in known if k['class'].upper() == cls), None)
            still = r['ok'] if expect_fail else not (r['ok'] and r.get('run_ok'))
            if still and k:
                known_lines.add('KNOWN-FINDING: property=%s %s: %s' % (prop, k['class'], k['what']))
                stats['known_' + cls.lower()] = 1
                continue
            if not still:
                continue
        if not expect_fail and not (r['ok'] and r.get('run_ok')):
            violations.append(dict(kind='property', request='corpus/%s/%s' % (prop, name), program=src, errors=r['errors'][:4],
                                   oracle='a corpus program of a fixed finding no longer compiles and runs: %s' % r['errors'][:2]))
        if expect_fail and r['ok']:
            violations.append(dict(kind='property', request='corpus/%s/%s' % (prop, name), program=src, stdout=r.get('stdout'),
                                   oracle='a witness program with a type satisfying two blocks compiles (overlap silently resolved)'))
    if replay:
        rp = json.load(open(replay))
        if 'program' in rp:
            r = rc.compile_run(rp['program'])
            print('replay: compiles=%s errors=%s stdout=%s' % (r['ok'], r['errors'][:3], r.get('stdout', '')[:500]))
        return 0, dict(evaluations=1, distinct_nontrivial=0, obligations=len(gate['theorems']), discharged=len(gate['theorems']), checker_cmd='replay', trusted_base=[]), 0
    def systematic(n):
        seen, out = {}, []
        for i in range(n):
            k = KINDS[prop][i % len(KINDS[prop])]
            out.append(gp.gen_case(rng, k, idx=seen.get(k, 0)))    # the k-th case of a kind enumerates its axes
            seen[k] = seen.get(k, 0) + 1
        return out
    cases = make_cases(rng, n) if make_cases else systematic(n)
    if not make_cases and prop in ('C01', 'C02'):
        # appended after the systematic cases and drawn from a generator of their own, so that the
        # stream of the cases above is what it was before the kind existed
        rng2 = random.Random(seed + 10)
        cases += [gp.gen_case(rng2, 'twokeys_mix', idx=i) for i in range(6 if tier == 'quick' else 84)]
    if not make_cases and prop == 'C04':
        rng2 = random.Random(seed + 10)
        cases += [gp.gen_case(rng2, 'refmut_overlap', idx=i) for i in range(6 if tier == 'quick' else 18)]
    spell = ['?Sized', '?core::marker::Sized', '?Sized', '?::core::marker::Sized', '?std::marker::Sized']
    for i, c in enumerate(cases):
        for bi, b in enumerate(c.blocks):
            if b.relaxed:
                b.sized_spelling = spell[(i + bi) % len(spell)]    # `Sized` named through a path
    for i, c in enumerate(cases):
        if i % 7 == 5 and c.trait_name:
            c.trait_prefix = 'self::'       # the blocks name the trait through a two-segment path
        if i % 7 == 2 and c.trait_name:
            c.trait_prefix = '::me::'       # ... through an absolute path (`extern crate self as me`)
    if prop == 'C01':
        for i, c in enumerate(cases):
            c.with_type = (i % 2 == 0)      # every other case: the trait also has an associated type item
            c.unsafe_trait = (i % 5 == 3)   # every fifth: `unsafe trait` + `unsafe impl` blocks
    obs = pe.observe(cases, with_values=(prop == 'C01'))
    for c, o in zip(cases, obs):
        stats['cases'] += 1
        stats['programs'] += 2 + (1 if 'V' in o else 0)
        stats['by_kind'][c.kind] = stats['by_kind'].get(c.kind, 0) + 1
        if not o['shadow_ok']:
            stats['shadow_invalid'] += 1          # generator produced an invalid program: not a verdict
            continue
        S = o['S']
        stats['probes'] += len(S)
        spec = o.get('spec')
        if spec is not None:
            stats['spec_checked'] += 1
            if spec != S:
                stats['oracle_inconclusive'] += 1
                continue
        witness = [j for j, app in S.items() if len(app) > 1]
        if witness:
            stats['overlap_witnessed'] += 1
        if not o['macro_ok']:
            stats['macro_rejected'] += 1
            if prop == 'C04' and witness:
                nontrivial.add(c.invocation())
            by_construction = c.kind in ('flat', 'multi', 'payload', 'unsized', 'split', 'arity', 'tworoots', 'ltbound', 'twokeys', 'twokeys_mix', 'refmut', 'chain3') or c.kind.startswith('targs:')
            if (prop in ('C15', 'C16') or c.kind == 'combo' or (prop in ('C01', 'C02') and by_construction)) and not witness:
                # one family per instantiation, pairwise distinguished on a shared key: must be accepted
                violations.append(dict(case_dump(c), kind='property', request=c.invocation(), errors=o['macro_errors'][:4],
                                       oracle='the invocation (one family per instantiation, blocks pairwise distinguished on a shared key, no probe satisfies two blocks) does not compile: %s' % o['macro_errors'][:3]))
            continue
        P = o['P']
        if witness:
            if prop in ('C04',):
                j = witness[0]
                violations.append(dict(case_dump(c), kind='property', request=c.invocation(),
                                       oracle='probe %s satisfies blocks %s (shadow traits) yet the invocation compiles; it dispatches to %s'
                                              % (c.probes[j][1], S[j], 'an implementation' if P.get(j) else 'nothing')))
            continue
        for j, app in S.items():
            impl = P.get(j)
            if impl:
                stats['implemented'] += 1
            if prop in ('C02', 'C15', 'C16') and impl != (len(app) == 1):
                violations.append(dict(case_dump(c), kind='property', request=c.invocation(),
                                       oracle='probe %s: %s but the trait is %simplemented' % (
                                           c.probes[j][1], 'satisfies block %d' % app[0] if app else 'satisfies no block', '' if impl else 'not ')))
                break
        if prop in ('C02', 'C15', 'C16'):
            nontrivial.add(c.invocation())
        if prop == 'C01':
            if 'V_error' in o:
                violations.append(dict(case_dump(c), kind='property', request=c.invocation(),
                                       oracle='items of an implemented probe cannot be used: %s' % o['V_error']))
                continue
            V = o.get('V', {})
            for j, vals in V.items():
                app = S[j]
                if len(app) != 1:
                    continue
                stats['values_checked'] += 1
                want = pe.expected_values(c, app[0])
                if tuple(vals) != want:
                    violations.append(dict(case_dump(c), kind='property', request=c.invocation(),
                                           oracle='probe %s satisfies exactly block %d: expected items (NAME, ID, f(), Out) = %s, the generated implementation gives %s'
                                                  % (c.probes[j][1], app[0], want, tuple(vals))))
                    break
            if V:
                nontrivial.add(c.invocation())
    if prop == 'C01':
        # inherent mode: the items of the generated inherent impl are those of the selected block
        from . import c17
        icases, istats, inon, iviol = c17.core(rng, 12 if tier == 'quick' else 200)
        stats['inherent_mode'] = dict(cases=istats['cases'], programs=istats['programs'], values_checked=istats['values_checked'])
        stats['programs'] += istats['programs']
        nontrivial |= inon
        violations += [v for v in iviol if 'expected items' in v['oracle'] or 'does not compile' in v['oracle']]
        icase_invs = [c17.invocation(c) for c in icases]
    elif prop == 'C15':
        # inherent mode over structs with a parameter that may be unsized: whichever block of the
        # family relaxes it (only a later one, only the first, all) the invocation compiles and
        # unsized instantiations obtain exactly the block they satisfy
        from . import c17
        ni = 10 if tier == 'quick' else 120
        icases, istats, inon, iviol = c17.core(rng, 0, cases=[c17.gen(rng, idx=i, structs=['w6', 'w7']) for i in range(ni)])
        stats['inherent_mode'] = dict(cases=istats['cases'], programs=istats['programs'], values_checked=istats['values_checked'], rejected=istats['rejected'])
        stats['programs'] += istats['programs']
        nontrivial |= inon
        violations += iviol
        icase_invs = [c17.invocation(c) for c in icases]
    else:
        icase_invs = []
    # the generated helper impls = the user's blocks plus the row (the assumption of Dispatch.v
    # behind the C01/C02/C04 theorems), compared with the model Gen.gen_helper_impls
    ncmp, gviol = pe.check_genimpls([c.invocation() for c in cases] + icase_invs)
    stats['helper_impls_compared'] = ncmp
    violations += gviol
    ncmp2, mviol = pe.check_mainimpls([c.invocation() for c in cases] + icase_invs)
    stats['main_impls_compared'] = ncmp2
    stats['main_items_compared'] = pe.ITEMS_COMPARED
    violations += mviol
    if stats['spec_checked'] and stats['oracle_inconclusive'] > max(2, 0.02 * stats['spec_checked']):
        raise cm.HarnessError('the Coq model of trait resolution (RustSem.applicable) disagrees with rustc on %d of %d cases'
                              % (stats['oracle_inconclusive'], stats['spec_checked']))
    samples = [dict(kind=c.kind, invocation=c.invocation()[:600], probes=c.probes[:4]) for c in cases[:3]]
    return finish(prop, tier, seed, gate, cases, stats, nontrivial, violations, known_lines,
                  rule='generated invocations (kinds %s: header templates x key choice x bound placement x parameter spelling/order x extra bounds) + random worlds of dispatch-trait impls + probes = ground instances of every header and non-instances; each case = shadow-trait program + macro program (+ item-value program); non-trivial = distinct invocation that compiled with at least one implemented probe (C01/C02) or had an overlap witness (C04)' % KINDS[prop],
                  samples=samples, extra=dict(programs=stats['programs']))
